(* C04 (maps_in_sync) - the nonce map and the request lists of ActiveRequests stay in sync, under
   freshness of the drawn nonces.  Counting formulation: for every nonce n and node address na, the
   number of requests with nonce n stored under na equals the number of entries (n, na, _) of the
   nonce map, and every nonce is a key of the nonce map at most once. *)
From Coq Require Import List Arith NArith Bool Lia.
From Discv5V Require Import Model.Handler Proofs.HandlerInv.
Import ListNotations.

(* ------------------------------------------------------------------------------------------ *)
(* lookups after updates *)

Section AlistGet.
Context {A : Type}.
Implicit Types (l : list (naddr * A)) (k : naddr) (v : A).

Lemma alist_get_set : forall l k k' v,
  alist_get k' (alist_set k v l) = if naddr_eqb k' k then Some v else alist_get k' l.
Proof.
  induction l as [|[k0 v0] t IH]; intros k k' v; cbn [alist_set alist_get].
  - destruct (naddr_eqb k' k); reflexivity.
  - destruct (naddr_eqb k k0) eqn:E; cbn [alist_get].
    + apply naddr_eqb_spec in E. subst k0. destruct (naddr_eqb k' k); reflexivity.
    + rewrite IH. destruct (naddr_eqb k' k0) eqn:E2; [|reflexivity].
      apply naddr_eqb_spec in E2. subst k0. rewrite naddr_eqb_sym, E. reflexivity.
Qed.

Lemma alist_get_remove_other : forall l k k', naddr_eqb k' k = false ->
  alist_get k' (alist_remove k l) = alist_get k' l.
Proof.
  induction l as [|[k0 v0] t IH]; intros k k' H; cbn [alist_remove alist_get]; [reflexivity|].
  destruct (naddr_eqb k k0) eqn:E; cbn [alist_get].
  - apply naddr_eqb_spec in E. subst k0. rewrite H. reflexivity.
  - rewrite IH by assumption. reflexivity.
Qed.

Lemma alist_get_remove_same : forall l k, NoDup (map fst l) -> alist_get k (alist_remove k l) = None.
Proof. intros l k H. apply alist_get_none. apply alist_remove_key_gone. exact H. Qed.

Lemma alist_get_app : forall l1 l2 k,
  alist_get k (l1 ++ l2) = match alist_get k l1 with Some v => Some v | None => alist_get k l2 end.
Proof.
  induction l1 as [|[k0 v0] t IH]; intros l2 k; cbn [app alist_get]; [reflexivity|].
  destruct (naddr_eqb k k0); [reflexivity|apply IH].
Qed.

Lemma alist_keys_app_new : forall l k v, NoDup (map fst l) -> alist_get k l = None -> NoDup (map fst (l ++ [(k, v)])).
Proof.
  intros l k v H G. rewrite map_app. cbn [map fst]. apply NoDup_snoc; [exact H|]. apply alist_get_none. exact G.
Qed.
End AlistGet.

(* ------------------------------------------------------------------------------------------ *)
(* counting *)

Definition bn (b : bool) : nat := if b then 1 else 0.

Fixpoint cM (n : nonce) (na : naddr) (nm : list (nonce * naddr * N)) : nat :=
  match nm with
  | [] => 0
  | (n', na', _) :: t => bn (nonce_eqb n n' && naddr_eqb na na') + cM n na t
  end.
Fixpoint kM (n : nonce) (nm : list (nonce * naddr * N)) : nat :=
  match nm with
  | [] => 0
  | (n', _, _) :: t => bn (nonce_eqb n n') + kM n t
  end.
Fixpoint cntn (n : nonce) (l : list rcall) : nat :=
  match l with
  | [] => 0
  | r :: t => bn (nonce_eqb (rc_nonce r) n) + cntn n t
  end.
Definition cA (n : nonce) (na : naddr) (act : list (naddr * list rcall)) : nat :=
  match alist_get na act with Some l => cntn n l | None => 0 end.

(* second components of the nonces in the map *)
Definition nsec (nm : list (nonce * naddr * N)) : list N := map (fun e => snd (fst (fst e))) nm.

Lemma cM_app : forall n na l1 l2, cM n na (l1 ++ l2) = cM n na l1 + cM n na l2.
Proof. induction l1 as [|[[n' na'] d] t IH]; intros l2; cbn [cM app]; [reflexivity|]. rewrite IH. lia. Qed.
Lemma kM_app : forall n l1 l2, kM n (l1 ++ l2) = kM n l1 + kM n l2.
Proof. induction l1 as [|[[n' na'] d] t IH]; intros l2; cbn [kM app]; [reflexivity|]. rewrite IH. lia. Qed.
Lemma cntn_app : forall n l1 l2, cntn n (l1 ++ l2) = cntn n l1 + cntn n l2.
Proof. induction l1 as [|r t IH]; intros l2; cbn [cntn app]; [reflexivity|]. rewrite IH. lia. Qed.

Lemma cM_le_kM : forall n na nm, cM n na nm <= kM n nm.
Proof.
  induction nm as [|[[n' na'] d] t IH]; cbn [cM kM]; [lia|].
  destruct (nonce_eqb n n'); destruct (naddr_eqb na na'); cbn [andb bn]; lia.
Qed.

Lemma nmap_get_none_kM : forall n nm, nmap_get n nm = None <-> kM n nm = 0.
Proof.
  induction nm as [|[[n' na'] d] t IH]; cbn [nmap_get kM]; [tauto|].
  destruct (nonce_eqb n n'); cbn [bn].
  - split; [discriminate|lia].
  - rewrite IH. split; lia.
Qed.

Lemma nmap_get_some_cM : forall n na nm, nmap_get n nm = Some na -> 1 <= cM n na nm.
Proof.
  induction nm as [|[[n' na'] d] t IH]; cbn [nmap_get cM]; [discriminate|].
  destruct (nonce_eqb n n'); cbn [andb].
  - intros H. inversion H; subst. rewrite naddr_eqb_refl. cbn [bn]. lia.
  - intros H. specialize (IH H). cbn [bn]. lia.
Qed.

Lemma cM_uniq_get : forall n na nm, kM n nm <= 1 -> 1 <= cM n na nm -> nmap_get n nm = Some na.
Proof.
  induction nm as [|[[n' na'] d] t IH]; cbn [nmap_get cM kM]; [lia|].
  destruct (nonce_eqb n n') eqn:E; cbn [andb bn].
  - intros H1 H2. destruct (naddr_eqb na na') eqn:E2; cbn [bn] in *.
    + apply naddr_eqb_spec in E2. subst. reflexivity.
    + pose proof (cM_le_kM n na t). lia.
  - intros H1 H2. apply IH; lia.
Qed.

Lemma nmap_remove_none : forall n nm, nmap_get n nm = None -> nmap_remove n nm = nm.
Proof.
  induction nm as [|[[n' na'] d] t IH]; cbn [nmap_get nmap_remove]; [reflexivity|].
  destruct (nonce_eqb n n'); [discriminate|]. intros H. rewrite IH by assumption. reflexivity.
Qed.

Lemma nmap_remove_cM : forall n na nm, nmap_get n nm = Some na ->
  forall n' na', cM n' na' (nmap_remove n nm) + bn (nonce_eqb n' n && naddr_eqb na' na) = cM n' na' nm.
Proof.
  induction nm as [|[[n0 na0] d] t IH]; cbn [nmap_get nmap_remove]; [discriminate|].
  destruct (nonce_eqb n n0) eqn:E; intros H n' na'.
  - inversion H; subst. apply nonce_eqb_spec in E. subst n0. cbn [cM]. lia.
  - cbn [cM]. specialize (IH H n' na'). lia.
Qed.
Lemma nmap_remove_kM : forall n na nm, nmap_get n nm = Some na ->
  forall n', kM n' (nmap_remove n nm) + bn (nonce_eqb n' n) = kM n' nm.
Proof.
  induction nm as [|[[n0 na0] d] t IH]; cbn [nmap_get nmap_remove]; [discriminate|].
  destruct (nonce_eqb n n0) eqn:E; intros H n'.
  - inversion H; subst. apply nonce_eqb_spec in E. subst n0. cbn [kM]. lia.
  - cbn [kM]. specialize (IH H n'). lia.
Qed.

Lemma nmap_remove_cM_le : forall n nm n' na', cM n' na' (nmap_remove n nm) <= cM n' na' nm.
Proof.
  intros n nm n' na'. destruct (nmap_get n nm) as [na|] eqn:G.
  - pose proof (nmap_remove_cM n na nm G n' na'). lia.
  - rewrite nmap_remove_none by assumption. lia.
Qed.
Lemma nmap_remove_kM_le : forall n nm n', kM n' (nmap_remove n nm) <= kM n' nm.
Proof.
  intros n nm n'. destruct (nmap_get n nm) as [na|] eqn:G.
  - pose proof (nmap_remove_kM n na nm G n'). lia.
  - rewrite nmap_remove_none by assumption. lia.
Qed.

Lemma nsec_remove_incl : forall n nm x, In x (nsec (nmap_remove n nm)) -> In x (nsec nm).
Proof.
  induction nm as [|[[n0 na0] d] t IH]; cbn [nmap_remove nsec map In]; intros x H; [exact H|].
  destruct (nonce_eqb n n0); cbn [nsec map In] in *.
  - right. exact H.
  - destruct H as [H|H]; [left; exact H|right; apply IH; exact H].
Qed.

Lemma kM_zero_of_sec : forall n nm, ~ In (snd n) (nsec nm) -> kM n nm = 0.
Proof.
  induction nm as [|[[n0 na0] d] t IH]; cbn [kM nsec map In fst snd]; intros H; [reflexivity|].
  destruct (nonce_eqb n n0) eqn:E.
  - apply nonce_eqb_spec in E. subst n0. tauto.
  - cbn [bn]. rewrite IH; [reflexivity|tauto].
Qed.
Lemma kM_pos_sec : forall n nm, 1 <= kM n nm -> In (snd n) (nsec nm).
Proof.
  intros n nm H. destruct (in_dec N.eq_dec (snd n) (nsec nm)) as [Hin|Hn]; [exact Hin|].
  apply kM_zero_of_sec in Hn. lia.
Qed.

Lemma remove_first_cntn : forall n (p : rcall -> bool) l r l',
  remove_first p l = Some (r, l') -> cntn n l = bn (nonce_eqb (rc_nonce r) n) + cntn n l'.
Proof.
  intros n p. induction l as [|a t IH]; cbn [remove_first]; intros r l' H; [discriminate|].
  destruct (p a).
  - inversion H; subst. reflexivity.
  - destruct (remove_first p t) as [[y t']|]; [|discriminate]. inversion H; subst.
    cbn [cntn]. rewrite (IH _ _ eq_refl). lia.
Qed.

Lemma remove_first_none_cntn : forall n l,
  remove_first (fun r => nonce_eqb (rc_nonce r) n) l = None -> cntn n l = 0.
Proof.
  intros n. induction l as [|a t IH]; cbn [remove_first cntn]; intros H; [reflexivity|].
  destruct (nonce_eqb (rc_nonce a) n); [discriminate|].
  destruct (remove_first (fun r => nonce_eqb (rc_nonce r) n) t) as [[y t']|]; [discriminate|].
  cbn [bn]. rewrite IH; reflexivity.
Qed.

(* ------------------------------------------------------------------------------------------ *)
(* the invariant *)

Definition Sync (h : hstate) : Prop :=
  NoDup (map fst (active h)) /\
  (forall n na, cA n na (active h) = cM n na (nmap h)) /\
  (forall n, kM n (nmap h) <= 1).

Lemma bn_eqb_refl_nonce : forall n, bn (nonce_eqb n n) = 1.
Proof. intros n. rewrite nonce_eqb_refl. reflexivity. Qed.

Lemma nonce_eqb_sym : forall a b : nonce, nonce_eqb a b = nonce_eqb b a.
Proof. exact naddr_eqb_sym. Qed.

Lemma cA_put : forall n na0 act na l', NoDup (map fst act) ->
  cA n na0 (put_list na l' act) = if naddr_eqb na0 na then cntn n l' else cA n na0 act.
Proof.
  intros n na0 act na l' K. unfold cA, put_list. destruct l' as [|x l'].
  - destruct (naddr_eqb na0 na) eqn:E.
    + apply naddr_eqb_spec in E. subst na0. rewrite alist_get_remove_same by assumption. reflexivity.
    + rewrite alist_get_remove_other by assumption. reflexivity.
  - rewrite alist_get_set. destruct (naddr_eqb na0 na); reflexivity.
Qed.

Lemma put_list_keys : forall act na l l', alist_get na act = Some l -> NoDup (map fst act) ->
  NoDup (map fst (put_list na l' act)).
Proof.
  intros act na l l' G K. unfold put_list. destruct l' as [|x l'].
  - apply alist_remove_keys_nodup. exact K.
  - rewrite (alist_set_keys _ _ _ _ G). exact K.
Qed.

(* taking a request out by (address, predicate): both maps are updated at once *)
Lemma Sync_take : forall h na l p r l',
  Sync h -> alist_get na (active h) = Some l -> remove_first p l = Some (r, l') ->
  Sync (set_active h (put_list na l' (active h)) (nmap_remove (rc_nonce r) (nmap h)))
  /\ kM (rc_nonce r) (nmap_remove (rc_nonce r) (nmap h)) = 0
  /\ nmap_get (rc_nonce r) (nmap h) = Some na.
Proof.
  intros h na l p r l' (K & S & U) G R.
  pose proof (remove_first_cntn (rc_nonce r) p l r l' R) as C0. rewrite bn_eqb_refl_nonce in C0.
  assert (G1 : nmap_get (rc_nonce r) (nmap h) = Some na).
  { apply cM_uniq_get; [apply U|]. rewrite <- S. unfold cA. rewrite G. lia. }
  split; [|split; [|exact G1]].
  - split; [|split]; cbn [set_active active nmap].
    + eapply put_list_keys; eauto.
    + intros n na0. rewrite cA_put by assumption.
      pose proof (nmap_remove_cM _ _ _ G1 n na0) as X. rewrite <- S in X.
      destruct (naddr_eqb na0 na) eqn:E.
      * apply naddr_eqb_spec in E. subst na0. unfold cA in X. rewrite G in X.
        rewrite (remove_first_cntn n p l r l' R) in X. rewrite andb_true_r in X.
        rewrite (nonce_eqb_sym n) in X. lia.
      * rewrite andb_false_r in X. cbn [bn] in X. lia.
    + intros n. pose proof (nmap_remove_kM_le (rc_nonce r) (nmap h) n). specialize (U n). lia.
  - pose proof (nmap_remove_kM _ _ _ G1 (rc_nonce r)) as X. rewrite bn_eqb_refl_nonce in X.
    specialize (U (rc_nonce r)). lia.
Qed.

(* ActiveRequests::insert with a nonce that is not a key of the nonce map *)
Lemma Sync_insert : forall c h na r now, Sync h -> kM (rc_nonce r) (nmap h) = 0 ->
  Sync (ar_insert c h na r now) /\ nmap (ar_insert c h na r now) = nmap h ++ [(rc_nonce r, na, (now + cfg_timeout c)%N)].
Proof.
  intros c h na r now (K & S & U) F.
  assert (E : nmap (ar_insert c h na r now) = nmap h ++ [(rc_nonce r, na, (now + cfg_timeout c)%N)]).
  { unfold ar_insert. cbn [set_active nmap]. unfold nmap_insert. rewrite nmap_remove_none; [reflexivity|].
    apply nmap_get_none_kM. exact F. }
  split; [|exact E]. split; [|split]; rewrite ?E.
  - unfold ar_insert. cbn [set_active active]. destruct (alist_get na (active h)) as [l|] eqn:G.
    + rewrite (alist_set_keys _ _ _ _ G). exact K.
    + apply alist_keys_app_new; assumption.
  - intros n na0. rewrite cM_app. cbn [cM]. rewrite <- S. unfold ar_insert. cbn [set_active active]. unfold cA.
    destruct (alist_get na (active h)) as [l|] eqn:G.
    + rewrite alist_get_set. destruct (naddr_eqb na0 na) eqn:E2.
      * apply naddr_eqb_spec in E2. subst na0. rewrite G, cntn_app. cbn [cntn]. rewrite andb_true_r.
        rewrite (nonce_eqb_sym n). lia.
      * rewrite andb_false_r. cbn [bn]. lia.
    + rewrite alist_get_app. cbn [alist_get]. destruct (naddr_eqb na0 na) eqn:E2.
      * apply naddr_eqb_spec in E2. subst na0. rewrite G. cbn [cntn]. rewrite andb_true_r.
        rewrite (nonce_eqb_sym n). lia.
      * rewrite andb_false_r. cbn [bn]. destruct (alist_get na0 (active h)); lia.
  - intros n. rewrite kM_app. cbn [kM]. specialize (U n). destruct (nonce_eqb n (rc_nonce r)) eqn:E2; cbn [bn]; [|lia].
    apply nonce_eqb_spec in E2. subst n. lia.
Qed.

Lemma Sync_stored : forall h n na, Sync h -> nmap_get n (nmap h) = Some na ->
  exists l r l', alist_get na (active h) = Some l /\
    remove_first (fun r => nonce_eqb (rc_nonce r) n) l = Some (r, l') /\ rc_nonce r = n.
Proof.
  intros h n na (K & S & U) G. pose proof (nmap_get_some_cM _ _ _ G) as C. rewrite <- S in C. unfold cA in C.
  destruct (alist_get na (active h)) as [l|]; [|lia]. exists l.
  destruct (remove_first (fun r => nonce_eqb (rc_nonce r) n) l) as [[r l']|] eqn:R.
  - exists r, l'. repeat split. apply remove_first_spec in R. destruct R as (R & _). apply nonce_eqb_spec. exact R.
  - apply remove_first_none_cntn in R. lia.
Qed.

Lemma Sync_set_nmap_same : forall h, Sync h -> Sync (set_active h (active h) (nmap h)).
Proof. intros h H. exact H. Qed.

(* ActiveRequests::remove_by_nonce: under Sync the mismatch branches are unreachable *)
Lemma Sync_remove_by_nonce : forall h n h' found,
  Sync h -> ar_remove_by_nonce h n = (h', found) ->
  match found with
  | Some (na, r) => nmap_get n (nmap h) = Some na /\ rc_nonce r = n /\ Sync h' /\ kM n (nmap h') = 0
                    /\ nmap h' = nmap_remove n (nmap h)
  | None => nmap_get n (nmap h) = None /\ h' = h
  end.
Proof.
  intros h n h' found H E. unfold ar_remove_by_nonce in E.
  destruct (nmap_get n (nmap h)) as [na|] eqn:G; [|inversion E; subst; auto].
  destruct (Sync_stored h n na H G) as (l & r & l' & G1 & R & Hn). rewrite G1, R in E. inversion E; subst.
  destruct (Sync_take h na l _ r l' H G1 R) as (A & B & C).
  refine (conj _ (conj _ (conj A (conj B _)))); auto.
Qed.

Lemma Sync_remove_request : forall h na rid h' r,
  Sync h -> ar_remove_request h na rid = (h', Some r) ->
  Sync h' /\ kM (rc_nonce r) (nmap h') = 0 /\ nmap h' = nmap_remove (rc_nonce r) (nmap h)
  /\ nmap_get (rc_nonce r) (nmap h) = Some na.
Proof.
  intros h na rid h' r H E. unfold ar_remove_request in E.
  destruct (alist_get na (active h)) as [l|] eqn:G; [|discriminate].
  destruct (remove_first (fun r0 => N.eqb (rc_rid r0) rid) l) as [[r0 l']|] eqn:R; [|discriminate].
  inversion E; subst. destruct (Sync_take h na l _ r l' H G R) as (A & B & C).
  refine (conj A (conj B (conj _ C))). reflexivity.
Qed.

(* ActiveRequests::remove_requests *)
Lemma fold_nmap_remove : forall na l nm,
  (forall n, kM n nm <= 1) -> (forall n, cntn n l <= cM n na nm) ->
  let nm' := fold_left (fun nm r => nmap_remove (rc_nonce r) nm) l nm in
  (forall n na0, cM n na0 nm' + (if naddr_eqb na0 na then cntn n l else 0) = cM n na0 nm)
  /\ (forall n, kM n nm' <= kM n nm).
Proof.
  intros na. induction l as [|r t IH]; intros nm U C; cbn [fold_left cntn].
  - split; [|auto]. intros n na0. destruct (naddr_eqb na0 na); lia.
  - assert (G : nmap_get (rc_nonce r) nm = Some na).
    { apply cM_uniq_get; [apply U|]. specialize (C (rc_nonce r)). cbn [cntn] in C. rewrite bn_eqb_refl_nonce in C. lia. }
    pose proof (nmap_remove_cM _ _ _ G) as X. pose proof (nmap_remove_kM _ _ _ G) as Y.
    destruct (IH (nmap_remove (rc_nonce r) nm)) as [I1 I2].
    + intros n. specialize (Y n). specialize (U n). lia.
    + intros n. specialize (C n). cbn [cntn] in C. specialize (X n na). rewrite naddr_eqb_refl, andb_true_r in X.
      rewrite (nonce_eqb_sym n) in X. lia.
    + split.
      * intros n na0. specialize (I1 n na0). specialize (X n na0). destruct (naddr_eqb na0 na) eqn:E.
        -- rewrite andb_true_r in X. rewrite (nonce_eqb_sym n) in X. lia.
        -- rewrite andb_false_r in X. cbn [bn] in X. lia.
      * intros n. specialize (I2 n). specialize (Y n). lia.
Qed.

Lemma Sync_remove_requests : forall h na h' reqs,
  Sync h -> ar_remove_requests h na = (h', reqs) ->
  Sync h' /\ (forall n na0, cM n na0 (nmap h') <= cM n na0 (nmap h)) /\ (forall x, In x (nsec (nmap h')) -> In x (nsec (nmap h))).
Proof.
  intros h na h' reqs (K & S & U) E. unfold ar_remove_requests in E.
  destruct (alist_get na (active h)) as [l|] eqn:G; injection E as <- <-; [|split; [exact (conj K (conj S U))|split; auto]].
  assert (C : forall n, cntn n l <= cM n na (nmap h)). { intros n. rewrite <- S. unfold cA. rewrite G. lia. }
  destruct (fold_nmap_remove na l (nmap h) U C) as [I1 I2]. cbn [set_active active nmap].
  split; [split; [|split]|split]; cbn [set_active active nmap].
  - apply alist_remove_keys_nodup. exact K.
  - intros n na0. specialize (I1 n na0). rewrite <- S in I1. unfold cA in *.
    destruct (naddr_eqb na0 na) eqn:E2.
    + apply naddr_eqb_spec in E2. subst na0. rewrite alist_get_remove_same by assumption. rewrite G in I1. lia.
    + rewrite alist_get_remove_other by assumption. lia.
  - intros n. specialize (I2 n). specialize (U n). lia.
  - intros n na0. specialize (I1 n na0). lia.
  - clear. generalize (nmap h). induction l as [|r t IH]; intros nm x H; cbn [fold_left] in H; [exact H|].
    apply IH in H. apply nsec_remove_incl in H. exact H.
Qed.

(* ActiveRequests::update_packet with a new nonce that is not a key of the nonce map *)
Lemma upd_pkt_cntn : forall old p l n, 1 <= cntn old l ->
  cntn n (upd_pkt old p l false) + bn (nonce_eqb old n) = cntn n l + bn (nonce_eqb (pkt_nonce p) n).
Proof.
  intros old p l n. induction l as [|r t IH]; cbn [upd_pkt cntn]; intros H; [lia|].
  cbn [negb andb]. destruct (nonce_eqb (rc_nonce r) old) eqn:E.
  - apply nonce_eqb_spec in E. cbn [cntn]. unfold rc_nonce at 1. cbn [rc_pkt].
    assert (X : forall l', cntn n (upd_pkt old p l' true) = cntn n l').
    { induction l' as [|r' t' IH']; cbn [upd_pkt cntn negb andb]; [reflexivity|]. rewrite IH'. reflexivity. }
    rewrite X, E. lia.
  - cbn [cntn bn] in *. specialize (IH H). lia.
Qed.

Lemma Sync_update_packet : forall c h old p now, Sync h -> kM (pkt_nonce p) (nmap h) = 0 ->
  Sync (ar_update_packet c h old p now)
  /\ (forall x, In x (nsec (nmap (ar_update_packet c h old p now))) -> In x (nsec (nmap h)) \/ x = snd (pkt_nonce p)).
Proof.
  intros c h old p now (K & S & U) F. rewrite ar_update_packet_eq.
  destruct (nmap_get old (nmap h)) as [na|] eqn:G; [|split; [exact (conj K (conj S U))|auto]]. cbv zeta.
  destruct (Sync_stored h old na (conj K (conj S U)) G) as (l & r & l' & G1 & R & Hn). rewrite G1.
  assert (C1 : 1 <= cntn old l).
  { rewrite (remove_first_cntn old _ l r l' R). rewrite Hn, bn_eqb_refl_nonce. lia. }
  assert (Hne : nonce_eqb (pkt_nonce p) old = false).
  { destruct (nonce_eqb (pkt_nonce p) old) eqn:E; [|reflexivity]. apply nonce_eqb_spec in E. rewrite E in F.
    apply nmap_get_none_kM in F. congruence. }
  assert (F' : nmap_get (pkt_nonce p) (nmap_remove old (nmap h)) = None).
  { apply nmap_get_none_kM. pose proof (nmap_remove_kM_le old (nmap h) (pkt_nonce p)). lia. }
  unfold nmap_insert. rewrite (nmap_remove_none _ _ F').
  split; [split; [|split]|]; cbn [set_active active nmap].
  - rewrite (alist_set_keys _ _ _ _ G1). exact K.
  - intros n na0. rewrite cM_app. cbn [cM]. pose proof (nmap_remove_cM _ _ _ G n na0) as X. rewrite <- S in X.
    unfold cA in *. rewrite alist_get_set. destruct (naddr_eqb na0 na) eqn:E.
    + apply naddr_eqb_spec in E. subst na0. rewrite G1 in X. rewrite !andb_true_r in *.
      pose proof (upd_pkt_cntn old p l n C1). rewrite (nonce_eqb_sym n old) in X. rewrite (nonce_eqb_sym n (pkt_nonce p)). lia.
    + rewrite !andb_false_r in *. cbn [bn] in *. lia.
  - intros n. rewrite kM_app. cbn [kM]. pose proof (nmap_remove_kM _ _ _ G n) as Y. specialize (U n).
    destruct (nonce_eqb n (pkt_nonce p)) eqn:E; cbn [bn]; [|lia]. apply nonce_eqb_spec in E. subst n.
    apply nmap_get_none_kM in F'. lia.
  - intros x H. unfold nsec in H. rewrite map_app, in_app_iff in H. cbn [map In fst snd] in H.
    destruct H as [H|[H|[]]]; [left|right; auto]. apply (nsec_remove_incl old). exact H.
Qed.

(* ------------------------------------------------------------------------------------------ *)
(* freshness of the oracle draws.  Every new packet takes one quadruple (c, r, aad, eph) of d_pk;
   its nonce is (c, r) (random packet, handshake) or (counter + 1, r) (encrypt_message): the second
   component is drawn in both cases.  [FreshD Z s]: the second components still to be drawn are
   pairwise distinct and differ from those of all nonces in the nonce map and from the values Z
   (those of requests in flight).  pop_pk on an exhausted list returns zeros, which are not fresh:
   [U0 s] (the list is exhausted) makes the invariant void; the step theorem assumes the list was
   not exhausted at the end of the step. *)

Definition dsec (d : draws) : list N := map (fun q => snd (fst (fst q))) (d_pk d).
Definition FreshD (Z : list N) (s : st) : Prop :=
  NoDup (dsec (dr s)) /\ forall x, In x (dsec (dr s)) -> ~ In x Z /\ ~ In x (nsec (nmap (hs s))).
Definition Full (Z : list N) (s : st) : Prop := Sync (hs s) /\ FreshD Z s.
Definition U0 (s : st) : Prop := d_pk (dr s) = [].
(* a value reserved for a nonce: already drawn, not yet in the nonce map *)
Definition FreshN (r : N) (s : st) : Prop := ~ In r (dsec (dr s)) /\ ~ In r (nsec (nmap (hs s))).

Definition NSIx (P : Prop) (Z : list N) (s : st) : Prop := U0 s \/ (Full Z s /\ P).
Definition NSI (Z : list N) (s : st) : Prop := NSIx True Z s.

Definition core (s : st) := (active (hs s), nmap (hs s), dr s).

Lemma core_eq : forall s s', active (hs s') = active (hs s) -> nmap (hs s') = nmap (hs s) -> dr s' = dr s -> core s' = core s.
Proof. intros s s' H1 H2 H3. unfold core. rewrite H1, H2, H3. reflexivity. Qed.

Lemma Full_core : forall Z s s', core s' = core s -> Full Z s -> Full Z s'.
Proof.
  intros Z s s' E. unfold core in E. injection E as E1 E2 E3. unfold Full, Sync, FreshD. rewrite E1, E2, E3. auto.
Qed.
Lemma U0_core : forall s s', core s' = core s -> U0 s -> U0 s'.
Proof. intros s s' E. unfold core in E. injection E as E1 E2 E3. unfold U0. rewrite E3. auto. Qed.
Lemma FreshN_core : forall r s s', core s' = core s -> FreshN r s -> FreshN r s'.
Proof. intros r s s' E. unfold core in E. injection E as E1 E2 E3. unfold FreshN. rewrite E2, E3. auto. Qed.

Lemma NSIx_core : forall P Z s s', core s' = core s -> NSIx P Z s -> NSIx P Z s'.
Proof.
  intros P Z s s' E [H|[H1 H2]]; [left; eapply U0_core; eauto|right; split; [eapply Full_core; eauto|exact H2]].
Qed.
Lemma NSIx_imp : forall (P Q : Prop) Z s, (P -> Q) -> NSIx P Z s -> NSIx Q Z s.
Proof. intros P Q Z s H [A|[A B]]; [left; exact A|right; auto]. Qed.
Lemma NSI_of_x : forall P Z s, NSIx P Z s -> NSI Z s.
Proof. intros P Z s. apply NSIx_imp. auto. Qed.

Lemma Full_weaken : forall Z Z' s, incl Z Z' -> Full Z' s -> Full Z s.
Proof.
  intros Z Z' s I (S & N & F). split; [exact S|]. split; [exact N|]. intros x Hx. destruct (F x Hx) as [A B]. split; auto.
Qed.
Lemma NSIx_weaken : forall P Z Z' s, incl Z Z' -> NSIx P Z' s -> NSIx P Z s.
Proof. intros P Z Z' s I [A|[A B]]; [left; exact A|right; split; [eapply Full_weaken; eauto|exact B]]. Qed.

Lemma NSIx_emit : forall P Z s o, NSIx P Z s -> NSIx P Z (emit s o).
Proof. intros P Z s o. apply NSIx_core. reflexivity. Qed.
Lemma NSIx_send : forall P Z s na p, NSIx P Z s -> NSIx P Z (send s na p).
Proof. intros P Z s na p. apply NSIx_core. reflexivity. Qed.
Lemma NSIx_add_expected : forall P Z s a, NSIx P Z s -> NSIx P Z (add_expected s a).
Proof. intros P Z s a. apply NSIx_core. reflexivity. Qed.
Lemma NSIx_remove_expected : forall P Z s a, NSIx P Z s -> NSIx P Z (remove_expected s a).
Proof. intros P Z s a. apply NSIx_core. reflexivity. Qed.

Lemma core_sess_get : forall c s na, core (with_hs s (fst (sess_get c (hs s) na))) = core s.
Proof.
  intros c s na. destruct (sess_get_frame c (hs s) na) as (A & B & _). unfold core. cbn [with_hs hs dr].
  rewrite A, B. reflexivity.
Qed.
Lemma core_remove_expired_sessions : forall c s, core (remove_expired_sessions c s) = core s.
Proof.
  intros c s. destruct (remove_expired_sessions_frame c s) as (A & B & _). unfold core.
  rewrite A, B, remove_expired_sessions_dr. reflexivity.
Qed.

(* drawing *)
Lemma pop_pk_cases : forall d q d', pop_pk d = (q, d') ->
  (d_pk d = [] /\ d' = d) \/ (d_pk d = q :: d_pk d').
Proof.
  intros d q d' H. unfold pop_pk in H. destruct (d_pk d) as [|x r] eqn:E.
  - left. inversion H; subst. auto.
  - right. inversion H; subst. reflexivity.
Qed.

Lemma NSI_pop : forall Z s q d', NSI Z s -> pop_pk (dr s) = (q, d') ->
  let s' := {| hs := hs s; dr := d'; outs := outs s |} in
  U0 s' \/ (Full Z s' /\ FreshN (snd (fst (fst q))) s').
Proof.
  intros Z s q d' H E s'. destruct (pop_pk_cases _ _ _ E) as [[E1 E2]|E1].
  - left. subst d'. exact E1.
  - destruct H as [H|[(S & N & F) _]]; [unfold U0 in H; congruence|]. right.
    unfold dsec in N, F. rewrite E1 in N, F. cbn [map] in N, F. inversion N; subst.
    split; [split; [exact S|split]|split]; unfold dsec; cbn [dr hs].
    + assumption.
    + intros x Hx. apply F. right. exact Hx.
    + assumption.
    + apply (F (snd (fst (fst q)))). left. reflexivity.
Qed.

(* inserting a request whose nonce is free *)
Lemma NSI_insert : forall Z s c na r now,
  NSIx (kM (rc_nonce r) (nmap (hs s)) = 0 /\ ~ In (snd (rc_nonce r)) (dsec (dr s))) Z s ->
  NSI Z (with_hs s (ar_insert c (hs s) na r now)).
Proof.
  intros Z s c na r now [H|[(S & N & F) [K D]]]; [left; exact H|]. right. split; [|exact I].
  destruct (Sync_insert c (hs s) na r now S K) as [S' E]. split; [exact S'|]. split; [exact N|].
  cbn [with_hs hs dr]. intros x Hx. destruct (F x Hx) as [A B]. split; [exact A|]. rewrite E.
  unfold nsec. rewrite map_app, in_app_iff. cbn [map In fst snd]. intros [H|[H|[]]]; [apply B; exact H|].
  subst x. apply D. exact Hx.
Qed.

Lemma NSI_insert_fresh : forall Z s c na r now,
  NSIx (FreshN (snd (rc_nonce r)) s) Z s -> NSI Z (with_hs s (ar_insert c (hs s) na r now)).
Proof.
  intros Z s c na r now H. apply NSI_insert. revert H. apply NSIx_imp. intros [A B]. split; [|exact A].
  apply kM_zero_of_sec. exact B.
Qed.

Lemma NSI_insert_inflight : forall Z s c na r now,
  NSIx (kM (rc_nonce r) (nmap (hs s)) = 0) (snd (rc_nonce r) :: Z) s ->
  NSI Z (with_hs s (ar_insert c (hs s) na r now)).
Proof.
  intros Z s c na r now H. apply NSI_insert. destruct H as [H|[F K]]; [left; exact H|right].
  split; [eapply Full_weaken; [|exact F]; apply incl_tl, incl_refl|]. split; [exact K|].
  destruct F as (_ & _ & F). intros Hin. destruct (F _ Hin) as [A _]. apply A. left. reflexivity.
Qed.

(* taking a request out: its nonce becomes free, the drawn values keep avoiding it *)
Lemma Full_take : forall Z s h1 n, Full Z s -> nmap h1 = nmap_remove n (nmap (hs s)) -> Sync h1 ->
  1 <= kM n (nmap (hs s)) -> Full (snd n :: Z) (with_hs s h1).
Proof.
  intros Z s h1 n (S & N & F) E S1 K. split; [exact S1|]. split; [exact N|]. cbn [with_hs hs dr].
  intros x Hx. destruct (F x Hx) as [A B]. split.
  - intros [H|H]; [|auto]. subst x. apply B. apply kM_pos_sec. exact K.
  - rewrite E. intros H. apply B. eapply nsec_remove_incl. exact H.
Qed.

(* ------------------------------------------------------------------------------------------ *)
(* one lemma per model function *)

Lemma encrypt_message_nsi : forall Z c s na se m, NSI Z s ->
  hs (fst (fst (encrypt_message c s na se m))) = hs s /\
  NSIx (FreshN (snd (pkt_nonce (snd (encrypt_message c s na se m)))) (fst (fst (encrypt_message c s na se m))))
       Z (fst (fst (encrypt_message c s na se m))).
Proof.
  intros Z c s na se m H. unfold encrypt_message.
  pose proof (NSI_pop Z s) as P. destruct (pop_pk (dr s)) as [[[[x1 r] aad] x4] d']. cbn [fst snd pkt_nonce].
  split; [reflexivity|]. apply (P _ _ H eq_refl).
Qed.

Lemma is_awaiting_session_core : forall c s na, core (fst (is_awaiting_session c s na)) = core s.
Proof.
  intros c s na. unfold is_awaiting_session. pose proof (core_sess_get c s na) as H.
  destruct (sess_get c (hs s) na) as [h se]. cbn [fst] in H. destruct se; exact H.
Qed.

Lemma push_pending_core : forall s na q, core (with_hs s (push_pending (hs s) na q)) = core s.
Proof. intros s na q. unfold push_pending. destruct (alist_get na (pending (hs s))); reflexivity. Qed.

Lemma send_request_nsi : forall Z c s ct ext rid body now,
  NSI Z s -> NSI Z (fst (send_request c s ct ext rid body now)).
Proof.
  intros Z c s ct ext rid body now H. unfold send_request.
  destruct (existsb (N.eqb (c_addr ct)) (cfg_listen c)); [exact H|].
  assert (H1 : NSI Z (fst (if has_challenge (hs s) (c_naddr ct) then (s, true)
                          else is_awaiting_session c s (c_naddr ct)))).
  { destruct (has_challenge (hs s) (c_naddr ct)); [exact H|].
    eapply NSIx_core; [apply is_awaiting_session_core|exact H]. }
  destruct (if has_challenge (hs s) (c_naddr ct) then (s, true) else is_awaiting_session c s (c_naddr ct))
    as [s1 aw]. cbn [fst] in H1.
  destruct aw; cbn [fst].
  - eapply NSIx_core; [apply push_pending_core|exact H1].
  - pose proof (core_sess_get c s1 (c_naddr ct)) as H4.
    destruct (sess_get c (hs s1) (c_naddr ct)) as [h2 se]. cbn [fst] in H4.
    assert (H2 : NSI Z (with_hs s1 h2)) by (eapply NSIx_core; eauto).
    destruct se as [se|].
    + destruct (encrypt_message_nsi Z c (with_hs s1 h2) (c_naddr ct) se (MReq rid body) H2) as [H5 H6].
      destruct (encrypt_message c (with_hs s1 h2) (c_naddr ct) se (MReq rid body)) as [[s3 se'] p].
      cbn [fst snd] in *.
      match goal with |- NSI Z (with_hs ?s5 (ar_insert c (hs ?s5) ?na' ?r' now)) =>
        apply (NSI_insert_fresh Z s5 c na' r' now) end.
      cbn [rc_nonce rc_pkt]. revert H6. intros H6.
      eapply NSIx_core in H6; [|]. 2:{ instantiate (1 := send (add_expected (with_hs s3 (sess_put (hs s3) (c_naddr ct) se')) (c_addr ct)) (c_naddr ct) p). reflexivity. }
      revert H6. apply NSIx_imp. apply FreshN_core. reflexivity.
    + pose proof (NSI_pop Z (with_hs s1 h2)) as P.
      destruct (pop_pk (dr (with_hs s1 h2))) as [[[[cn r] aad] x4] d']. specialize (P _ _ H2 eq_refl).
      cbn [fst snd] in *.
      match goal with |- NSI Z (with_hs ?s5 (ar_insert c (hs ?s5) ?na' ?r' now)) =>
        apply (NSI_insert_fresh Z s5 c na' r' now) end.
      cbn [rc_nonce rc_pkt pkt_nonce snd].
      match goal with |- NSIx _ Z ?s5 => eapply (NSIx_core _ Z _ s5) in P; [|reflexivity] end.
      revert P. apply NSIx_imp. apply FreshN_core. reflexivity.
Qed.

Lemma send_pending_requests_nsi : forall Z c s na now, NSI Z s -> NSI Z (send_pending_requests c s na now).
Proof.
  intros Z c s na now H. unfold send_pending_requests.
  destruct (alist_get na (pending (hs s))) as [l|]; [|exact H].
  apply (fold_left_inv (NSI Z)).
  - intros s' q _ Hs'. pose proof (send_request_nsi Z c s' (pq_contact q) (pq_ext q) (pq_rid q) (pq_body q) now Hs') as X.
    destruct (send_request c s' (pq_contact q) (pq_ext q) (pq_rid q) (pq_body q) now) as [s'' ok].
    cbn [fst] in X. destruct ok; [exact X|]. destruct (pq_ext q); [apply NSIx_emit|]; exact X.
  - eapply NSIx_core; [|exact H]. reflexivity.
Qed.

Lemma NSI_remove_requests : forall Z s na h3 reqs,
  NSI Z s -> ar_remove_requests (hs s) na = (h3, reqs) -> NSI Z (with_hs s h3).
Proof.
  intros Z s na h3 reqs [H|[(S & N & F) _]] E; [left; exact H|right]. split; [|exact I].
  destruct (Sync_remove_requests _ _ _ _ S E) as (S' & _ & I3). split; [exact S'|]. split; [exact N|].
  cbn [with_hs hs dr]. intros x Hx. destruct (F x Hx) as [A B]. split; [exact A|]. intros Hin. apply B, I3, Hin.
Qed.

Lemma fail_session_nsi : forall Z c s na err rm, NSI Z s -> NSI Z (fail_session c s na err rm).
Proof.
  intros Z c s na err rm H. unfold fail_session.
  set (s1 := if rm then let s0 := remove_expired_sessions c s in with_hs s0 (sess_remove (hs s0) na) else s).
  assert (H1 : NSI Z s1).
  { subst s1. destruct rm; [|exact H]. cbv zeta.
    eapply NSIx_core; [|eapply NSIx_core; [apply (core_remove_expired_sessions c)|exact H]]. reflexivity. }
  clearbody s1.
  set (s2 := match alist_get na (pending (hs s1)) with Some l => _ | None => s1 end).
  assert (H2 : NSI Z s2).
  { subst s2. destruct (alist_get na (pending (hs s1))) as [l|]; [|exact H1].
    apply (fold_left_inv (NSI Z)).
    - intros s' q _ Hs'. destruct (pq_ext q); [apply NSIx_emit|]; exact Hs'.
    - eapply NSIx_core; [|exact H1]. reflexivity. }
  clearbody s2.
  destruct (ar_remove_requests (hs s2) na) as [h3 reqs] eqn:E.
  apply (fold_left_inv (NSI Z)).
  - intros s' r _ Hs'. apply NSIx_remove_expected. destruct (rc_ext r); [apply NSIx_emit|]; exact Hs'.
  - eapply NSI_remove_requests; eauto.
Qed.

Lemma fail_request_nsi : forall Z c s r err rm, NSI Z s -> NSI Z (fail_request c s r err rm).
Proof.
  intros Z c s r err rm H. unfold fail_request. apply fail_session_nsi. destruct (rc_ext r); [apply NSIx_emit|]; exact H.
Qed.

(* a list of reserved values *)
Definition FreshNs (R : list N) (s : st) : Prop := NoDup R /\ forall r, In r R -> FreshN r s.

Lemma NSI_update_packet : forall Z c s old p now R,
  NSIx (FreshNs (snd (pkt_nonce p) :: R) s) Z s ->
  NSIx (FreshNs R (with_hs s (ar_update_packet c (hs s) old p now))) Z (with_hs s (ar_update_packet c (hs s) old p now)).
Proof.
  intros Z c s old p now R [H|[(S & N & F) [ND FR]]]; [left; exact H|right].
  destruct (FR (snd (pkt_nonce p)) (or_introl eq_refl)) as [D B].
  destruct (Sync_update_packet c (hs s) old p now S (kM_zero_of_sec _ _ B)) as [S' I3].
  inversion ND; subst. split; [split; [exact S'|split; [exact N|]]|split; [assumption|]]; cbn [with_hs hs dr].
  - intros x Hx. destruct (F x Hx) as [A B']. split; [exact A|]. intros Hin. apply I3 in Hin.
    destruct Hin as [Hin|Hin]; [apply B'; exact Hin|]. subst x. apply D. exact Hx.
  - intros r Hr. destruct (FR r (or_intror Hr)) as [D' B']. split; [exact D'|]. cbn [with_hs hs].
    intros Hin. apply I3 in Hin. destruct Hin as [Hin|Hin]; [apply B'; exact Hin|]. subst r. contradiction.
Qed.

Lemma FreshNs_core : forall R s s', core s' = core s -> FreshNs R s -> FreshNs R s'.
Proof. intros R s s' E [A B]. split; [exact A|]. intros r Hr. eapply FreshN_core; eauto. Qed.

Lemma NSI_pop_res : forall Z s R q d', NSIx (FreshNs R s) Z s -> pop_pk (dr s) = (q, d') ->
  let s' := {| hs := hs s; dr := d'; outs := outs s |} in
  NSIx (FreshNs (R ++ [snd (fst (fst q))]) s') Z s'.
Proof.
  intros Z s R q d' H E s'. destruct (pop_pk_cases _ _ _ E) as [[E1 E2]|E1].
  - left. subst d'. exact E1.
  - destruct H as [H|[(S & N & F) [ND FR]]]; [unfold U0 in H; congruence|]. right.
    unfold dsec in N, F. rewrite E1 in N, F. cbn [map] in N, F. inversion N; subst.
    split; [split; [exact S|split]|split]; unfold dsec; cbn [dr hs].
    + assumption.
    + intros x Hx. apply F. right. exact Hx.
    + apply NoDup_snoc; [exact ND|]. intros Hin. destruct (FR _ Hin) as [A _]. apply A.
      unfold dsec. rewrite E1. left. reflexivity.
    + intros r Hr. apply in_app_or in Hr. destruct Hr as [Hr|[Hr|[]]].
      * destruct (FR _ Hr) as [A B]. split; [|exact B]. intros Hin. apply A. unfold dsec. rewrite E1. right. exact Hin.
      * subst r. split; [assumption|]. apply (F (snd (fst (fst q)))). left. reflexivity.
Qed.

Lemma replay_active_requests_nsi : forall Z c s na skip now, NSI Z s -> NSI Z (replay_active_requests c s na skip now).
Proof.
  intros Z c s na skip now H. unfold replay_active_requests.
  pose proof (core_sess_get c s na) as H1.
  destruct (sess_get c (hs s) na) as [h1 se]. cbn [fst] in H1.
  assert (H0 : NSI Z (with_hs s h1)) by (eapply NSIx_core; eauto).
  destruct se as [se0|]; [|exact H0].
  match goal with |- context [fold_left ?f ?l (with_hs s h1, se0, [])] =>
    assert (X : let acc := fold_left f l (with_hs s h1, se0, []) in
                NSIx (FreshNs (map (fun x => snd (pkt_nonce (snd x))) (snd acc)) (fst (fst acc))) Z (fst (fst acc))) end.
  { apply (fold_left_inv (fun acc : st * session * list (nonce * packet) =>
             NSIx (FreshNs (map (fun x => snd (pkt_nonce (snd x))) (snd acc)) (fst (fst acc))) Z (fst (fst acc)))).
    - intros [[s' se'] pk] r _ Ha. cbn [fst snd] in Ha. unfold encrypt_message.
      pose proof (fun q d' => NSI_pop_res Z s' _ q d' Ha) as P.
      destruct (pop_pk (dr s')) as [[[[x1 rr] aad] x4] d']. specialize (P _ _ eq_refl).
      cbn [fst snd] in *. rewrite map_app. cbn [map snd pkt_nonce]. exact P.
    - cbn [fst snd map]. destruct H0 as [H0|[H0 _]]; [left; exact H0|right]. split; [exact H0|].
      split; [constructor|intros r []]. }
  match goal with |- context [fold_left ?f ?l (with_hs s h1, se0, [])] =>
    destruct (fold_left f l (with_hs s h1, se0, [])) as [[s2 se2] pkts] end.
  cbn [fst snd] in X.
  assert (Y : forall pkts s0, NSIx (FreshNs (map (fun x => snd (pkt_nonce (snd x))) pkts) s0) Z s0 ->
    NSI Z (fold_left (fun s x =>
      let s' := with_hs s (ar_update_packet c (hs s) (fst x) (snd x) now) in send s' na (snd x)) pkts s0)).
  { clear. induction pkts as [|x t IH]; intros s0 H0; cbn [fold_left map]; [eapply NSI_of_x; exact H0|].
    apply IH. cbn [map] in H0. apply (NSI_update_packet Z c s0 (fst x) (snd x) now) in H0.
    destruct H0 as [H0|[H0 H2]]; [left; exact H0|right]. split; [exact H0|]. exact H2. }
  apply Y. destruct X as [X|[X1 X2]]; [left; exact X|right]. split; [eapply Full_core; [|exact X1]; reflexivity|].
  eapply FreshNs_core; [|exact X2]. reflexivity.
Qed.

Lemma new_session_nsi : forall Z c s na se skip now, NSI Z s -> NSI Z (new_session c s na se skip now).
Proof.
  intros Z c s na se skip now H. unfold new_session.
  assert (H0 : NSI Z (remove_expired_sessions c s)).
  { eapply NSIx_core; [apply core_remove_expired_sessions|exact H]. }
  clear H. revert H0. generalize (remove_expired_sessions c s). clear s. intros s H.
  pose proof (core_sess_get c s na) as H1.
  destruct (sess_get c (hs s) na) as [h1 cur]. cbn [fst] in H1.
  assert (H2 : NSI Z (with_hs s h1)) by (eapply NSIx_core; eauto).
  destruct cur as [cs|].
  - match goal with |- context [replay_active_requests c ?s1 na skip now] =>
      assert (X : NSI Z (replay_active_requests c s1 na skip now)) end.
    { apply replay_active_requests_nsi. eapply NSIx_core; [|exact H2]. reflexivity. }
    destruct (fix_d2a c); [apply send_pending_requests_nsi|]; exact X.
  - apply send_pending_requests_nsi. eapply NSIx_core; [|exact H2]. reflexivity.
Qed.

Lemma get_some_kM : forall n na nm, nmap_get n nm = Some na -> 1 <= kM n nm.
Proof. intros n na nm H. pose proof (nmap_get_some_cM _ _ _ H). pose proof (cM_le_kM n na nm). lia. Qed.

Lemma handle_request_timeout_nsi : forall Z c s na r now,
  NSIx (kM (rc_nonce r) (nmap (hs s)) = 0) (snd (rc_nonce r) :: Z) s ->
  NSI Z (handle_request_timeout c s na r now).
Proof.
  intros Z c s na r now H. unfold handle_request_timeout.
  destruct (N.leb (cfg_retries c) (rc_retries r)).
  - apply fail_request_nsi. apply NSIx_remove_expected. eapply NSIx_weaken; [|eapply NSI_of_x; exact H].
    apply incl_tl, incl_refl.
  - match goal with |- NSI Z (with_hs ?s1 (ar_insert c (hs ?s1) na ?r' now)) =>
      apply (NSI_insert_inflight Z s1 c na r' now) end.
    exact H.
Qed.

Lemma send_response_nsi : forall Z c s na rid rb, NSI Z s -> NSI Z (send_response c s na rid rb).
Proof.
  intros Z c s na rid rb H. unfold send_response.
  pose proof (core_sess_get c s na) as H1.
  destruct (sess_get c (hs s) na) as [h1 se]. cbn [fst] in H1.
  assert (H2 : NSI Z (with_hs s h1)) by (eapply NSIx_core; eauto).
  destruct se as [se|]; [|exact H2].
  destruct (encrypt_message_nsi Z c (with_hs s h1) na se (MResp rid rb) H2) as [Y1 Y2].
  destruct (encrypt_message c (with_hs s h1) na se (MResp rid rb)) as [[s2 se'] p]. cbn [fst snd] in *.
  apply NSI_of_x in Y2. eapply NSIx_core; [|exact Y2]. reflexivity.
Qed.

Lemma send_challenge_nsi : forall Z c s na n known now, NSI Z s -> NSI Z (send_challenge c s na n known now).
Proof.
  intros Z c s na n known now H. unfold send_challenge.
  destruct (has_challenge (hs s) na); [exact H|].
  pose proof (NSI_pop Z s) as P. destruct (pop_pk (dr s)) as [[[[idn x2] cd] x4] d']. specialize (P _ _ H eq_refl).
  cbv zeta in P. apply (NSI_of_x (FreshN (snd (fst (fst (idn, x2, cd, x4)))) {| hs := hs s; dr := d'; outs := outs s |})) in P.
  eapply NSIx_core; [|exact P]. reflexivity.
Qed.

Lemma NSI_remove_request : forall Z s na rid h1 r,
  NSI Z s -> ar_remove_request (hs s) na rid = (h1, Some r) ->
  NSIx (kM (rc_nonce r) (nmap h1) = 0) (snd (rc_nonce r) :: Z) (with_hs s h1).
Proof.
  intros Z s na rid h1 r [H|[F _]] E; [left; exact H|right].
  destruct (Sync_remove_request _ _ _ _ _ (proj1 F) E) as (S1 & K & En & G).
  split; [|exact K]. apply Full_take; auto. eapply get_some_kM; eauto.
Qed.

Lemma handle_response_nsi : forall Z c s na rid rb now, NSI Z s -> NSI Z (handle_response c s na rid rb now).
Proof.
  intros Z c s na rid rb now H. unfold handle_response.
  destruct (ar_remove_request (hs s) na rid) as [h1 found] eqn:E.
  destruct found as [r|]; [|exact H].
  pose proof (NSI_remove_request Z s na rid h1 r H E) as H1.
  assert (R : forall rem ev, NSI Z (emit (with_hs (with_hs s h1)
             (ar_insert c (hs (with_hs s h1)) na
                {| rc_contact := rc_contact r; rc_pkt := rc_pkt r; rc_ext := rc_ext r; rc_rid := rc_rid r;
                   rc_body := rc_body r; rc_hs_sent := rc_hs_sent r; rc_retries := rc_retries r;
                   rc_remaining := rem; rc_init := rc_init r |} now)) ev)).
  { intros rem ev. apply NSIx_emit.
    match goal with |- context [ar_insert c (hs ?s1) na ?r' now] =>
      apply (NSI_insert_inflight Z s1 c na r' now) end. exact H1. }
  assert (F : forall ev, NSI Z (emit (remove_expected (with_hs s h1) (snd na)) ev)).
  { intros ev. apply NSIx_emit, NSIx_remove_expected. eapply NSIx_weaken; [|eapply NSI_of_x; exact H1].
    apply incl_tl, incl_refl. }
  cbv zeta. destruct rb as [total recs|tag]; [|apply F].
  destruct (N.ltb 1 total); [|apply F].
  destruct (rc_remaining r) as [rem|]; [|apply R].
  destruct (negb (N.eqb (rem - 1) 0)); [apply R|apply F].
Qed.

Lemma handle_message_nsi : forall Z c s na n aad ct now, NSI Z s -> NSI Z (handle_message c s na n aad ct now).
Proof.
  intros Z c s na n aad ct now H. unfold handle_message.
  pose proof (core_sess_get c s na) as H1.
  destruct (sess_get c (hs s) na) as [h1 se]. cbn [fst] in H1.
  destruct se as [se|]; [|apply NSIx_emit; eapply NSIx_core; eauto].
  destruct (decrypt_message se n aad ct) as [se' m].
  set (s2 := with_hs (with_hs s h1) (sess_put (hs (with_hs s h1)) na se')).
  assert (H2 : NSI Z s2).
  { subst s2. eapply NSIx_core; [|eapply NSIx_core; [exact H1|exact H]]. reflexivity. }
  clearbody s2.
  destruct m as [[rid body|rid rb|j]|].
  - apply NSIx_emit. exact H2.
  - assert (HR : NSI Z (handle_response c s2 na rid rb now)) by (apply handle_response_nsi; exact H2).
    destruct (s_await se') as [arid|]; [|exact HR].
    destruct (N.eqb rid arid); [|exact HR].
    match goal with |- context [fail_session c ?x na ERR_INVALID_REMOTE_ENR true] => set (s3 := x) end.
    assert (H3 : NSI Z s3).
    { subst s3.
      match goal with |- NSI Z (if fix_d2b c then ?a else ?b) => assert (H3 : NSI Z b) end.
      { eapply NSIx_core; [|exact H2]. reflexivity. }
      destruct (fix_d2b c); [|exact H3].
      match goal with |- context [ar_remove_request ?h na rid] =>
        destruct (ar_remove_request h na rid) as [h4 found] eqn:E end.
      destruct found as [r|]; [|exact H3].
      apply NSIx_remove_expected.
      match goal with H3 : NSI Z ?s3' |- _ => pose proof (NSI_remove_request Z s3' na rid h4 r H3 E) as X end.
      eapply NSIx_weaken; [|eapply NSI_of_x; exact X]. apply incl_tl, incl_refl. }
    clearbody s3.
    destruct rb as [total recs|tag]; [|apply fail_session_nsi; exact H3].
    destruct (rev recs) as [|e t]; [apply fail_session_nsi; exact H3|].
    destruct (verify_enr e na); [apply NSIx_emit; exact H3|]. apply fail_session_nsi, NSIx_emit. exact H3.
  - exact H2.
  - match goal with |- context [has_challenge (hs ?x) na] => assert (H3 : NSI Z x) end.
    { apply fail_session_nsi. exact H2. }
    destruct (has_challenge _ na); [|apply NSIx_emit]; exact H3.
Qed.

Lemma handle_auth_message_nsi : forall Z c s na n aad sg eph eph_ok rec ct now,
  NSI Z s -> NSI Z (handle_auth_message c s na n aad sg eph eph_ok rec ct now).
Proof.
  intros Z c s na n aad sg eph eph_ok rec ct now H. unfold handle_auth_message.
  destruct (chall_get na (challenges (hs s))) as [ch|]; [|exact H].
  assert (H1 : NSI Z (with_hs s (set_challenges (hs s) (chall_remove na (challenges (hs s)))))).
  { eapply NSIx_core; [|exact H]. reflexivity. }
  set (s1 := with_hs s (set_challenges (hs s) (chall_remove na (challenges (hs s))))) in *. clearbody s1.
  destruct (establish c (fst na) ch sg eph eph_ok rec) as [se e| |].
  - apply handle_message_nsi, new_session_nsi.
    destruct (verify_enr e na); apply NSIx_emit, NSIx_remove_expected; exact H1.
  - eapply NSIx_core; [|exact H1]. reflexivity.
  - apply fail_session_nsi. destruct (fix_d6 c); [apply NSIx_remove_expected|]; exact H1.
Qed.

Lemma NSI_remove_by_nonce : forall Z s n h1 found,
  NSI Z s -> ar_remove_by_nonce (hs s) n = (h1, found) ->
  match found with
  | Some (na, r) => NSIx (kM (rc_nonce r) (nmap h1) = 0) (snd (rc_nonce r) :: Z) (with_hs s h1)
  | None => NSI Z (with_hs s h1)
  end.
Proof.
  intros Z s n h1 found [H|[F _]] E.
  - destruct found as [[na r]|]; left; exact H.
  - pose proof (Sync_remove_by_nonce _ _ _ _ (proj1 F) E) as X. destruct found as [[na r]|].
    + destruct X as (G & Hn & S1 & K & En). subst n. right. split; [|exact K].
      apply Full_take; auto. eapply get_some_kM; eauto.
    + destruct X as [_ ->]. right. split; [|exact I]. eapply Full_core; [|exact F]. reflexivity.
Qed.

Lemma handle_challenge_nsi : forall Z c s src n seq cd now, NSI Z s -> NSI Z (handle_challenge c s src n seq cd now).
Proof.
  intros Z c s src n seq cd now H. unfold handle_challenge.
  destruct (nmap_get n (nmap (hs s))) as [na0|]; [|exact H].
  destruct (ar_remove_by_nonce (hs s) n) as [h1 found] eqn:E.
  pose proof (NSI_remove_by_nonce Z s n h1 found H E) as H1.
  destruct found as [[na r]|]; [|exact H1].
  assert (W : forall s', NSI (snd (rc_nonce r) :: Z) s' -> NSI Z s').
  { intros s'. apply NSIx_weaken. apply incl_tl, incl_refl. }
  destruct (negb (N.eqb (snd na) src)).
  { apply (NSI_insert_inflight Z (with_hs s h1) c na r now). exact H1. }
  destruct (rc_hs_sent r || c_ed (rc_contact r)).
  { apply fail_request_nsi. apply W. destruct (fix_d6 c); [apply NSIx_remove_expected|]; eapply NSI_of_x; exact H1. }
  pose proof (NSI_pop (snd (rc_nonce r) :: Z) (with_hs s h1)) as P.
  destruct (pop_pk (dr (with_hs s h1))) as [[[[cn rr] aad] eph] d']. specialize (P _ _ (NSI_of_x _ _ _ H1) eq_refl).
  cbv zeta in P. cbn [fst snd] in P.
  set (s2 := {| hs := hs (with_hs s h1); dr := d'; outs := outs (with_hs s h1) |}) in *.
  destruct (c_enr (rc_contact r)) as [e|].
  - apply new_session_nsi. apply NSIx_emit, NSIx_send. apply W.
    match goal with |- context [ar_insert c (hs s2) ?na' ?r' now] =>
      apply (NSI_insert_fresh _ s2 c na' r' now) end. exact P.
  - match goal with |- context [ar_insert c (hs s2) ?na' ?r' now] =>
      pose proof (NSI_insert_fresh _ s2 c na' r' now P) as H3;
      set (s3 := with_hs s2 (ar_insert c (hs s2) na' r' now)) in * end.
    apply W in H3.
    match goal with |- context [pop_rid (dr ?t4)] =>
      assert (H4 : NSI Z {| hs := hs t4; dr := snd (pop_rid (dr t4)); outs := outs t4 |});
      [|destruct (pop_rid (dr t4)) as [irid d''] ] end.
    { apply NSIx_send with (na := c_naddr (rc_contact r))
        (p := PHs (cfg_local c) (cn, rr) aad (Sig (cfg_local c) cd eph (c_id (rc_contact r))) eph true
          (if N.ltb seq (e_seq (cfg_enr c)) then Some (cfg_enr c) else None)
          (CEnc (mk_key eph (c_id (rc_contact r)) cd (cfg_local c) (c_id (rc_contact r)) false) (cn, rr)
             (MReq (rc_rid r) (rc_body r)) aad)) in H3.
      revert H3. unfold NSI, NSIx, U0, Full, FreshD, dsec, pop_rid. cbn [dr hs].
      destruct (d_rid (dr (send s3 _ _))); cbn [snd dr d_pk]; auto. }
    cbn [snd] in H4.
    match goal with |- context [send_request c ?t5 ?ct false irid 0%N now] =>
      pose proof (send_request_nsi Z c t5 ct false irid 0%N now H4) as X;
      destruct (send_request c t5 ct false irid 0%N now) as [s6 ok] end.
    cbn [fst] in X. apply new_session_nsi. exact X.
Qed.

(* ------------------------------------------------------------------------------------------ *)
(* timers *)

Lemma fail_session_dr_nm : forall c s na err rm,
  dr (fail_session c s na err rm) = dr s /\
  forall n1 na1, cM n1 na1 (nmap (hs (fail_session c s na err rm))) <= cM n1 na1 (nmap (hs s)).
Proof.
  intros c s na err rm. unfold fail_session.
  set (s1 := if rm then let s0 := remove_expired_sessions c s in with_hs s0 (sess_remove (hs s0) na) else s).
  assert (H1 : dr s1 = dr s /\ nmap (hs s1) = nmap (hs s)).
  { subst s1. destruct rm; [|split; reflexivity]. cbv zeta. cbn [with_hs dr hs sess_remove set_sessions nmap].
    split; [apply remove_expired_sessions_dr|apply remove_expired_sessions_frame]. }
  clearbody s1.
  set (s2 := match alist_get na (pending (hs s1)) with Some l => _ | None => s1 end).
  assert (H2 : dr s2 = dr s /\ nmap (hs s2) = nmap (hs s)).
  { subst s2. destruct (alist_get na (pending (hs s1))) as [l|]; [|exact H1].
    apply (fold_left_inv (fun s' => dr s' = dr s /\ nmap (hs s') = nmap (hs s))).
    - intros s' q _ Hs'. destruct (pq_ext q); exact Hs'.
    - exact H1. }
  clearbody s2. destruct H2 as [D2 N2].
  destruct (ar_remove_requests (hs s2) na) as [h3 reqs] eqn:E.
  assert (N3 : forall n1 na1, cM n1 na1 (nmap h3) <= cM n1 na1 (nmap (hs s))).
  { rewrite <- N2. unfold ar_remove_requests in E. destruct (alist_get na (active (hs s2))) as [l|]; injection E as <- <-; [|auto].
    cbn [set_active nmap]. generalize (nmap (hs s2)). induction l as [|r t IH]; intros nm n1 na1; cbn [fold_left]; [lia|].
    specialize (IH (nmap_remove (rc_nonce r) nm) n1 na1). pose proof (nmap_remove_cM_le (rc_nonce r) nm n1 na1). lia. }
  apply (fold_left_inv (fun s' => dr s' = dr s /\ forall n1 na1, cM n1 na1 (nmap (hs s')) <= cM n1 na1 (nmap (hs s)))).
  - intros s' r _ Hs'. destruct (rc_ext r); exact Hs'.
  - split; [exact D2|exact N3].
Qed.

Lemma handle_request_timeout_dr_nm : forall c s na r now,
  dr (handle_request_timeout c s na r now) = dr s /\
  forall n1 na1, cM n1 na1 (nmap (hs (handle_request_timeout c s na r now)))
                 <= cM n1 na1 (nmap (hs s)) + bn (nonce_eqb n1 (rc_nonce r) && naddr_eqb na1 na).
Proof.
  intros c s na r now. unfold handle_request_timeout, fail_request.
  destruct (N.leb (cfg_retries c) (rc_retries r)).
  - match goal with |- context [fail_session c ?s1 ?a ?e ?b] => destruct (fail_session_dr_nm c s1 a e b) as [D Nm] end.
    split.
    + rewrite D. destruct (rc_ext r); reflexivity.
    + intros n1 na1. specialize (Nm n1 na1).
      assert (X : nmap (hs (if rc_ext r then emit (remove_expected s (snd na)) (OEvent (HRequestFailed (rc_rid r) ERR_TIMEOUT))
                           else remove_expected s (snd na))) = nmap (hs s)) by (destruct (rc_ext r); reflexivity).
      rewrite X in Nm. lia.
  - split; [reflexivity|]. intros n1 na1. cbn [with_hs hs send emit]. unfold ar_insert. cbn [set_active nmap].
    unfold nmap_insert. rewrite cM_app. cbn [cM].
    change (rc_nonce {| rc_contact := rc_contact r; rc_pkt := rc_pkt r; rc_ext := rc_ext r; rc_rid := rc_rid r;
                        rc_body := rc_body r; rc_hs_sent := rc_hs_sent r; rc_retries := rc_retries r + 1;
                        rc_remaining := rc_remaining r; rc_init := rc_init r |}) with (rc_nonce r).
    pose proof (nmap_remove_cM_le (rc_nonce r) (nmap (hs s)) n1 na1). lia.
Qed.

Lemma fire_request_dr_nm : forall c s n na now,
  dr (fire_request c s n na now) = dr s /\
  forall n1 na1, 1 <= cM n1 na1 (nmap (hs (fire_request c s n na now))) ->
    1 <= cM n1 na1 (nmap (hs s)) \/ (n1 = n /\ na1 = na /\ 1 <= cA n na (active (hs s))).
Proof.
  intros c s n na now. unfold fire_request.
  assert (H0 : forall n1 na1, 1 <= cM n1 na1 (nmap_remove n (nmap (hs s))) -> 1 <= cM n1 na1 (nmap (hs s))).
  { intros n1 na1 H. pose proof (nmap_remove_cM_le n (nmap (hs s)) n1 na1). lia. }
  destruct (alist_get na (active (hs s))) as [l|] eqn:G; [|split; [reflexivity|intros n1 na1 H; left; apply H0, H]].
  destruct (remove_first (fun r => nonce_eqb (rc_nonce r) n) l) as [[r l']|] eqn:R;
    [|split; [reflexivity|intros n1 na1 H; left; apply H0, H]].
  match goal with |- context [handle_request_timeout c ?s1 na r now] =>
    destruct (handle_request_timeout_dr_nm c s1 na r now) as [D Nm] end.
  split; [rewrite D; reflexivity|]. intros n1 na1 H. specialize (Nm n1 na1). cbn [with_hs hs set_active nmap] in Nm.
  pose proof (remove_first_cntn n _ l r l' R) as C.
  pose proof (remove_first_spec _ _ _ _ R) as (Rn & _). apply nonce_eqb_spec in Rn.
  rewrite Rn, bn_eqb_refl_nonce in C.
  destruct (nonce_eqb n1 (rc_nonce r) && naddr_eqb na1 na) eqn:E; cbn [bn] in Nm.
  - apply andb_true_iff in E. destruct E as [E1 E2]. apply nonce_eqb_spec in E1. apply naddr_eqb_spec in E2.
    right. subst. repeat split; auto. unfold cA. rewrite G. lia.
  - left. apply H0. lia.
Qed.

Lemma fire_request_nsi : forall Z c s n na now,
  NSIx (forall na', nmap_get n (nmap (hs s)) = Some na' -> na' = na) Z s -> NSI Z (fire_request c s n na now).
Proof.
  intros Z c s n na now [H|[F P]].
  { left. unfold U0. rewrite (proj1 (fire_request_dr_nm c s n na now)). exact H. }
  unfold fire_request. destruct F as [S FD].
  destruct (nmap_get n (nmap (hs s))) as [na'|] eqn:G.
  - specialize (P na' eq_refl). subst na'.
    destruct (Sync_stored _ _ _ S G) as (l & r & l' & G1 & R & Hn). rewrite G1, R.
    apply handle_request_timeout_nsi. right. subst n.
    destruct (Sync_take _ _ _ _ _ _ S G1 R) as (S1 & K & _). split; [|exact K].
    apply (Full_take Z s _ (rc_nonce r) (conj S FD)); auto. eapply get_some_kM; eauto.
  - assert (X : NSI Z (with_hs s (set_active (hs s) (active (hs s)) (nmap_remove n (nmap (hs s)))))).
    { right. split; [|exact I]. eapply Full_core; [|exact (conj S FD)]. unfold core. cbn [with_hs hs set_active active nmap dr].
      rewrite nmap_remove_none by assumption. reflexivity. }
    destruct (alist_get na (active (hs s))) as [l|] eqn:G1; [|exact X].
    destruct (remove_first (fun r => nonce_eqb (rc_nonce r) n) l) as [[r l']|] eqn:R; [|exact X].
    exfalso. pose proof (remove_first_cntn n _ l r l' R) as C.
    pose proof (remove_first_spec _ _ _ _ R) as (Rn & _). rewrite Rn in C. cbn [bn] in C.
    destruct S as (_ & S & _). specialize (S n na). unfold cA in S. rewrite G1 in S.
    apply nmap_get_none_kM in G. pose proof (cM_le_kM n na (nmap (hs s))). lia.
Qed.

Lemma fire_challenge_nsi : forall Z c s na now, NSI Z s -> NSI Z (fire_challenge c s na now).
Proof.
  intros Z c s na now H. unfold fire_challenge. apply send_pending_requests_nsi, NSIx_remove_expected.
  eapply NSIx_core; [|exact H]. reflexivity.
Qed.

Lemma cM_two : forall n na na' nm, na <> na' -> cM n na nm + cM n na' nm <= kM n nm.
Proof.
  intros n na na' nm Hne. induction nm as [|[[n0 na0] d] t IH]; cbn [cM kM]; [lia|].
  destruct (nonce_eqb n n0); cbn [andb bn]; [|lia].
  destruct (naddr_eqb na na0) eqn:E1; destruct (naddr_eqb na' na0) eqn:E2; cbn [bn]; try lia.
  apply naddr_eqb_spec in E1. apply naddr_eqb_spec in E2. congruence.
Qed.

Lemma group_of_in : forall d nm n na, In (n, na) (group_of d nm) -> 1 <= cM n na nm.
Proof.
  intros d nm n na H. unfold group_of in H. apply in_map_iff in H. destruct H as ([[n0 na0] d0] & E & H).
  cbn [fst snd] in E. inversion E; subst. apply filter_In in H. destruct H as [H _].
  induction nm as [|[[n1 na1] d1] t IH]; [destruct H|]. cbn [cM]. destruct H as [H|H].
  - inversion H; subst. rewrite nonce_eqb_refl, naddr_eqb_refl. cbn. lia.
  - specialize (IH H). lia.
Qed.

(* the members of a group keep their node address while the group fires *)
Definition GroupOK (g : list (nonce * naddr)) (s : st) : Prop :=
  forall n na na', In (n, na) g -> 1 <= cM n na' (nmap (hs s)) -> na' = na.

Lemma fire_group_nsi : forall Z c g s d ft,
  NSIx (GroupOK g s) Z s -> NSI Z (fire_group c s g d ft).
Proof.
  intros Z c g s d ft H. unfold fire_group.
  assert (X : forall g' s', incl g' g -> NSIx (GroupOK g s') Z s' ->
     NSIx (GroupOK g (fold_left (fun s x =>
       match nmap_deadline (fst x) (nmap (hs s)) with
       | Some d' => if N.eqb d' d then fire_request c s (fst x) (snd x) ft else s
       | None => s
       end) g' s')) Z (fold_left (fun s x =>
       match nmap_deadline (fst x) (nmap (hs s)) with
       | Some d' => if N.eqb d' d then fire_request c s (fst x) (snd x) ft else s
       | None => s
       end) g' s')).
  { induction g' as [|x t IH]; intros s' Hin Hs'; cbn [fold_left]; [exact Hs'|].
    apply IH; [intros y Hy; apply Hin; right; exact Hy|].
    destruct (nmap_deadline (fst x) (nmap (hs s'))) as [d'|]; [|exact Hs'].
    destruct (N.eqb d' d); [|exact Hs'].
    destruct (fire_request_dr_nm c s' (fst x) (snd x) ft) as [D Nm].
    destruct Hs' as [Hs'|[F G]].
    { left. unfold U0. rewrite D. exact Hs'. }
    assert (Hx : In (fst x, snd x) g) by (destruct x; apply Hin; left; reflexivity).
    assert (Y : NSI Z (fire_request c s' (fst x) (snd x) ft)).
    { apply fire_request_nsi. right. split; [exact F|]. intros na' Gn. eapply G; [exact Hx|].
      apply nmap_get_some_cM. exact Gn. }
    destruct Y as [Y|[Y _]]; [left; exact Y|right]. split; [exact Y|].
    intros n na na' Hg Hc. apply Nm in Hc. destruct Hc as [Hc|(E1 & E2 & Hc)].
    - eapply G; eauto.
    - subst. destruct F as ((_ & S & _) & _). rewrite S in Hc.
      exact (G _ _ _ Hg Hc). }
  eapply NSI_of_x. apply X; [apply incl_refl|exact H].
Qed.

Lemma NSIx_drpk : forall P Z s s', active (hs s') = active (hs s) -> nmap (hs s') = nmap (hs s) ->
  d_pk (dr s') = d_pk (dr s) -> NSIx P Z s -> NSIx P Z s'.
Proof.
  intros P Z s s' E1 E2 E3. unfold NSIx, U0, Full, Sync, FreshD, dsec. rewrite E1, E2, E3. auto.
Qed.

Lemma GroupOK_init : forall d s, (forall n, kM n (nmap (hs s)) <= 1) -> GroupOK (group_of d (nmap (hs s))) s.
Proof.
  intros d s U n na na' Hg Hc. apply group_of_in in Hg.
  destruct (naddr_eqb na' na) eqn:E; [apply naddr_eqb_spec; exact E|]. apply naddr_eqb_neq in E.
  pose proof (cM_two n na' na (nmap (hs s)) E). specialize (U n). lia.
Qed.

Lemma fire_due_nsi : forall Z c now fuel s, NSI Z s -> NSI Z (fire_due c s now fuel).
Proof.
  intros Z c now. induction fuel as [|f IH]; intros s H; cbn [fire_due]; [exact H|].
  assert (FR : forall d, NSI Z (match group_of d (nmap (hs s)) with
      | _ :: _ :: _ =>
        let (rev_order, d') := pop_rev (dr s) in
        fire_group (with_clock c (fire_time c d now)) {| hs := hs s; dr := d'; outs := outs s |}
          (if rev_order then rev (group_of d (nmap (hs s))) else group_of d (nmap (hs s))) d (fire_time c d now)
      | _ => fire_group (with_clock c (fire_time c d now)) s (group_of d (nmap (hs s))) d (fire_time c d now)
      end)).
  { intros d.
    assert (G0 : NSIx (GroupOK (group_of d (nmap (hs s))) s) Z s).
    { destruct H as [H|[F _]]; [left; exact H|right]. split; [exact F|]. apply GroupOK_init. apply F. }
    destruct (group_of d (nmap (hs s))) as [|x [|y g]] eqn:EG; try (apply fire_group_nsi; exact G0).
    assert (X : d_pk (snd (pop_rev (dr s))) = d_pk (dr s)).
    { unfold pop_rev. destruct (d_rev (dr s)); reflexivity. }
    destruct (pop_rev (dr s)) as [ro d']. cbn [snd] in X. apply fire_group_nsi.
    assert (G1 : NSIx (GroupOK (x :: y :: g) s) Z {| hs := hs s; dr := d'; outs := outs s |}).
    { eapply NSIx_drpk; [| | |exact G0]; auto. }
    destruct G1 as [G1|[G1 G2]]; [left; exact G1|right]. split; [exact G1|].
    destruct ro; [|exact G2]. intros n na na' Hg. apply in_rev in Hg. apply G2. exact Hg. }
  assert (FC : forall cna cd, NSI Z (fire_challenge (with_clock c (fire_time c cd now)) s cna (fire_time c cd now))).
  { intros. apply fire_challenge_nsi. exact H. }
  destruct (min_deadline_nmap (nmap (hs s)) None) as [[[rn ra] rd]|];
  destruct (min_deadline_ch (challenges (hs s)) None) as [[[cna cc] cd]|].
  - destruct (N.ltb rd now && (negb (N.ltb cd now) || N.leb rd cd)); [apply IH; apply FR|].
    destruct (N.ltb cd now); [apply IH; apply FC|exact H].
  - destruct (N.ltb rd now); [apply IH; apply FR|exact H].
  - destruct (N.ltb cd now); [apply IH; apply FC|exact H].
  - exact H.
Qed.

Lemma step_event_nsi : forall Z c s0 e now, NSI Z s0 -> NSI Z (step_event c s0 e now).
Proof.
  intros Z c s0 e now H. destruct e as [ct rid body|na rid rb|na n known|from p|]; cbn [step_event].
  - pose proof (send_request_nsi Z c s0 ct true rid body now H) as X.
    destruct (send_request c s0 ct true rid body now) as [s1 ok]. cbn [fst] in X. destruct ok; [|apply NSIx_emit]; exact X.
  - apply send_response_nsi. exact H.
  - apply send_challenge_nsi. exact H.
  - destruct p.
    + apply handle_message_nsi. exact H.
    + apply handle_challenge_nsi. exact H.
    + apply handle_auth_message_nsi. exact H.
  - exact H.
Qed.

(* ------------------------------------------------------------------------------------------ *)
(* the step and runs *)

(* the state of the step monad at the end of a step (it still holds the unused draws) *)
Definition step_st (c : config) (h : hstate) (e : event) (now : N) (d : draws) : st :=
  step_event (with_clock c now) (fire_due (with_clock c now) {| hs := h; dr := d; outs := [] |} now TICK_FUEL) e now.

Lemma step_st_hs : forall c h e now d, fst (step c h e now d) = hs (step_st c h e now d).
Proof. intros. rewrite step_unfold. reflexivity. Qed.

(* FRESHNESS hypothesis on the oracle: the second components of the nonces still to be drawn are
   pairwise distinct and differ from those of all nonces in the nonce map ... *)
Definition fresh_draws (h : hstate) (d : draws) : Prop :=
  NoDup (dsec d) /\ forall x, In x (dsec d) -> ~ In x (nsec (nmap h)).
(* ... and the list handed to the step was not exhausted (pop_pk on an exhausted list returns
   zeros): it holds at least one quadruple more than the step consumed *)
Definition not_exhausted (c : config) (h : hstate) (e : event) (now : N) (d : draws) : Prop :=
  d_pk (dr (step_st c h e now d)) <> [].

Theorem step_sync : forall c h e now d,
  Sync h -> fresh_draws h d -> not_exhausted c h e now d -> Sync (fst (step c h e now d)).
Proof.
  intros c h e now d S [F1 F2] NE. rewrite step_st_hs. unfold not_exhausted in NE.
  assert (H0 : NSI [] {| hs := h; dr := d; outs := [] |}).
  { right. split; [|exact I]. split; [exact S|]. split; [exact F1|]. cbn [hs dr]. intros x Hx. split; [intros []|auto]. }
  pose proof (step_event_nsi [] (with_clock c now) _ e now (fire_due_nsi [] (with_clock c now) now TICK_FUEL _ H0)) as X.
  fold (step_st c h e now d) in X. destruct X as [X|[[X _] _]]; [contradiction|exact X].
Qed.

Fixpoint fresh_run (c : config) (h : hstate) (evs : list (event * N * draws)) : Prop :=
  match evs with
  | [] => True
  | (e, now, d) :: rest =>
    fresh_draws h d /\ not_exhausted c h e now d /\ fresh_run c (fst (step c h e now d)) rest
  end.

Lemma run_sync : forall c evs h, Sync h -> fresh_run c h evs -> Sync (fst (run c h evs)).
Proof.
  intros c. induction evs as [|[[e now] d] rest IH]; intros h S F; [exact S|].
  cbn [fresh_run] in F. destruct F as (F1 & F2 & F3).
  pose proof (step_sync c h e now d S F1 F2) as X. cbn [run].
  destruct (step c h e now d) as [h1 o]. cbn [fst] in *. specialize (IH h1 X F3).
  destruct (run c h1 rest) as [h2 os]. exact IH.
Qed.

Lemma Sync_init : Sync init_state.
Proof. split; [constructor|split; [reflexivity|intros n; cbn; lia]]. Qed.

(* ------------------------------------------------------------------------------------------ *)
(* the invariant in terms of the entries of the two maps *)

Lemma alist_in_get : forall {A} (l : list (naddr * A)) k v, NoDup (map fst l) -> In (k, v) l -> alist_get k l = Some v.
Proof.
  intros A. induction l as [|[k0 v0] t IH]; intros k v ND H; [destruct H|]. cbn [alist_get].
  cbn [map fst] in ND. inversion ND; subst. destruct H as [H|H].
  - inversion H; subst. rewrite naddr_eqb_refl. reflexivity.
  - destruct (naddr_eqb k k0) eqn:E.
    + apply naddr_eqb_spec in E. subst k0. exfalso. apply H2. apply (in_map fst) in H. exact H.
    + apply IH; assumption.
Qed.

Lemma cM_in : forall n na d nm, In (n, na, d) nm -> 1 <= cM n na nm.
Proof.
  induction nm as [|[[n1 na1] d1] t IH]; intros H; [destruct H|]. cbn [cM]. destruct H as [H|H].
  - inversion H; subst. rewrite nonce_eqb_refl, naddr_eqb_refl. cbn. lia.
  - specialize (IH H). lia.
Qed.

Lemma cntn_in : forall n l r, In r l -> rc_nonce r = n -> 1 <= cntn n l.
Proof.
  induction l as [|a t IH]; intros r H E; [destruct H|]. cbn [cntn]. destruct H as [H|H].
  - subst a. rewrite E, nonce_eqb_refl. cbn. lia.
  - specialize (IH r H E). lia.
Qed.

Lemma cntn_nodup : forall l, (forall n, cntn n l <= 1) -> NoDup (map rc_nonce l).
Proof.
  induction l as [|a t IH]; intros H; cbn [map]; constructor.
  - intros Hin. apply in_map_iff in Hin. destruct Hin as (r & E & Hr).
    pose proof (cntn_in (rc_nonce a) t r Hr E). specialize (H (rc_nonce a)). cbn [cntn] in H.
    rewrite nonce_eqb_refl in H. cbn [bn] in H. lia.
  - apply IH. intros n. specialize (H n). cbn [cntn] in H. lia.
Qed.

(* NonceSync: the readable form *)
Definition NonceSync (h : hstate) : Prop :=
  (* every entry of the nonce map has its request *)
  (forall n na d, In (n, na, d) (nmap h) ->
     exists l r, alist_get na (active h) = Some l /\ In r l /\ rc_nonce r = n) /\
  (* every stored request's nonce maps to the address it is stored under *)
  (forall na l r, In (na, l) (active h) -> In r l -> nmap_get (rc_nonce r) (nmap h) = Some na) /\
  (* nonces of stored requests are pairwise distinct: within a list, and (by the line above)
     requests under different addresses have different nonces *)
  (forall na l, In (na, l) (active h) -> NoDup (map rc_nonce l)) /\
  NoDup (map fst (active h)).

Theorem Sync_NonceSync : forall h, Sync h -> NonceSync h.
Proof.
  intros h (K & S & U). split; [|split; [|split; [|exact K]]].
  - intros n na d Hin. pose proof (cM_in _ _ _ _ Hin) as C.
    pose proof (cM_uniq_get _ _ _ (U n) C) as G.
    destruct (Sync_stored h n na (conj K (conj S U)) G) as (l & r & l' & G1 & R & Hn).
    exists l, r. split; [exact G1|]. split; [|exact Hn]. apply remove_first_spec in R. tauto.
  - intros na l r Hin Hr. pose proof (alist_in_get _ _ _ K Hin) as G.
    apply cM_uniq_get; [apply U|]. rewrite <- S. unfold cA. rewrite G. eapply cntn_in; eauto.
  - intros na l Hin. pose proof (alist_in_get _ _ _ K Hin) as G. apply cntn_nodup. intros n.
    specialize (S n na). unfold cA in S. rewrite G in S. pose proof (cM_le_kM n na (nmap h)). specialize (U n). lia.
Qed.

Theorem maps_in_sync : forall c evs, fresh_run c init_state evs -> NonceSync (fst (run c init_state evs)).
Proof. intros c evs F. apply Sync_NonceSync. apply run_sync; [exact Sync_init|exact F]. Qed.

(* ------------------------------------------------------------------------------------------ *)
(* the freshness hypothesis is satisfiable: a run with a handshake, a re-keyed request, a two-packet
   NODES answer and a timeout, two quadruples per step *)
Local Open Scope N_scope.
Definition ex_draws2 (x : N) : draws :=
  {| d_pk := [(x, x + 1, x + 2, x + 3); (x + 4, x + 5, x + 6, x + 7)]; d_rid := []; d_rev := [] |}.
Definition ex_sync_events : list (event * N * draws) :=
  [ (EvRequest ex_peer 100 7, 0, ex_draws2 50);
    (EvInbound 20 (PWho (50, 51) 1 0 9), 10, ex_draws2 60);
    (EvRequest ex_peer 101 8, 40, ex_draws2 90);
    (EvWhoAreYou (3, 30) (5, 5) None, 50, ex_draws2 100);
    (EvTick, 5000, ex_draws2 110) ].

Example ex_sync_fresh : fresh_run (ex_cfg true) init_state ex_sync_events.
Proof.
  vm_compute.
  repeat match goal with
  | |- _ /\ _ => split
  | |- NoDup _ => constructor
  | |- ~ _ => intro
  | |- forall _, _ => intro
  | H : _ \/ _ |- _ => destruct H
  | H : False |- _ => destruct H
  | H : In _ (_ :: _) |- _ => cbn [In] in H
  | H : In _ [] |- _ => destruct H
  | H : _ :: _ = [] |- _ => discriminate H
  | |- True => exact I
  end; try discriminate; subst; try discriminate.
Qed.

Example ex_sync_state :
  let h := fst (run (ex_cfg true) init_state ex_sync_events) in
  map (fun e => fst (fst e)) (nmap h) = [(60, 61); (1, 91)] /\
  map (fun e => map rc_nonce (snd e)) (active h) = [[(60, 61); (1, 91)]].
Proof. vm_compute. split; reflexivity. Qed.
