(* Proofs about Model/Admission.v (property C12). *)
From Coq Require Import List Arith NArith Bool Lia.
From Discv5V Require Import Generated.Params Lib.ListX Model.KBucket Model.Nodes Model.Admission
  Proofs.KBMembers.
Import ListNotations.
Local Open Scope N_scope.

Lemma tmem_new_table loc : tmem (new_table loc) = [].
Proof.
  unfold tmem, new_table. cbn [buckets]. generalize NB. intros n.
  induction n as [|n IH]; simpl; [reflexivity|exact IH].
Qed.

Lemma get_some k l n : get k l = Some n -> In n l /\ nkey n = k.
Proof.
  unfold get. intros H. apply find_some in H. destruct H as (H1 & H2). split; [exact H1|now apply N.eqb_eq].
Qed.

Lemma stored_in t k b v : stored t k = Some (b, v) -> In (k, v) (tmem t).
Proof.
  unfold stored. destruct (bucket_index (local t) k) as [i|]; [|discriminate].
  destruct (get k (nodes (get_bucket t i))) as [n|] eqn:Eg.
  - intros H. inversion H; subst. apply get_some in Eg. destruct Eg as (Hin & <-).
    apply (get_bucket_mem t i). apply (bmem_node _ n Hin).
  - destruct (pend (get_bucket t i)) as [p|] eqn:Ep; [|discriminate].
    destruct (nkey (pn p) =? k) eqn:Ek; [|discriminate]. apply N.eqb_eq in Ek.
    intros H. inversion H; subst. apply (get_bucket_mem t i). apply (bmem_pend _ p Ep).
Qed.

Lemma t_entry_look_mem c t k now x : In x (tmem (fst (t_entry c t k ALook now))) -> In x (tmem t).
Proof. intros H. apply t_entry_mem in H. destruct H as [H|(v & cn & ic & Ha & _)]; [exact H|discriminate]. Qed.

Lemma t_entry_remove_mem c t k now x : In x (tmem (fst (t_entry c t k ARemove now))) -> In x (tmem t).
Proof. intros H. apply t_entry_mem in H. destruct H as [H|(v & cn & ic & Ha & _)]; [exact H|discriminate]. Qed.

Section AdmissionProofs.
  Variable rec_of : N -> enr.
  Variable tf : enr -> bool.
  Variable mode : ip_mode.
  Variable fx : fixes.
  Variable c : config.

  Notation established := (established tf mode fx c).
  Notation discovered_one := (discovered_one rec_of tf mode c).
  Notation discovered := (discovered rec_of tf mode c).
  Notation pong := (pong rec_of mode c).
  Notation ping_request := (ping_request rec_of c).
  Notation add_enr := (add_enr tf mode c).
  Notation astep := (astep rec_of tf mode fx c).
  Notation arun := (arun rec_of tf mode fx c).

  (* the record behind a table value *)
  Definition entry_rec (x : N * val) : enr := rec_of (vid (snd x)).

  (* what the property demands of every entry: stored under its record's node id, contactable in
     the node's IP mode, accepted by the configured table filter, not the local node *)
  Definition admissible (loc : N) (x : N * val) : Prop :=
    e_id (entry_rec x) = fst x /\ contactable mode (entry_rec x) = true /\
    tf (entry_rec x) = true /\ fst x <> loc.

  Definition Adm (t : table) : Prop := forall x, In x (tmem t) -> admissible (local t) x.

  (* the interning environment gives back the records the operations carry *)
  Definition interned (e : enr) : Prop := rec_of (e_vid e) = e.
  Definition op_interned (o : aop) : Prop :=
    match o with
    | AEstablished e _ => interned e
    | ADiscovered _ l => Forall interned l
    | AAddEnr e => interned e
    | _ => True
    end.

  Lemma admissible_new e loc :
    interned e -> contactable mode e = true -> tf e = true -> e_id e <> loc ->
    admissible loc (e_id e, to_val e).
  Proof.
    intros Hi Hc Hf Hl. unfold admissible, entry_rec. cbn [snd fst to_val vid]. rewrite Hi. auto.
  Qed.

  (* ---------------------------------------------------------------------------------------- *)
  (* membership of every operation *)

  Lemma established_mem t e inc now x :
    In x (tmem (fst (established t e inc now))) ->
    In x (tmem t) \/ (x = (e_id e, to_val e) /\ e_id e <> local t /\
                      contactable mode e = true /\ (fix_d5 fx = true -> tf e = true)).
  Proof.
    unfold Admission.established.
    destruct (contactable mode e) eqn:Ec; cbn [negb]; [|auto].
    destruct (fix_d5 fx && negb (tf e)) eqn:Ef; [auto|].
    match goal with |- context [t_insert_or_update c t ?k ?v true ?d now] => set (dir := d) end.
    destruct (t_insert_or_update c t (e_id e) (to_val e) true dir now) as [t1 r] eqn:Ei.
    cbn [fst]. intros H.
    assert (H1 : In x (tmem t1)).
    { destruct r; try exact H. now apply t_entry_look_mem in H. }
    replace t1 with (fst (t_insert_or_update c t (e_id e) (to_val e) true dir now)) in H1 by now rewrite Ei.
    apply t_insert_or_update_mem in H1. destruct H1 as [H1|(-> & Hne)]; [now left|right].
    repeat split; auto. intros H5. rewrite H5 in Ef. cbn in Ef. now apply negb_false_iff in Ef.
  Qed.

  Lemma established_local t e inc now : local (fst (established t e inc now)) = local t.
  Proof.
    unfold Admission.established.
    destruct (negb (contactable mode e)); [reflexivity|].
    destruct (fix_d5 fx && negb (tf e)); [reflexivity|].
    match goal with |- context [t_insert_or_update c t ?k ?v true ?d now] => set (dir := d) end.
    pose proof (t_insert_or_update_local c t (e_id e) (to_val e) true dir now) as Hl.
    destruct (t_insert_or_update c t (e_id e) (to_val e) true dir now) as [t1 r]. cbn [fst] in *.
    destruct r; try exact Hl. now rewrite t_entry_local.
  Qed.

  (* discovered(): a record replaces a stored one only under the listed conditions, and never
     under a key that is not already in the table *)
  Lemma discovered_one_mem t src e now x :
    In x (tmem (fst (discovered_one t src e now))) ->
    In x (tmem t) \/
    (x = (e_id e, to_val e) /\ e_id e <> local t /\ tf e = true /\ contactable mode e = true /\
     exists v0, In (e_id e, v0) (tmem t) /\ e_seq (rec_of (vid v0)) < e_seq e).
  Proof.
    unfold Admission.discovered_one.
    destruct (e_id e =? local t) eqn:El; [auto|]. apply N.eqb_neq in El.
    destruct (tf e && contactable mode e) eqn:Ecnd.
    - apply andb_prop in Ecnd. destruct Ecnd as (Hf & Hc).
      destruct (t_entry c t (e_id e) ALook now) as [t1 ko] eqn:E1.
      assert (Ht1 : forall y, In y (tmem t1) -> In y (tmem t)).
      { intros y Hy. replace t1 with (fst (t_entry c t (e_id e) ALook now)) in Hy by now rewrite E1.
        now apply t_entry_look_mem in Hy. }
      match goal with |- context [if ?m then _ else _] => destruct m eqn:Emust end.
      + destruct (t_update_node c t1 (e_id e) (to_val e) None now) as [t2 r] eqn:E2.
        assert (H2 : In x (tmem t2) -> In x (tmem t) \/
                  (x = (e_id e, to_val e) /\ e_id e <> local t /\ tf e = true /\ contactable mode e = true /\
                   exists v0, In (e_id e, v0) (tmem t) /\ e_seq (rec_of (vid v0)) < e_seq e)).
        { intros H. replace t2 with (fst (t_update_node c t1 (e_id e) (to_val e) None now)) in H by now rewrite E2.
          apply t_update_node_mem in H. destruct H as [H|(-> & _ & _)]; [left; auto|right].
          repeat split; auto.
          (* the stored version is older *)
          unfold stored_rec in Emust.
          destruct (stored t1 (e_id e)) as [[b v0]|] eqn:Est.
          - exists v0. split; [apply Ht1; eapply stored_in; eauto|].
            destruct (fst ko); try discriminate; now apply N.ltb_lt in Emust.
          - destruct (fst ko); discriminate. }
        destruct r; cbn [fst]; exact H2.
      + cbn [fst]. intros H. left. auto.
    - destruct (t_entry c t (e_id e) ALook now) as [t1 ko] eqn:E1.
      assert (Ht1 : forall y, In y (tmem t1) -> In y (tmem t)).
      { intros y Hy. replace t1 with (fst (t_entry c t (e_id e) ALook now)) in Hy by now rewrite E1.
        now apply t_entry_look_mem in Hy. }
      assert (Hrem : In x (tmem (fst (t_entry c t1 (e_id e) ARemove now))) -> In x (tmem t)).
      { intros H. apply t_entry_remove_mem in H. auto. }
      destruct (fst ko); try solve [cbn [fst]; intros H; left; auto];
        (match goal with |- context [if ?m then _ else _] => destruct m end;
         cbn [fst]; intros H; left; auto).
  Qed.

  Lemma discovered_one_local t src e now : local (fst (discovered_one t src e now)) = local t.
  Proof.
    unfold Admission.discovered_one.
    destruct (e_id e =? local t); [reflexivity|].
    destruct (tf e && contactable mode e).
    - pose proof (t_entry_local c t (e_id e) ALook now) as H1.
      destruct (t_entry c t (e_id e) ALook now) as [t1 ko]. cbn [fst] in H1.
      match goal with |- context [if ?m then _ else _] => destruct m end; [|exact H1].
      pose proof (t_update_node_local c t1 (e_id e) (to_val e) None now) as H2.
      destruct (t_update_node c t1 (e_id e) (to_val e) None now) as [t2 r]. cbn [fst] in H2.
      destruct r; cbn [fst]; congruence.
    - pose proof (t_entry_local c t (e_id e) ALook now) as H1.
      destruct (t_entry c t (e_id e) ALook now) as [t1 ko]. cbn [fst] in H1.
      destruct (fst ko); try exact H1;
        (match goal with |- context [if ?m then _ else _] => destruct m end; cbn [fst];
         [rewrite t_entry_local|]; exact H1).
  Qed.

  Lemma pong_mem t id s now x : In x (tmem (fst (pong t id s now))) -> In x (tmem t).
  Proof.
    unfold Admission.pong.
    destruct (t_entry c t id ALook now) as [t1 ko] eqn:E1.
    assert (Ht1 : forall y, In y (tmem t1) -> In y (tmem t)).
    { intros y Hy. replace t1 with (fst (t_entry c t id ALook now)) in Hy by now rewrite E1.
      now apply t_entry_look_mem in Hy. }
    destruct (fst ko); try (cbn [fst]; auto).
    destruct (stored_rec rec_of t1 id) as [e|]; [|cbn [fst]; auto].
    destruct (contactable mode e); cbn [fst]; [|auto].
    intros H. apply t_update_node_status_mem in H. auto.
  Qed.

  Lemma pong_local t id s now : local (fst (pong t id s now)) = local t.
  Proof.
    unfold Admission.pong.
    pose proof (t_entry_local c t id ALook now) as H1.
    destruct (t_entry c t id ALook now) as [t1 ko]. cbn [fst] in H1.
    destruct (fst ko); try exact H1.
    destruct (stored_rec rec_of t1 id) as [e|]; [|exact H1].
    destruct (contactable mode e); cbn [fst]; [|exact H1].
    now rewrite t_update_node_status_local.
  Qed.

  Lemma ping_request_mem t id s now x : In x (tmem (fst (ping_request t id s now))) -> In x (tmem t).
  Proof.
    unfold Admission.ping_request.
    destruct (t_entry c t id ALook now) as [t1 ko] eqn:E1.
    assert (Ht1 : forall y, In y (tmem t1) -> In y (tmem t)).
    { intros y Hy. replace t1 with (fst (t_entry c t id ALook now)) in Hy by now rewrite E1.
      now apply t_entry_look_mem in Hy. }
    destruct (fst ko); try (cbn [fst]; auto);
      destruct (stored_rec rec_of t1 id); cbn [fst]; auto.
  Qed.

  Lemma ping_request_local t id s now : local (fst (ping_request t id s now)) = local t.
  Proof.
    unfold Admission.ping_request.
    pose proof (t_entry_local c t id ALook now) as H1.
    destruct (t_entry c t id ALook now) as [t1 ko]. cbn [fst] in H1.
    destruct (fst ko); try exact H1; destruct (stored_rec rec_of t1 id); exact H1.
  Qed.

  Lemma add_enr_mem t e now x :
    In x (tmem (fst (add_enr t e now))) ->
    In x (tmem t) \/ (x = (e_id e, to_val e) /\ e_id e <> local t /\
                      contactable mode e = true /\ tf e = true).
  Proof.
    unfold Admission.add_enr.
    destruct (contactable mode e) eqn:Ec; cbn [negb]; [|auto].
    destruct (tf e) eqn:Ef; cbn [negb]; [|auto].
    destruct (t_insert_or_update c t (e_id e) (to_val e) false true now) as [t1 r] eqn:Ei. cbn [fst].
    intros H. replace t1 with (fst (t_insert_or_update c t (e_id e) (to_val e) false true now)) in H by now rewrite Ei.
    apply t_insert_or_update_mem in H. destruct H as [H|(-> & Hne)]; auto.
  Qed.

  Lemma add_enr_local t e now : local (fst (add_enr t e now)) = local t.
  Proof.
    unfold Admission.add_enr.
    destruct (negb (contactable mode e)); [reflexivity|]. destruct (negb (tf e)); [reflexivity|].
    pose proof (t_insert_or_update_local c t (e_id e) (to_val e) false true now) as H.
    destruct (t_insert_or_update c t (e_id e) (to_val e) false true now). exact H.
  Qed.

  (* ---------------------------------------------------------------------------------------- *)
  (* the invariant *)

  Lemma discovered_adm l : forall t src now,
    Forall interned l -> Adm t ->
    Adm (fst (discovered t src l now)) /\ local (fst (discovered t src l now)) = local t.
  Proof.
    induction l as [|e l IH]; intros t src now Hint Hadm; cbn [Admission.discovered]; [auto|].
    inversion Hint as [|? ? He Hl]; subst.
    pose proof (discovered_one_local t src e now) as Hloc1.
    assert (Hadm1 : Adm (fst (discovered_one t src e now))).
    { intros x Hx. rewrite Hloc1. apply discovered_one_mem in Hx.
      destruct Hx as [Hx|(-> & Hne & Hf & Hc & _)]; [auto|]. now apply admissible_new. }
    destruct (discovered_one t src e now) as [t1 keep]. cbn [fst] in *.
    destruct (IH t1 src now Hl Hadm1) as (H1 & H2).
    destruct (discovered t1 src l now) as [t2 kept]. cbn [fst] in *. split; [exact H1|congruence].
  Qed.

  Lemma astep_local t o now : local (fst (astep t o now)) = local t.
  Proof.
    destruct o; cbn [Admission.astep].
    - pose proof (established_local t e incoming now). destruct (established t e incoming now). assumption.
    - assert (H : forall l t, local (fst (discovered t src l now)) = local t).
      { induction l0 as [|e l0 IH]; intros t0; cbn [Admission.discovered]; [reflexivity|].
        pose proof (discovered_one_local t0 src e now) as H1.
        destruct (discovered_one t0 src e now) as [t1 keep]. specialize (IH t1).
        destruct (discovered t1 src l0 now). cbn [fst] in *. congruence. }
      specialize (H l t). destruct (discovered t src l now). assumption.
    - pose proof (pong_local t id enr_seq now). destruct (pong t id enr_seq now). assumption.
    - pose proof (ping_request_local t id enr_seq now). destruct (ping_request t id enr_seq now). assumption.
    - unfold failure. pose proof (t_update_node_status_local c t id false None now).
      destruct (t_update_node_status c t id false None now). assumption.
    - pose proof (add_enr_local t e now). destruct (add_enr t e now). assumption.
    - unfold unverifiable. pose proof (t_remove_local c t id now). destruct (t_remove c t id now). assumption.
    - unfold disconnect_node. pose proof (t_update_node_status_local c t id false None now).
      destruct (t_update_node_status c t id false None now). assumption.
  Qed.

  Lemma astep_adm t o now :
    fix_d5 fx = true -> op_interned o -> Adm t -> Adm (fst (astep t o now)).
  Proof.
    intros H5 Hint Hadm x Hx. rewrite astep_local.
    destruct o; cbn [Admission.astep op_interned] in *.
    - destruct (established t e incoming now) as [t' r] eqn:E. cbn [fst] in Hx.
      replace t' with (fst (established t e incoming now)) in Hx by now rewrite E.
      apply established_mem in Hx. destruct Hx as [Hx|(-> & Hne & Hc & Hf)]; [auto|].
      apply admissible_new; auto.
    - destruct (discovered_adm l t src now Hint Hadm) as (H1 & H2).
      destruct (discovered t src l now) as [t' k]. cbn [fst] in *. rewrite <- H2. auto.
    - destruct (pong t id enr_seq now) as [t' b] eqn:E. cbn [fst] in Hx.
      replace t' with (fst (pong t id enr_seq now)) in Hx by now rewrite E.
      apply pong_mem in Hx. auto.
    - destruct (ping_request t id enr_seq now) as [t' b] eqn:E. cbn [fst] in Hx.
      replace t' with (fst (ping_request t id enr_seq now)) in Hx by now rewrite E.
      apply ping_request_mem in Hx. auto.
    - unfold failure in Hx. destruct (t_update_node_status c t id false None now) as [t' r] eqn:E.
      cbn [fst] in Hx. replace t' with (fst (t_update_node_status c t id false None now)) in Hx by now rewrite E.
      apply t_update_node_status_mem in Hx. auto.
    - destruct (add_enr t e now) as [t' r] eqn:E. cbn [fst] in Hx.
      replace t' with (fst (add_enr t e now)) in Hx by now rewrite E.
      apply add_enr_mem in Hx. destruct Hx as [Hx|(-> & Hne & Hc & Hf)]; [auto|].
      apply admissible_new; auto.
    - unfold unverifiable in Hx. destruct (t_remove c t id now) as [t' r] eqn:E. cbn [fst] in Hx.
      replace t' with (fst (t_remove c t id now)) in Hx by now rewrite E.
      apply t_remove_mem in Hx. auto.
    - unfold disconnect_node in Hx. destruct (t_update_node_status c t id false None now) as [t' r] eqn:E.
      cbn [fst] in Hx. replace t' with (fst (t_update_node_status c t id false None now)) in Hx by now rewrite E.
      apply t_update_node_status_mem in Hx. auto.
  Qed.

  Lemma arun_adm ops : forall t,
    fix_d5 fx = true -> Forall (fun on => op_interned (fst on)) ops -> Adm t -> Adm (arun t ops).
  Proof.
    induction ops as [|[o now] ops IH]; intros t H5 Hint Hadm; cbn [Admission.arun]; [exact Hadm|].
    inversion Hint; subst. apply IH; auto. apply astep_adm; auto.
  Qed.

  (* every entry of every reachable table is admissible *)
  Lemma entries_admissible loc ops :
    fix_d5 fx = true -> Forall (fun on => op_interned (fst on)) ops ->
    forall x, In x (tmem (arun (new_table loc) ops)) ->
      admissible (local (arun (new_table loc) ops)) x.
  Proof.
    intros H5 Hint. apply arun_adm; auto. intros x Hx. rewrite tmem_new_table in Hx. destruct Hx.
  Qed.

  Lemma arun_local ops : forall t, local (arun t ops) = local t.
  Proof.
    induction ops as [|[o now] ops IH]; intros t; cbn [Admission.arun]; [reflexivity|].
    rewrite IH. apply astep_local.
  Qed.

  (* ---------------------------------------------------------------------------------------- *)
  (* origin of entries: a key enters the table only in a session report or an add by the user *)

  Lemma discovered_keys l : forall t src now k,
    In k (tkeys (fst (discovered t src l now))) -> In k (tkeys t).
  Proof.
    induction l as [|e l IH]; intros t src now k; cbn [Admission.discovered]; [auto|].
    destruct (discovered_one t src e now) as [t1 keep] eqn:E1.
    specialize (IH t1 src now k). destruct (discovered t1 src l now) as [t2 kept]. cbn [fst] in *.
    intros H. specialize (IH H). apply In_tkeys in IH. destruct IH as (v & Hv).
    replace t1 with (fst (discovered_one t src e now)) in Hv by now rewrite E1.
    apply discovered_one_mem in Hv. apply In_tkeys.
    destruct Hv as [Hv|(Heq & _ & _ & _ & v0 & Hv0 & _)]; [eauto|].
    inversion Heq; subst. eauto.
  Qed.

  Lemma entry_origin t o now k :
    In k (tkeys (fst (astep t o now))) ->
    In k (tkeys t) \/
    (exists e inc, o = AEstablished e inc /\ e_id e = k) \/ (exists e, o = AAddEnr e /\ e_id e = k).
  Proof.
    intros H. apply In_tkeys in H. destruct H as (v & Hv).
    destruct o; cbn [Admission.astep] in Hv.
    - destruct (established t e incoming now) as [t' r] eqn:E. cbn [fst] in Hv.
      replace t' with (fst (established t e incoming now)) in Hv by now rewrite E.
      apply established_mem in Hv. destruct Hv as [Hv|(Heq & _)].
      + left. apply In_tkeys. eauto.
      + inversion Heq; subst. right. left. eauto.
    - left. apply (discovered_keys l t src now). apply In_tkeys. exists v.
      destruct (discovered t src l now). exact Hv.
    - left. apply In_tkeys. exists v. destruct (pong t id enr_seq now) as [t' b] eqn:E. cbn [fst] in Hv.
      replace t' with (fst (pong t id enr_seq now)) in Hv by now rewrite E. now apply pong_mem in Hv.
    - left. apply In_tkeys. exists v. destruct (ping_request t id enr_seq now) as [t' b] eqn:E. cbn [fst] in Hv.
      replace t' with (fst (ping_request t id enr_seq now)) in Hv by now rewrite E. now apply ping_request_mem in Hv.
    - left. apply In_tkeys. exists v. unfold failure in Hv.
      destruct (t_update_node_status c t id false None now) as [t' r] eqn:E. cbn [fst] in Hv.
      replace t' with (fst (t_update_node_status c t id false None now)) in Hv by now rewrite E.
      now apply t_update_node_status_mem in Hv.
    - destruct (add_enr t e now) as [t' r] eqn:E. cbn [fst] in Hv.
      replace t' with (fst (add_enr t e now)) in Hv by now rewrite E.
      apply add_enr_mem in Hv. destruct Hv as [Hv|(Heq & _)].
      + left. apply In_tkeys. eauto.
      + inversion Heq; subst. right. right. eauto.
    - left. apply In_tkeys. exists v. unfold unverifiable in Hv.
      destruct (t_remove c t id now) as [t' r] eqn:E. cbn [fst] in Hv.
      replace t' with (fst (t_remove c t id now)) in Hv by now rewrite E. now apply t_remove_mem in Hv.
    - left. apply In_tkeys. exists v. unfold disconnect_node in Hv.
      destruct (t_update_node_status c t id false None now) as [t' r] eqn:E. cbn [fst] in Hv.
      replace t' with (fst (t_update_node_status c t id false None now)) in Hv by now rewrite E.
      now apply t_update_node_status_mem in Hv.
  Qed.

  (* ---------------------------------------------------------------------------------------- *)
  (* single-stack operation: an incoming session admits a node only under the address its packets
     came from *)

  Lemma session_report_new_key t e id a inc now k :
    In k (tkeys (Admission.session_report tf mode fx c t e id a inc now)) -> ~ In k (tkeys t) ->
    verify_enr e id a = true /\ k = e_id e /\ contactable mode e = true.
  Proof.
    unfold Admission.session_report. intros Hk Hnew.
    destruct (verify_enr e id a) eqn:Ev.
    - apply In_tkeys in Hk. destruct Hk as (v & Hv). apply established_mem in Hv.
      destruct Hv as [Hv|(Heq & _ & Hc & _)].
      + exfalso. apply Hnew. apply In_tkeys. eauto.
      + inversion Heq; subst. auto.
    - exfalso. apply Hnew. apply In_tkeys in Hk. destruct Hk as (v & Hv).
      unfold unverifiable in Hv. apply t_remove_mem in Hv. apply In_tkeys. eauto.
  Qed.
  (* ---------------------------------------------------------------------------------------- *)
  (* Service::find_enr (the answer to HandlerOut::WhoAreYou, the record a query's request is
     addressed with): the table is only looked at; the record handed out is a record of the node
     asked for; the table's record wins over whatever the running queries hold; a node known neither
     to the table nor to the queries gets no record *)

  Notation find_enr := (find_enr rec_of c).
  Notation present_rec := (present_rec rec_of).

  Lemma find_enr_mem t u id now x : In x (tmem (fst (find_enr t u id now))) -> In x (tmem t).
  Proof. unfold Admission.find_enr. cbn [fst]. apply t_entry_look_mem. Qed.

  Lemma find_enr_local t u id now : local (fst (find_enr t u id now)) = local t.
  Proof. unfold Admission.find_enr. cbn [fst]. apply t_entry_local. Qed.

  Lemma find_enr_adm t u id now : Adm t -> Adm (fst (find_enr t u id now)).
  Proof.
    intros H x Hx. rewrite find_enr_local. apply H. now apply find_enr_mem in Hx.
  Qed.

  (* the service never vouches for node [id] with the record of another node *)
  Lemma find_enr_id t u id now e :
    Adm t -> snd (find_enr t u id now) = Some e -> e_id e = id.
  Proof.
    intros Hadm. unfold Admission.find_enr. cbn [snd].
    set (t1 := fst (t_entry c t id ALook now)).
    unfold Admission.present_rec.
    destruct (stored t1 id) as [[b v]|] eqn:Es.
    - destruct b.
      + intros H. apply find_some in H. destruct H as (_ & H). now apply N.eqb_eq in H.
      + intros H. inversion H; subst e. apply stored_in in Es.
        apply t_entry_look_mem in Es. apply Hadm in Es. destruct Es as (Hid & _). exact Hid.
    - intros H. apply find_some in H. destruct H as (_ & H). now apply N.eqb_eq in H.
  Qed.

  (* a node that is an entry of the table is answered with the stored record, whatever (older, newer,
     forged) records of it the running queries hold *)
  Lemma find_enr_table_first t u id now e :
    present_rec (fst (t_entry c t id ALook now)) id = Some e ->
    snd (find_enr t u id now) = Some e.
  Proof. intros H. unfold Admission.find_enr. cbn [snd]. now rewrite H. Qed.

  Lemma find_enr_table_first_any_queries t u u' id now e :
    present_rec (fst (t_entry c t id ALook now)) id = Some e ->
    snd (find_enr t u id now) = snd (find_enr t u' id now).
  Proof. intros H. now rewrite (find_enr_table_first t u id now e H), (find_enr_table_first t u' id now e H). Qed.

  (* unknown to the table and to the queries: no record *)
  Lemma find_enr_unknown t u id now :
    present_rec (fst (t_entry c t id ALook now)) id = None ->
    (forall e, In e u -> e_id e <> id) ->
    snd (find_enr t u id now) = None.
  Proof.
    intros H Hu. unfold Admission.find_enr. cbn [snd]. rewrite H.
    destruct (find (fun e => e_id e =? id) u) as [e|] eqn:Ef; [|reflexivity].
    apply find_some in Ef. destruct Ef as (Hin & He). apply N.eqb_eq in He. now apply Hu in Hin.
  Qed.

  (* ---------------------------------------------------------------------------------------- *)
  (* the PONG arm with the records of the running queries in view ([pong_q]): whatever record find_enr
     comes up with - the stored one, or one that merely appeared in a NODES answer and sits in a query -
     a PONG writes no record into the table: every (key, record) pair of the table afterwards - entries
     and the candidates in the pending slots - was there before; no key is added *)

  Notation pong_q := (pong_q rec_of mode c).

  Lemma pong_q_mem t u id s now x : In x (tmem (fst (pong_q t u id s now))) -> In x (tmem t).
  Proof.
    unfold Admission.pong_q.
    destruct (find_enr t u id now) as [t1 r] eqn:E1.
    assert (Ht1 : forall y, In y (tmem t1) -> In y (tmem t)).
    { intros y Hy. replace t1 with (fst (find_enr t u id now)) in Hy by now rewrite E1.
      now apply find_enr_mem in Hy. }
    destruct r as [e|]; [|cbn [fst]; auto].
    destruct (contactable mode e); cbn [fst]; [|auto].
    intros H. apply t_update_node_status_mem in H. auto.
  Qed.

  Lemma pong_q_local t u id s now : local (fst (pong_q t u id s now)) = local t.
  Proof.
    unfold Admission.pong_q.
    pose proof (find_enr_local t u id now) as H1.
    destruct (find_enr t u id now) as [t1 r]. cbn [fst] in H1.
    destruct r as [e|]; [|exact H1].
    destruct (contactable mode e); cbn [fst]; [|exact H1].
    now rewrite t_update_node_status_local.
  Qed.

  Lemma pong_q_adm t u id s now : Adm t -> Adm (fst (pong_q t u id s now)).
  Proof.
    intros H x Hx. rewrite pong_q_local. apply H. now apply pong_q_mem in Hx.
  Qed.

  (* in particular: the record stored for a key (entry or pending candidate) after a PONG is the record
     that was stored for it before, whatever the queries hold *)
  Lemma pong_q_no_new_key t u id s now k :
    In k (tkeys (fst (pong_q t u id s now))) -> In k (tkeys t).
  Proof.
    intros Hk. apply In_tkeys in Hk. destruct Hk as (v & Hv). apply pong_q_mem in Hv.
    apply In_tkeys. eauto.
  Qed.
End AdmissionProofs.

Lemma single_stack_address_bound_v4 tf fx c t e id a inc now k :
  a_v6 a = false ->
  In k (tkeys (session_report tf Ip4 fx c t e id a inc now)) -> ~ In k (tkeys t) ->
  k = id /\ e_id e = id /\ e_udp4 e = Some (a_ip a, a_port a).
Proof.
  intros Hv4 Hk Hnew. destruct (session_report_new_key tf Ip4 fx c t e id a inc now k Hk Hnew) as (Hver & -> & Hc).
  unfold verify_enr in Hver. apply andb_prop in Hver. destruct Hver as (Hid & Haddr).
  apply N.eqb_eq in Hid. rewrite Hv4 in Haddr.
  unfold contactable, contactable_addr, addr4 in Hc.
  destruct (e_udp4 e) as [[ip port]|]; [|discriminate].
  apply andb_prop in Haddr. destruct Haddr as (H1 & H2). apply N.eqb_eq in H1, H2. subst. auto.
Qed.

Lemma single_stack_address_bound_v6 tf fx c t e id a inc now k :
  a_v6 a = true ->
  In k (tkeys (session_report tf Ip6 fx c t e id a inc now)) -> ~ In k (tkeys t) ->
  k = id /\ e_id e = id /\ e_udp6 e = Some (a_ip a, a_port a).
Proof.
  intros Hv6 Hk Hnew. destruct (session_report_new_key tf Ip6 fx c t e id a inc now k Hk Hnew) as (Hver & -> & Hc).
  unfold verify_enr in Hver. apply andb_prop in Hver. destruct Hver as (Hid & Haddr).
  apply N.eqb_eq in Hid. rewrite Hv6 in Haddr.
  unfold contactable, contactable_addr, canonical6 in Hc.
  destruct (e_udp6 e) as [[ip port]|]; [|discriminate].
  apply andb_prop in Haddr. destruct Haddr as (H1 & H2). apply N.eqb_eq in H1, H2. subst. auto.
Qed.

(* The pinned tree: a session admits a record that the configured table filter rejects. *)
Lemma pinned_session_bypasses_filter :
  exists (rec_of : N -> enr) tf c loc e,
    interned rec_of e /\ tf e = false /\
    In (e_id e, to_val e) (tmem (fst (established tf Ip4 pinned c (new_table loc) e true 1))).
Proof.
  set (e := {| e_vid := 1; e_id := 6; e_seq := 1; e_udp4 := Some (167772161, 30303); e_udp6 := None;
               e_sub := Some 655360; e_size := 120 |}).
  exists (fun _ => e), (fun _ => false),
    {| max_incoming := 16; pending_timeout := 60; bfilter := None; tfilter := None |}, 5, e.
  split; [reflexivity|]. split; [reflexivity|].
  vm_compute. left. reflexivity.
Qed.
