(* C01, completeness of the case analysis: what the remaining events can attribute to a remote node.
   - application events and ticks: nothing;
   - an inbound WHOAREYOU: only Established for the record of the contact of the request in flight that
     the application itself addressed (outgoing direction: the session keys are derived with that
     contact's public key, see key_for / session_origin; Established is emitted before key confirmation
     by protocol design). *)
From Coq Require Import List Arith NArith Bool Lia.
From Discv5V Require Import Model.Handler Proofs.HandlerB_Base Proofs.HandlerB_Frame Proofs.HandlerB_Session
  Proofs.HandlerB_Auth Proofs.HandlerB_Step.
Import ListNotations.
Local Open Scope N_scope.

Definition who_out (s : st) (n : nonce) (src : addr) (o : output) : Prop :=
  quiet_out o \/
  exists na r e, snd (ar_remove_by_nonce (hs s) n) = Some (na, r) /\ snd na = src /\
    c_enr (rc_contact r) = Some e /\
    o = OEvent (HEstablished e (c_addr (rc_contact r)) (negb (rc_init r))).

Lemma handle_challenge_outs c s src n seq cd now :
  OutsExt (who_out s n src) s (handle_challenge c s src n seq cd now).
Proof.
  unfold handle_challenge.
  destruct (nmap_get n (nmap (hs s))) as [na0 |]; [| apply OutsExt_refl].
  assert (Hw : forall s', OutsExt quiet_out s s' -> OutsExt (who_out s n src) s s').
  { intros s'. apply OutsExt_weaken. intros o Ho. left. exact Ho. }
  unfold who_out.
  destruct (ar_remove_by_nonce (hs s) n) as [h1 found]. cbn [snd].
  destruct found as [[na r] |]; [| apply OutsExt_same; reflexivity].
  destruct (N.eqb (snd na) src) eqn:Esrc; cbn [negb]; [| apply OutsExt_same; reflexivity].
  apply N.eqb_eq in Esrc.
  destruct (rc_hs_sent r || c_ed (rc_contact r)).
  { eapply OutsExt_weaken; [intros o Ho; left; exact Ho |].
    set (s2 := if fix_d6 c then _ else _).
    assert (O2 : outs s2 = outs s) by (unfold s2; destruct (fix_d6 c); reflexivity).
    destruct (QuietF_fail_request c s2 r ERR_INVALID_REMOTE_PACKET true) as [_ [l [El Fl]]].
    exists l. rewrite El, O2. split; [reflexivity |]. eapply Forall_impl; [apply failed_quiet | exact Fl]. }
  set (ct := rc_contact r).
  destruct (pop_pk (dr (with_hs s h1))) as [[[[cn rr] aad] eph] d'].
  destruct (c_enr ct) as [e |] eqn:Ee.
  - match goal with |- OutsExt _ _ (new_session _ ?s5 _ _ _ _) =>
      destruct (NS_new_session c s5 (c_naddr ct)
        {| s_enc := mk_key eph (c_id ct) cd (cfg_local c) (c_id ct) false;
           s_dec := mk_key eph (c_id ct) cd (cfg_local c) (c_id ct) true;
           s_old := None; s_await := None; s_counter := 0; s_used := 0 |} (Some (cn, rr)) now) as [_ [_ [[l [El Fl]] _]]]
    end.
    eexists. split; [rewrite El; cbn [emit send outs with_hs]; rewrite <- !app_assoc; reflexivity |].
    cbn [app]. constructor; [left; exact I |]. constructor.
    + right. exists na, r, e. auto.
    + eapply Forall_impl; [| exact Fl]. intros o Ho. left. exact Ho.
  - destruct (pop_rid _) as [irid d''].
    match goal with |- context [send_request c ?s5 ct false irid 0 now] =>
      pose proof (Quiet_send_request c s5 ct false irid 0 now) as [_ [l6 [E6 F6]]];
      destruct (send_request c s5 ct false irid 0 now) as [s6 ok]
    end.
    cbn [fst] in E6.
    destruct (NS_new_session c s6 (c_naddr ct)
        {| s_enc := mk_key eph (c_id ct) cd (cfg_local c) (c_id ct) false;
           s_dec := mk_key eph (c_id ct) cd (cfg_local c) (c_id ct) true;
           s_old := None; s_await := Some irid; s_counter := 0; s_used := 0 |} (Some (cn, rr)) now) as [_ [_ [[l [El Fl]] _]]].
    eexists. split; [rewrite El, E6; cbn [emit send outs with_hs]; rewrite <- !app_assoc; reflexivity |].
    cbn [app]. constructor; [left; exact I |].
    apply Forall_app. split; (eapply Forall_impl; [| eassumption]); intros o Ho; left; exact Ho.
Qed.

Theorem whoareyou_attributes_contact c h from n idn seq cd now d h' out o :
  step c h (EvInbound from (PWho n idn seq cd)) now d = (h', out) -> In o out -> attributing o ->
  exists na r e, snd (ar_remove_by_nonce (hs (tick c h now d)) n) = Some (na, r) /\ snd na = from /\
    c_enr (rc_contact r) = Some e /\
    o = OEvent (HEstablished e (c_addr (rc_contact r)) (negb (rc_init r))).
Proof.
  intros Hs Hin Ha. rewrite step_PWho in Hs. injection Hs as Eh Eo. rewrite <- Eo in Hin.
  destruct (outs_after _ _ _ o (tick_outs c h now d)
              (handle_challenge_outs (with_clock c now) (tick c h now d) from n seq cd now) Hin) as [Hq | [Hq | Hq]].
  - exfalso. exact (quiet_not_attributing _ Hq Ha).
  - exfalso. exact (quiet_not_attributing _ Hq Ha).
  - exact Hq.
Qed.

(* application events and ticks report nothing about remote nodes *)
Definition local_event (e : event) : bool :=
  match e with EvInbound _ _ => false | _ => true end.

Lemma dispatch_local_outs c s0 e now :
  local_event e = true -> OutsExt quiet_out s0 (dispatch c s0 e now).
Proof.
  intros He. destruct e as [ct rid body | na rid rb | na n known | from p |]; try discriminate; cbn [dispatch].
  - pose proof (Quiet_send_request c s0 ct true rid body now) as [_ O].
    destruct (send_request c s0 ct true rid body now) as [s1 ok]. cbn [fst] in O.
    destruct ok; [exact O |]. eapply OutsExt_trans; [exact O | apply OutsExt_emit; exact I].
  - pose proof (Quiet_send_response c s0 na rid rb) as [_ O]. exact O.
  - destruct (send_challenge_frame c s0 na n known now) as [_ [_ O]]. exact O.
  - apply OutsExt_refl.
Qed.

Theorem local_events_attribute_nothing c h e now d o :
  local_event e = true -> In o (snd (step c h e now d)) -> quiet_out o.
Proof.
  intros He. rewrite step_eq. cbn [snd]. intros Hin.
  destruct (outs_after _ _ _ o (tick_outs c h now d) (dispatch_local_outs (with_clock c now) (tick c h now d) e now He) Hin); assumption.
Qed.
