(* C07, part 3: the life cycle of the pending slot, the consequences of the invariant in plain
   form, and the side conditions under which the totalised list functions of the model never take
   their out-of-range branch (= the Rust code does not panic on an index). *)
From Coq Require Import List Arith NArith Lia Bool Permutation Sorted.
From Discv5V Require Import Generated.Params Lib.ListX Lib.ListY Lib.SortedX Model.KBucket
  Proofs.KBucketInv Proofs.KBucketTable.
Import ListNotations.

(* ------------------------------------------------------------------------------------------ *)
(* What KBucket::insert does, by result *)

Lemma b_insert_spec c b n0 now :
  let n := set_stamp n0 now in
  let b' := fst (b_insert c b n0 now) in
  match snd (b_insert c b n0 now) with
  | BInserted =>
      Permutation (nodes b') (n :: nodes b) /\ is_full b = false /\
      pend b' = (match pend b with
                 | Some p => if N.eqb (nkey (pn p)) (nkey n0) then None else Some p
                 | None => None end) /\
      position (nkey n0) (nodes b) = None /\
      run_filter (bfilter c) (nval n0) (values (nodes b)) = true
  | BPending d =>
      nodes b' = nodes b /\ fcp b' = fcp b /\ pend b = None /\
      pend b' = Some {| pn := n; preplace := (now + pending_timeout c)%N |} /\
      is_full b = true /\ nconn n0 = true /\ fcp b <> Some 0 /\
      exists h rest, nodes b = h :: rest /\ d = nkey h
  | _ => b' = b
  end.
Proof.
  unfold b_insert. cbv zeta.
  change (nkey (set_stamp n0 now)) with (nkey n0). change (nval (set_stamp n0 now)) with (nval n0).
  change (nconn (set_stamp n0 now)) with (nconn n0). change (nin (set_stamp n0 now)) with (nin n0).
  destruct (position (nkey n0) (nodes b)) eqn:Hp; [reflexivity|].
  destruct (negb (run_filter (bfilter c) (nval n0) (values (nodes b)))) eqn:Hf; [reflexivity|].
  apply negb_false_iff in Hf.
  destruct (nconn n0) eqn:Hc.
  - destruct (nin n0 && is_max_incoming c b); [reflexivity|].
    destruct (is_full b) eqn:Hfull.
    + destruct (fcp b) as [[|q]|] eqn:Ef; destruct (pend b) eqn:Ep; try reflexivity;
        (destruct (nodes b) as [|h tl] eqn:Enodes; [reflexivity|]); simpl;
        (repeat split; try reflexivity; try discriminate; exists h, tl; split; reflexivity).
    + destruct (pend b) as [p|]; [destruct (N.eqb (nkey (pn p)) (nkey n0))|]; simpl;
        (repeat split; try reflexivity; try assumption; apply Permutation_sym, Permutation_cons_append).
  - destruct (is_full b) eqn:Hfull; [reflexivity|].
    destruct (fcp b) as [q|]; (destruct (pend b) as [p|]; [destruct (N.eqb (nkey (pn p)) (nkey n0))|]); simpl;
      (repeat split; try reflexivity; try assumption;
       first [apply insert_at_perm|apply Permutation_sym, Permutation_cons_append]).
Qed.

Lemma split_head c T loc i b h rest :
  BInv c T loc i b -> nodes b = h :: rest -> fcp b <> Some 0 -> nconn h = false.
Proof.
  intros HB En Hf. destruct (bi_split _ _ _ _ _ HB) as (D & C & H1 & H2 & H3 & H4 & _).
  rewrite En in H1. destruct D as [|d D].
  - exfalso. apply Hf. rewrite H4. simpl in H1. subst C. reflexivity.
  - simpl in H1. inversion H1; subst. inversion H2; subst. assumption.
Qed.

(* A pending slot is created by an insertion only when the bucket is full, has no pending node yet,
   the new node is connected and the head of the bucket (the node reported as the one that will
   be evicted) is disconnected. *)
Theorem pending_only_when_full c T loc i b n0 now d :
  BInv c T loc i b -> snd (b_insert c b n0 now) = BPending d ->
  is_full b = true /\ length (nodes b) = K /\ pend b = None /\ nconn n0 = true /\
  exists h rest, nodes b = h :: rest /\ nconn h = false /\ d = nkey h /\
    fst (b_insert c b n0 now) =
      {| nodes := nodes b; fcp := fcp b;
         pend := Some {| pn := set_stamp n0 now; preplace := (now + pending_timeout c)%N |} |}.
Proof.
  intros HB E. pose proof (b_insert_spec c b n0 now) as S. cbv zeta in S. rewrite E in S.
  destruct S as (S1 & S2 & S3 & S4 & S5 & S6 & S7 & h & rest & S8 & S9).
  repeat split; auto.
  - unfold is_full in S5. apply Nat.eqb_eq. exact S5.
  - exists h, rest. repeat split; auto.
    + eapply split_head; eassumption.
    + destruct (fst (b_insert c b n0 now)) as [nn ff pp]. simpl in *. subst. reflexivity.
Qed.

(* ... and insertion is the only way a new pending node appears: if the insertion does not answer
   Pending, the pending slot of the result is the old one or empty. *)
Theorem insert_pending_slot c b n0 now :
  (forall d, snd (b_insert c b n0 now) <> BPending d) ->
  pend (fst (b_insert c b n0 now)) = pend b \/ pend (fst (b_insert c b n0 now)) = None.
Proof.
  intros H. pose proof (b_insert_spec c b n0 now) as S. cbv zeta in S.
  destruct (snd (b_insert c b n0 now)) eqn:E; try (left; rewrite S; reflexivity).
  - destruct S as (_ & _ & S & _). rewrite S. destruct (pend b) as [p|]; [|left; reflexivity].
    destruct (N.eqb (nkey (pn p)) (nkey n0)); [right|left]; reflexivity.
  - exfalso. eapply H. reflexivity.
Qed.

(* ------------------------------------------------------------------------------------------ *)
(* apply_pending *)

(* The result of apply_pending:
   - without an AppliedPending answer the nodes are unchanged;
   - with one, there was a pending node, its timeout has elapsed, it is now among the nodes (stamped
     with the current time) and the slot is empty; if the bucket was full, the evicted node is the
     head of the bucket, it was disconnected, and all other nodes are kept; if the bucket was not
     full nothing is evicted and all nodes are kept. *)
Theorem apply_pending_spec c b now :
  let b' := fst (b_apply_pending c b now) in
  match snd (b_apply_pending c b now) with
  | None => nodes b' = nodes b /\ fcp b' = fcp b /\ (pend b' = pend b \/ pend b' = None)
  | Some (ins, ev) =>
      exists p, pend b = Some p /\ (preplace p <= now)%N /\ ins = nkey (pn p) /\ pend b' = None /\
        run_filter (bfilter c) (nval (pn p)) (values (nodes b)) = true /\
        let n := set_stamp (pn p) now in
        match ev with
        | None => is_full b = false /\ Permutation (nodes b') (n :: nodes b)
        | Some e => is_full b = true /\
                    exists h rest, nodes b = h :: rest /\ e = nkey h /\ nconn h = false /\
                                   Permutation (nodes b') (n :: rest)
        end
  end.
Proof.
  unfold b_apply_pending. destruct (pend b) as [p|] eqn:Ep; [|simpl; auto]. cbv zeta.
  destruct (N.leb_spec (preplace p) now) as [Hle|Hle]; [|simpl; rewrite Ep; auto].
  set (b0 := {| nodes := nodes b; fcp := fcp b; pend := None |}).
  change (is_full b0) with (is_full b). change (nodes b0) with (nodes b). change (fcp b0) with (fcp b).
  destruct (is_full b) eqn:Hfull.
  - destruct (nodes b) as [|h rest] eqn:Enodes; [simpl; auto|].
    destruct (nconn h) eqn:Hh; [simpl; auto|].
    destruct (negb (run_filter (bfilter c) (nval (pn p)) (values (h :: rest)))) eqn:Hf; [simpl; auto|].
    apply negb_false_iff in Hf.
    destruct (nconn (pn p) && nin (pn p) && is_max_incoming c b0); [simpl; auto|].
    change (nconn (set_stamp (pn p) now)) with (nconn (pn p)).
    change (nkey (set_stamp (pn p) now)) with (nkey (pn p)).
    destruct (nconn (pn p)).
    + simpl. exists p. repeat split; auto. exists h, rest. repeat split; auto.
      apply Permutation_sym, Permutation_cons_append.
    + destruct (fcp b) as [[|q]|]; simpl; auto;
        (exists p; repeat split; auto; exists h, rest; repeat split; auto;
         first [apply insert_at_perm|apply Permutation_sym, Permutation_cons_append]).
  - pose proof (b_insert_spec c b0 (pn p) now) as S. cbv zeta in S.
    destruct (b_insert c b0 (pn p) now) as [b1 r]. simpl in S.
    destruct r; simpl; try (subst b1; simpl; auto).
    + destruct S as (S1 & S2 & S3 & S4 & S5). exists p. repeat split; auto.
    + destruct S as (_ & _ & _ & _ & S5 & _). change (is_full b0) with (is_full b) in S5. congruence.
Qed.

(* update_status to "connected" on the node at position 0 (the eviction candidate) clears the
   pending slot *)
Theorem reconnect_drops_pending c T loc i b k dir now :
  BInv c T loc i b -> position k (nodes b) = Some 0 ->
  pend (fst (b_update_status c b k true dir now)) = None.
Proof.
  intros HB Hpos. unfold b_update_status. rewrite Hpos.
  destruct (position_some _ _ _ Hpos) as (old & Hn & Hk). rewrite Hn. cbv zeta.
  match goal with |- context [b_insert c ?b1 ?n now] => set (bb := b1); set (nn := n) end.
  pose proof (b_insert_spec c bb nn now) as S. cbv zeta in S.
  assert (Hnf : is_full bb = false).
  { unfold is_full, bb. cbn [nodes]. apply Nat.eqb_neq.
    assert (0 < length (nodes b)) by (apply nth_error_Some; congruence).
    rewrite remove_at_length by assumption. pose proof (bi_len _ _ _ _ _ HB). lia. }
  destruct (b_insert c bb nn now) as [b2 r]. simpl in S.
  assert (E : pend b2 = None).
  { destruct r; try (subst b2; reflexivity).
    - destruct S as (_ & _ & S & _). rewrite S. reflexivity.
    - destruct S as (_ & _ & _ & _ & S5 & _). congruence. }
  destruct r; exact E.
Qed.

(* ------------------------------------------------------------------------------------------ *)
(* The invariant in plain form *)

Lemma bucket_index_not_self loc k i : bucket_index loc k = Some i -> k <> loc.
Proof.
  unfold bucket_index. intros H E. subst k. rewrite N.lxor_nilpotent in H. discriminate.
Qed.

Lemma bucket_index_lt_NB loc k i :
  (loc < 2 ^ NUM_BUCKETS)%N -> (k < 2 ^ NUM_BUCKETS)%N -> bucket_index loc k = Some i -> i < NB.
Proof.
  unfold bucket_index. intros Hl Hk. destruct (N.eqb_spec (N.lxor loc k) 0) as [E|E]; [discriminate|].
  intros H. inversion H; subst i.
  assert (N.log2 (N.lxor loc k) < NUM_BUCKETS)%N.
  { destruct (N.eq_dec loc 0) as [->|Hl0]; [rewrite N.lxor_0_l; apply N.log2_lt_pow2; [rewrite N.lxor_0_l in E|]; lia|].
    destruct (N.eq_dec k 0) as [->|Hk0]; [rewrite N.lxor_0_r; apply N.log2_lt_pow2; lia|].
    eapply N.le_lt_trans; [apply N.log2_lxor|].
    apply N.max_lub_lt; apply N.log2_lt_pow2; lia. }
  change NB with (N.to_nat NUM_BUCKETS). lia.
Qed.

(* index form of the status structure *)
Definition status_by_index (b : bucket) : Prop :=
  match fcp b with
  | None => forall n, In n (nodes b) -> nconn n = false
  | Some p => p < length (nodes b) /\
              forall j n, nth_error (nodes b) j = Some n -> nconn n = negb (Nat.ltb j p)
  end.

Lemma split_status_by_index T b D C : Split T (nodes b) (fcp b) D C -> status_by_index b.
Proof.
  intros (H1 & H2 & H3 & H4 & _). unfold status_by_index. rewrite H4, H1. unfold fcp_of.
  rewrite Forall_forall in H2, H3.
  destruct C as [|c0 C].
  - rewrite app_nil_r. exact H2.
  - split; [rewrite app_length; simpl; lia|].
    intros j n Hn. destruct (nth_error_split_cases D (c0 :: C) j n Hn) as [[L Hd]|[L Hc]].
    + apply Nat.ltb_lt in L. rewrite L. apply H2. eapply nth_error_In; eauto.
    + apply Nat.ltb_ge in L. rewrite L. apply H3. eapply nth_error_In; eauto.
Qed.

Definition table_keys (t : table) : list N := flat_map bkeys (buckets t).
Definition tentries (t : table) : list (N * val) := flat_map bentries (buckets t).

Lemma table_keys_entries t : table_keys t = map fst (tentries t).
Proof.
  unfold table_keys, tentries. induction (buckets t) as [|b bs IH]; [reflexivity|].
  simpl. rewrite map_app, IH. reflexivity.
Qed.

Lemma nodup_flat_map_indexed {A B} (f : B -> list A) (idx : A -> option nat) : forall bs off,
  (forall j b, nth_error bs j = Some b -> NoDup (f b) /\ forall k, In k (f b) -> idx k = Some (off + j)) ->
  NoDup (flat_map f bs).
Proof.
  induction bs as [|b bs IH]; intros off H; [constructor|]. simpl.
  apply NoDup_app_iff. split; [apply (H 0 b eq_refl)|]. split.
  - apply (IH (S off)). intros j b' Hj. destruct (H (S j) b' Hj) as [H1 H2]. split; [exact H1|].
    intros k Hk. rewrite (H2 k Hk). f_equal. lia.
  - intros x Hx Hx'. apply in_flat_map in Hx'. destruct Hx' as (b' & Hb' & Hx').
    apply In_nth_error in Hb'. destruct Hb' as [j Hj].
    destruct (H 0 b eq_refl) as [_ H0]. destruct (H (S j) b' Hj) as [_ H1].
    specialize (H1 x Hx'). rewrite (H0 x Hx) in H1. inversion H1. lia.
Qed.

Lemma nth_error_get_bucket t i b : nth_error (buckets t) i = Some b -> get_bucket t i = b.
Proof. intros H. unfold get_bucket. apply nth_error_nth. exact H. Qed.

(* no node id occurs twice in the table, pending slots included *)
Theorem TInv_NoDup_keys c T t : TInvG c T t -> NoDup (table_keys t).
Proof.
  intros [H1 H2]. unfold table_keys.
  apply (nodup_flat_map_indexed bkeys (bucket_index (local t)) (buckets t) 0).
  intros j b Hj. apply nth_error_get_bucket in Hj. subst b. specialize (H2 j).
  split; [apply (bi_nodup _ _ _ _ _ H2)|apply (bi_idx _ _ _ _ _ H2)].
Qed.

Definition stamps_sorted (l : list node) : Prop := StronglySorted N.le (map nstamp l).

(* The plain reading of the invariant (structural part) *)
Theorem TInv_spec c t : TInv c t ->
  length (buckets t) = NB /\
  NoDup (table_keys t) /\
  forall i b, nth_error (buckets t) i = Some b ->
    length (nodes b) <= K /\
    (forall k, In k (bkeys b) -> bucket_index (local t) k = Some i /\ k <> local t) /\
    (exists D C, nodes b = D ++ C /\ Forall (fun n => nconn n = false) D /\
                 Forall (fun n => nconn n = true) C /\ fcp b = fcp_of D C) /\
    status_by_index b /\
    count kin (nodes b) <= max_incoming c /\
    (forall p, pend b = Some p -> ~ In (nkey (pn p)) (map nkey (nodes b))).
Proof.
  intros HT. split; [apply HT|]. split; [eapply TInv_NoDup_keys; exact HT|].
  intros i b Hb. apply nth_error_get_bucket in Hb. subst b. destruct HT as [_ H2]. specialize (H2 i).
  destruct (bi_split _ _ _ _ _ H2) as (D & C & HS).
  repeat split.
  - apply (bi_len _ _ _ _ _ H2).
  - apply (bi_idx _ _ _ _ _ H2). assumption.
  - eapply bucket_index_not_self. apply (bi_idx _ _ _ _ _ H2). assumption.
  - exists D, C. destruct HS as (S1 & S2 & S3 & S4 & _). auto.
  - eapply split_status_by_index; exact HS.
  - apply (bi_inc _ _ _ _ _ H2).
  - intros p Hp. apply (binv_pend_facts _ _ _ _ _ _ H2 Hp).
Qed.

(* ... and the stamp part: inside a bucket the disconnected nodes (the first group) and the
   connected nodes (the second group) are each ordered by the time of their last status report,
   and no stamp is in the future *)
Theorem TInvAt_spec c now t : TInvAt c now t ->
  TInv c t /\
  forall i b, nth_error (buckets t) i = Some b ->
    stamps_sorted (filter (fun n => negb (nconn n)) (nodes b)) /\
    stamps_sorted (filter nconn (nodes b)) /\
    nodes b = filter (fun n => negb (nconn n)) (nodes b) ++ filter nconn (nodes b) /\
    Forall (fun n => (nstamp n <= now)%N) (nodes b).
Proof.
  intros HT. split; [eapply TInvAt_TInv; exact HT|].
  intros i b Hb. apply nth_error_get_bucket in Hb. subst b. destruct HT as [_ H2]. specialize (H2 i).
  destruct (bi_split _ _ _ _ _ H2) as (D & C & S1 & S2 & S3 & S4 & S5 & S6 & S7).
  assert (FD : filter (fun n => negb (nconn n)) (D ++ C) = D).
  { rewrite filter_app.
    assert (E1 : filter (fun n => negb (nconn n)) D = D).
    { clear - S2. induction S2 as [|d D Hd _ IH]; simpl; [reflexivity|]. rewrite Hd, IH. reflexivity. }
    assert (E2 : filter (fun n => negb (nconn n)) C = []).
    { clear - S3. induction S3 as [|d D Hd _ IH]; simpl; [reflexivity|]. rewrite Hd, IH. reflexivity. }
    rewrite E1, E2, app_nil_r. reflexivity. }
  assert (FC : filter nconn (D ++ C) = C).
  { rewrite filter_app.
    assert (E1 : filter nconn D = []).
    { clear - S2. induction S2 as [|d D Hd _ IH]; simpl; [reflexivity|]. rewrite Hd, IH. reflexivity. }
    assert (E2 : filter nconn C = C).
    { clear - S3. induction S3 as [|d D Hd _ IH]; simpl; [reflexivity|]. rewrite Hd, IH. reflexivity. }
    rewrite E1, E2. reflexivity. }
  rewrite S1, FD, FC. repeat split; assumption.
Qed.

(* ------------------------------------------------------------------------------------------ *)
(* No-panic side conditions: under the invariant every index handed to insert_at / remove_at /
   nth_error by the model is in range, so the out-of-range branches of the totalised list functions
   (Rust: a panic in Vec::insert / remove / indexing) are never taken. *)

(* b_insert: [insert_at p n (nodes b)] with [fcp b = Some p] *)
Lemma fcp_in_range c T loc i b p : BInv c T loc i b -> fcp b = Some p -> p < length (nodes b).
Proof.
  intros HB E. destruct (bi_split _ _ _ _ _ HB) as (D & C & HS).
  pose proof (split_status_by_index _ _ _ _ HS) as H. unfold status_by_index in H. rewrite E in H. tauto.
Qed.

(* b_update_status / b_update_value / b_remove: [nth_error (nodes b) pos], [remove_at pos] with
   [position k (nodes b) = Some pos] *)
Lemma position_in_range k l pos : position k l = Some pos -> pos < length l.
Proof. intros H. destruct (position_some _ _ _ H) as (old & Hn & _). apply nth_error_Some. congruence. Qed.

(* b_update_value: [insert_at pos _ (remove_at pos (nodes b))] *)
Lemma reinsert_in_range k (l : list node) pos :
  position k l = Some pos -> pos <= length (remove_at pos l).
Proof. intros H. apply position_in_range in H. rewrite remove_at_length by exact H. lia. Qed.

(* b_apply_pending, full bucket, disconnected pending node: [insert_at q n rest] with
   [fcp = Some (S q)], [nodes = h :: rest] *)
Lemma evict_insert_in_range c T loc i b h rest q :
  BInv c T loc i b -> nodes b = h :: rest -> fcp b = Some (S q) -> q <= length rest.
Proof.
  intros HB En Ef. pose proof (fcp_in_range _ _ _ _ _ _ HB Ef) as H. rewrite En in H. simpl in H. lia.
Qed.

(* b_insert / b_apply_pending: [self.nodes[0]] of a full bucket exists *)
Lemma full_has_head b : is_full b = true -> exists h rest, nodes b = h :: rest.
Proof.
  unfold is_full. intros H. apply Nat.eqb_eq in H. pose proof K_pos.
  destruct (nodes b) as [|h rest]; [simpl in H; lia|]. exists h, rest. reflexivity.
Qed.

(* b_apply_pending, full bucket with a disconnected head: [fcp = Some 0] (the arm that returns
   without inserting in the model; `unreachable` bookkeeping in the code) does not occur *)
Lemma evict_fcp_nonzero c T loc i b h rest :
  BInv c T loc i b -> nodes b = h :: rest -> nconn h = false -> fcp b <> Some 0.
Proof.
  intros HB En Hh. destruct (bi_split _ _ _ _ _ HB) as (D & C & HS). rewrite En in HS.
  eapply split_head_disc; eassumption.
Qed.

(* b_update_status: the re-insertion after the removal never answers Full / Pending / NodeExists
   (the `unreachable!()` arm of the code) *)
Lemma status_reinsert_results c T loc i b k conn dir now pos old :
  BInv c T loc i b -> position k (nodes b) = Some pos -> nth_error (nodes b) pos = Some old ->
  let rest := remove_at pos (nodes b) in
  forall f pd,
  let r := snd (b_insert c {| nodes := rest; fcp := f; pend := pd |}
                  {| nkey := nkey old; nval := nval old; nconn := conn;
                     nin := match dir with Some d => d | None => nin old end; nstamp := nstamp old |} now) in
  r = BInserted \/ r = BTooManyIncoming \/ r = BFailedFilter.
Proof.
  intros HB Hpos Hn rest f pd.
  assert (Hlen : length rest < K).
  { unfold rest. pose proof (position_in_range _ _ _ Hpos). rewrite remove_at_length by assumption.
    pose proof (bi_len _ _ _ _ _ HB). lia. }
  assert (Hnin : position (nkey old) rest = None).
  { apply position_none. intros Hin.
    pose proof (remove_at_perm _ _ _ Hn) as Hp. apply (Permutation_map nkey) in Hp. simpl in Hp.
    pose proof (bi_nodup _ _ _ _ _ HB) as Hnd. rewrite bkeys_eq in Hnd. apply NoDup_app_remove_r in Hnd.
    apply (Permutation_NoDup Hp) in Hnd. inversion Hnd; subst. contradiction. }
  unfold b_insert. cbv zeta. simpl. rewrite Hnin.
  assert (Hnf : is_full {| nodes := rest; fcp := f; pend := pd |} = false)
    by (unfold is_full; simpl; apply Nat.eqb_neq; lia).
  destruct (negb (run_filter (bfilter c) (nval old) (values rest))); [auto|].
  destruct conn.
  - destruct (_ && is_max_incoming c _); [auto|]. rewrite Hnf. simpl. auto.
  - rewrite Hnf. destruct f; simpl; auto.
Qed.

(* table level: the bucket index computed from 256-bit ids is a valid index into the 256 buckets
   (self.buckets[i] does not panic) *)
Lemma table_index_in_range c T t k i :
  TInvG c T t -> (local t < 2 ^ NUM_BUCKETS)%N -> (k < 2 ^ NUM_BUCKETS)%N ->
  bucket_index (local t) k = Some i -> i < length (buckets t).
Proof. intros [H1 _] Hl Hk Hi. rewrite H1. exact (bucket_index_lt_NB _ _ _ Hl Hk Hi). Qed.
