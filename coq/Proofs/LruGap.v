(* Gap-closing lemma for the cache half of C15 (Model/Lru.v): "when the capacity is reached the
   least recently used session is the one dropped", stated about histories - in terms of the last
   USE of each key in the history (its insertion or its last successful read), not of the stored
   times and the list order of a cache state. *)
From Coq Require Import List NArith Bool Lia Sorted.
From Discv5V Require Import Model.Lru Proofs.Lru.
Import ListNotations.
Local Open Scope N_scope.

Theorem evicts_lru_history fixed cfg tr k v now :
  mono tr -> last_time 0 tr <= now -> 1 <= capacity cfg ->
  let c := fst (run fixed cfg tr) in
  let outs := snd (run fixed cfg tr) in
  len c = capacity cfg -> find c k = None ->
  exists k0 v0 t0,
    (* the dropped entry: held before, gone afterwards ... *)
    find c k0 = Some (v0, t0) /\ find (insert cfg c k v now) k0 = None /\
    (* ... its last use in the history is t0, and no held key was last used earlier ... *)
    last_use_time tr outs k0 None = Some t0 /\
    (forall k' v' t', find c k' = Some (v', t') ->
       last_use_time tr outs k' None = Some t' /\ t0 <= t') /\
    (* ... every other entry is kept, and the new one is held *)
    (forall k', k' <> k0 -> k' <> k -> find (insert cfg c k v now) k' = find c k') /\
    find (insert cfg c k v now) k = Some (v, now).
Proof.
  intros M L C c outs Len F.
  pose proof (reachable_inv fixed cfg tr M) as I. fold c in I.
  destruct (evicts_lru cfg c _ k v now I L C Len F) as (e & rest & Ec & Ei & Hmin & _).
  destruct I as (W & _ & _).
  destruct e as [[k0 v0] t0]. exists k0, v0, t0.
  assert (F0 : find c k0 = Some (v0, t0)).
  { apply in_find; [exact W|]. rewrite Ec. left. reflexivity. }
  assert (Hk : k0 <> k) by (intros ->; congruence).
  assert (Nr : ~ In k0 (keys rest)).
  { unfold wf in W. rewrite Ec in W. cbn [keys map] in W. inversion W; subst. assumption. }
  rewrite Ei. repeat split.
  - exact F0.
  - rewrite find_app. rewrite (proj2 (find_none_iff rest k0) Nr). cbn [find ekey fst].
    destruct (N.eqb_spec k k0); [congruence|reflexivity].
  - exact (stored_time_is_last_use fixed cfg tr k0 v0 t0 F0).
  - exact (stored_time_is_last_use fixed cfg tr k' v' t' H).
  - apply find_some_in in H. exact (Hmin (k', v', t') H).
  - intros k' N0 N1. rewrite find_app. rewrite Ec. cbn [find ekey fst].
    destruct (N.eqb_spec k0 k'); [congruence|].
    destruct (find rest k') as [x|]; [reflexivity|]. cbn [find ekey fst].
    destruct (N.eqb_spec k k'); [congruence|reflexivity].
  - rewrite find_app. assert (Fr : find rest k = None).
    { rewrite Ec in F. cbn [find ekey fst] in F. destruct (k0 =? k); [discriminate|exact F]. }
    rewrite Fr. cbn [find ekey fst eval etime snd]. rewrite N.eqb_refl. reflexivity.
Qed.
