//! End-to-end runs (component `e2e`): two to five REAL, fully assembled nodes
//! (`ConfigBuilder` -> `Discv5::new` -> `Discv5::start` -> the real `Service::spawn`,
//! `Handler::spawn`, `Socket::new`) talk over real loopback UDP sockets in real time; silent peers
//! are plain bound UDP sockets that never answer.  Monitor-only: no Coq case files.  The purpose is
//! to find a concrete failing input when glue code of the real constructors / socket tasks breaks
//! (what the constructor-parity obligations only report as "broken").
//!
//! Case kinds (all choices from the case PRNG):
//!  * basic   - A (under test) and B: PING, FINDNODE (designated), TALK round trips, optionally while
//!              A's application has banned B's IP / node id or A's filter has a tiny rate limit
//!              (answers to A's own requests are solicited and must get through): C14, C20, C13, C04
//!  * silent  - a request to a bound socket that never answers: a timeout, not before one full
//!              request_timeout period, at most 1 + retries datagrams: C04
//!  * lookup  - `find_node` over silent candidates (and optionally one live node): every candidate
//!              known at the start was contacted unless the query timeout cut the lookup off; only
//!              answering nodes are returned; the lookup terminates: C10, C09
//!  * vote    - voters report A's socket in their PONGs; fewer distinct voters than
//!              `enr_peer_update_min` never move the record; a move bumps seq, verifies, is announced: C17
//!  * mapped  - A listens on an application-supplied dual-stack IPv6 socket (`FromSockets`), B is an
//!              IPv4 node: PING / FINDNODE / TALK of B are answered with the observed source; B is not
//!              admitted to A's table on the strength of an address its packets did not come from: C14, C12
//!  * crossed - A owns an IPv4 and a dual-stack IPv6 socket, B reaches A through a forwarder that
//!              delivers the handshake to the other socket (and loses what A sends from there): no
//!              session from an address whose challenge was never answered: C03 (controls: everything through one socket must work, C14)
//!  * sendfail - A's send task is handed a datagram it cannot send (a destination of a family it has no
//!              socket for, or one the OS refuses); the next thing A puts on the wire - a request to the
//!              live node B, the answer to a request of B, a request to a plain UDP listener L that decodes
//!              everything A sends to it with its own node id - must be unaffected: C05, C04, C14, C20
//!  * held    - B's application holds a TALK request of A while something else happens on the session
//!              (B's own request to A times out for good; A sends an authenticated message B's decoder
//!              rejects; the session becomes older than session_timeout although it is in use; a
//!              duplicate of A's first datagram makes B issue a second WHOAREYOU that expires); when the
//!              application then responds (or drops the request object) the answer must reach A: C20, C04
//!  * dual    - A listens on an IPv4 and an IPv6 socket (`DualStack`, or `FromSockets` with both), B4 is an
//!              IPv4 node, B6 an IPv6-only node on ::1: PING / FINDNODE / TALK between A and B6 in both
//!              directions (datagrams on A's second socket) while B4 talks to the first one: C05, C14, C20, C04
//!
//! In `basic` without adversity, TALK requests and responses whose datagram (on the established
//! session) is exactly 1280, 1279 or 1278 bytes long - sizes from the real codec - must make the
//! round trip like any other: C20, C04.
//!
//! Time: "not earlier than" statements are lower bounds on measured real time; a success has 5 s
//! (request_timeout 2.5 s, two transmissions) before it counts as a failure, and "no outcome at all"
//! means nothing came back 3 s (6 s for the short timeouts of silent peers, 8 s for lookups) after
//! the moment the node itself had to give up.  In `held` the requester transmits once and waits 8 s,
//! the answer has 5 s from the moment the application gave it, and the session-age variant is
//! judged only when the measured time between request and answer left 1.5 s of the session
//! timeout.  Cases run concurrently (six at a time); every node
//! of a case has its own 127.x.y.z address, so bans by IP stay inside the case.
//!
//! `harness e2e [--focus cNN] --seed S --cases N --out DIR [--only I]`
use crate::common::*;
use discv5::enr::{CombinedKey, NodeId};
use discv5::{Config, ConfigBuilder, Discv5, Enr, Event, Key, ListenConfig, NodeContact, RateLimiterBuilder};
use parking_lot::Mutex;
use std::collections::{BTreeSet, HashMap};
use std::net::{IpAddr, Ipv4Addr, Ipv6Addr, SocketAddr, SocketAddrV6, UdpSocket as StdUdp};
use std::sync::Arc;
use std::time::{Duration, Instant};

const PROPS: [&str; 10] = ["C03", "C04", "C05", "C09", "C10", "C12", "C13", "C14", "C17", "C20"];

/// serialises the sections that rely on the process-wide permit/ban list (`Discv5::new` replaces
/// the whole list): node construction takes it shared, a ban section exclusively
static BAN_GATE: tokio::sync::RwLock<()> = tokio::sync::RwLock::const_new(());
/// failed requests inside ban sections so far (a failing section holds the gate for seconds; two
/// concrete failures are enough for a run)
static FAILED_BAN_SECTIONS: std::sync::atomic::AtomicUsize = std::sync::atomic::AtomicUsize::new(0);

// ------------------------------------------------------------------------------------------------
// environment

#[derive(Clone, Copy, Debug)]
struct Env {
    /// sockets can be bound to any address of 127/8
    multi_ip: bool,
    /// an IPv6 socket bound to [::] also receives IPv4 datagrams (mapped source)
    dual_stack: bool,
    /// sockets can be bound to ::1 and datagrams sent there arrive
    ipv6_loopback: bool,
}

fn probe_env() -> Env {
    let multi_ip = StdUdp::bind((Ipv4Addr::new(127, 77, 3, 9), 0)).is_ok() && StdUdp::bind((Ipv4Addr::new(127, 10, 1, 2), 0)).is_ok();
    let dual_stack = (|| -> Option<bool> {
        let s6 = StdUdp::bind((Ipv6Addr::UNSPECIFIED, 0)).ok()?;
        let p = s6.local_addr().ok()?.port();
        s6.set_read_timeout(Some(Duration::from_millis(500))).ok()?;
        let peer_ip = if multi_ip { Ipv4Addr::new(127, 77, 3, 9) } else { Ipv4Addr::LOCALHOST };
        let s4 = StdUdp::bind((peer_ip, 0)).ok()?;
        s4.set_read_timeout(Some(Duration::from_millis(500))).ok()?;
        s4.send_to(b"probe", (Ipv4Addr::LOCALHOST, p)).ok()?;
        let mut buf = [0u8; 16];
        let (_, from) = s6.recv_from(&mut buf).ok()?;
        let mapped = matches!(from, SocketAddr::V6(a) if a.ip().to_ipv4_mapped() == Some(peer_ip));
        // the answer of the wildcard socket must come from 127.0.0.1
        s6.send_to(b"echo", from).ok()?;
        let (_, back) = s4.recv_from(&mut buf).ok()?;
        Some(mapped && back == SocketAddr::from((Ipv4Addr::LOCALHOST, p)))
    })()
    .unwrap_or(false);
    let ipv6_loopback = (|| -> Option<bool> {
        let r = StdUdp::bind((Ipv6Addr::LOCALHOST, 0)).ok()?;
        r.set_read_timeout(Some(Duration::from_millis(500))).ok()?;
        let s = StdUdp::bind((Ipv6Addr::LOCALHOST, 0)).ok()?;
        s.send_to(b"probe", r.local_addr().ok()?).ok()?;
        let mut buf = [0u8; 16];
        let (n, from) = r.recv_from(&mut buf).ok()?;
        Some(n == 5 && from.ip() == IpAddr::V6(Ipv6Addr::LOCALHOST))
    })()
    .unwrap_or(false);
    Env { multi_ip, dual_stack, ipv6_loopback }
}

fn ip_for(env: Env, idx: u64, node: u8) -> Ipv4Addr {
    if env.multi_ip {
        Ipv4Addr::new(127, 10 + ((idx / 250) % 100) as u8, 1 + (idx % 250) as u8, node)
    } else {
        Ipv4Addr::LOCALHOST
    }
}

fn port_for(idx: u64, node: u64, attempt: u64) -> u16 {
    let pid = std::process::id() as u64;
    (20000 + (pid * 131 + idx * 211 + node * 17 + attempt * 977) % 12000) as u16
}

// ------------------------------------------------------------------------------------------------
// configuration of one node

#[derive(Clone, Debug, PartialEq, Eq)]
enum Limit {
    /// one unsolicited packet per IP in 20 s
    Ip,
    /// one unsolicited packet per node id in 20 s
    Node,
}

#[derive(Clone, Debug)]
struct Cfg {
    request_timeout_ms: u64,
    retries: u8,
    query_peer_timeout_ms: Option<u64>,
    query_timeout_ms: Option<u64>,
    parallelism: Option<usize>,
    filter: bool,
    limiter: Option<Limit>,
    peer_update_min: Option<usize>,
    session_timeout_ms: Option<u64>,
}

impl Cfg {
    fn generous() -> Cfg {
        Cfg { request_timeout_ms: 2500, retries: 2, query_peer_timeout_ms: None, query_timeout_ms: None, parallelism: None, filter: false, limiter: None, peer_update_min: None, session_timeout_ms: None }
    }
    /// one transmission, no outcome before 8 s: nothing is retransmitted while an answer is held back
    fn patient() -> Cfg {
        let mut c = Cfg::generous();
        c.request_timeout_ms = 8000;
        c.retries = 1;
        c
    }
    fn text(&self) -> String {
        let mut s = format!("request_timeout({} ms), request_retries({})", self.request_timeout_ms, self.retries);
        if let Some(x) = self.query_peer_timeout_ms {
            s += &format!(", query_peer_timeout({} ms)", x);
        }
        if let Some(x) = self.query_timeout_ms {
            s += &format!(", query_timeout({} ms)", x);
        }
        if let Some(x) = self.parallelism {
            s += &format!(", query_parallelism({})", x);
        }
        if self.filter {
            s += ", enable_packet_filter()";
        }
        match self.limiter {
            Some(Limit::Ip) => s += ", filter_rate_limiter(total 50 / 10 s, ip 1 / 20 s)",
            Some(Limit::Node) => s += ", filter_rate_limiter(total 50 / 10 s, node 1 / 20 s)",
            None => {}
        }
        if let Some(x) = self.peer_update_min {
            s += &format!(", enr_peer_update_min({})", x);
        }
        if let Some(x) = self.session_timeout_ms {
            s += &format!(", session_timeout({} ms)", x);
        }
        s
    }
    fn build(&self, listen: ListenConfig) -> Config {
        let mut b = ConfigBuilder::new(listen);
        b.request_timeout(Duration::from_millis(self.request_timeout_ms));
        b.request_retries(self.retries);
        if let Some(x) = self.query_peer_timeout_ms {
            b.query_peer_timeout(Duration::from_millis(x));
        }
        if let Some(x) = self.query_timeout_ms {
            b.query_timeout(Duration::from_millis(x));
        }
        if let Some(x) = self.parallelism {
            b.query_parallelism(x);
        }
        if self.filter {
            b.enable_packet_filter();
        }
        match self.limiter {
            Some(Limit::Ip) => {
                let l = RateLimiterBuilder::new().total_n_every(50, Duration::from_secs(10)).ip_n_every(1, Duration::from_secs(20)).build().expect("limiter");
                b.filter_rate_limiter(Some(l));
            }
            Some(Limit::Node) => {
                let l = RateLimiterBuilder::new().total_n_every(50, Duration::from_secs(10)).node_n_every(1, Duration::from_secs(20)).build().expect("limiter");
                b.filter_rate_limiter(Some(l));
            }
            None => {}
        }
        if let Some(x) = self.peer_update_min {
            b.enr_peer_update_min(x);
        }
        if let Some(x) = self.session_timeout_ms {
            b.session_timeout(Duration::from_millis(x));
        }
        b.build()
    }
    /// the time after which the handler has given up on an unanswered request (the handler sends a
    /// request max(1, request_retries) times, one request_timeout apart)
    fn give_up(&self) -> Duration {
        Duration::from_millis(self.request_timeout_ms * (self.retries.max(1) as u64))
    }
}

/// What the node's own record advertises.
#[derive(Clone, Debug, PartialEq, Eq)]
enum Advert {
    /// the socket it listens on
    Honest,
    /// no address at all
    Nothing,
    /// the listening IP with another port
    OtherPort,
    /// a given socket (the forwarder in front of the node), plus ::1 with the listening port when `with_v6`
    Fixed(SocketAddr, bool),
    /// IPv4 socket = listening socket, IPv6 socket = an address the node does not own
    ForeignV6,
    /// IPv4 socket = listening socket, IPv6 socket = the IPv4-mapped form of it
    MappedV6,
    /// IPv4 socket = listening socket, IPv6 socket = ::1 with the listening port
    BothLoopback,
    /// only an IPv6 socket: ::1 with the listening port
    V6Only,
}

fn key_from(rng: &mut Rng) -> CombinedKey {
    loop {
        let mut b = rng.bytes(32);
        if let Ok(k) = CombinedKey::secp256k1_from_bytes(&mut b) {
            return k;
        }
    }
}

fn clone_key(k: &CombinedKey) -> CombinedKey {
    CombinedKey::secp256k1_from_bytes(&mut k.encode()).expect("key")
}

fn make_enr(key: &CombinedKey, ip: Ipv4Addr, port: u16, adv: &Advert) -> Enr {
    let mut b = Enr::builder();
    match adv {
        Advert::Honest => {
            b.ip4(ip).udp4(port);
        }
        Advert::Nothing => {}
        Advert::OtherPort => {
            b.ip4(ip).udp4(if port > 30000 { port - 1 } else { port + 1 });
        }
        Advert::Fixed(s, with_v6) => {
            match s {
                SocketAddr::V4(a) => {
                    b.ip4(*a.ip()).udp4(a.port());
                }
                SocketAddr::V6(a) => {
                    b.ip6(*a.ip()).udp6(a.port());
                }
            }
            if *with_v6 {
                b.ip6(Ipv6Addr::LOCALHOST).udp6(port);
            }
        }
        Advert::ForeignV6 => {
            b.ip4(ip).udp4(port).ip6("2001:db8::1".parse::<Ipv6Addr>().unwrap()).udp6(9999);
        }
        Advert::MappedV6 => {
            b.ip4(ip).udp4(port).ip6(ip.to_ipv6_mapped()).udp6(port);
        }
        Advert::BothLoopback => {
            b.ip4(ip).udp4(port).ip6(Ipv6Addr::LOCALHOST).udp6(port);
        }
        Advert::V6Only => {
            b.ip6(Ipv6Addr::LOCALHOST).udp6(port);
        }
    }
    b.build(key).expect("enr")
}

// ------------------------------------------------------------------------------------------------
// a running node and its application

#[derive(Clone, Debug)]
enum Behave {
    Respond(Vec<u8>),
    Drop,
    RespondLate(u64, Vec<u8>),
    /// the application keeps the request object until the case takes it (`App::held`)
    Hold,
}

#[derive(Default)]
struct App {
    /// TALK: what the application does with a request, by request body
    plan: HashMap<Vec<u8>, Behave>,
    /// TALK requests delivered to the application: protocol, body, requester
    delivered: Vec<(Vec<u8>, Vec<u8>, NodeId)>,
    /// request objects the application holds, by request body, with the time of delivery
    held: HashMap<Vec<u8>, Vec<(discv5::TalkRequest, Instant)>>,
    socket_updated: Vec<SocketAddr>,
    sessions: Vec<(NodeId, SocketAddr)>,
}

struct Node {
    disc: Discv5,
    /// the record the node was started with
    enr: Enr,
    id: NodeId,
    /// the socket it listens on (for a wildcard socket: 127.0.0.1 and the port)
    sock: SocketAddr,
    app: Arc<Mutex<App>>,
}

impl Node {
    /// The application subscribes to the event stream and handles TALK requests as planned.
    async fn attach_app(&self) -> bool {
        let rx = match within(Duration::from_secs(5), self.disc.event_stream()).await {
            Some(Ok(rx)) => rx,
            _ => return false,
        };
        let app = self.app.clone();
        tokio::spawn(async move {
            let mut rx = rx;
            while let Some(ev) = rx.recv().await {
                match ev {
                    Event::TalkRequest(req) => {
                        let b = {
                            let mut a = app.lock();
                            a.delivered.push((req.protocol().to_vec(), req.body().to_vec(), *req.node_id()));
                            a.plan.get(req.body()).cloned()
                        };
                        match b {
                            Some(Behave::Respond(p)) => {
                                let _ = req.respond(p);
                            }
                            Some(Behave::RespondLate(ms, p)) => {
                                tokio::spawn(async move {
                                    tokio::time::sleep(Duration::from_millis(ms)).await;
                                    let _ = req.respond(p);
                                });
                            }
                            Some(Behave::Hold) => {
                                let body = req.body().to_vec();
                                app.lock().held.entry(body).or_default().push((req, Instant::now()));
                            }
                            Some(Behave::Drop) | None => drop(req),
                        }
                    }
                    Event::SocketUpdated(a) => app.lock().socket_updated.push(a),
                    Event::SessionEstablished(enr, a) => app.lock().sessions.push((enr.node_id(), a)),
                    _ => {}
                }
            }
        });
        true
    }
}

async fn within<T>(d: Duration, f: impl std::future::Future<Output = T>) -> Option<T> {
    tokio::time::timeout(d, f).await.ok()
}

enum Listen {
    /// `ListenConfig::Ipv4` on the node's IP
    V4,
    /// `ListenConfig::FromSockets` with one IPv6 socket bound to [::] (dual stack)
    Wildcard6,
    /// `ListenConfig::FromSockets` with an IPv4 socket on 127.0.0.1 and an IPv6 socket bound to [::] on the next port
    Both,
    /// `ListenConfig::Ipv6` on ::1
    V6,
    /// an IPv4 socket on the node's IP and an IPv6 socket on ::1 with the same port: `ListenConfig::DualStack`,
    /// or (true) `ListenConfig::FromSockets` with two sockets the application bound
    Dual(bool),
}

/// Starts a node; `None` after six occupied ports.
async fn start_node(idx: u64, node_no: u8, ip: Ipv4Addr, key: &CombinedKey, cfg: &Cfg, adv: &Advert, listen: Listen, hist: &mut Hist) -> Option<Node> {
    for attempt in 0..6u64 {
        let port = port_for(idx, node_no as u64, attempt);
        let (listen_config, sock): (ListenConfig, SocketAddr) = match listen {
            Listen::V4 => (ListenConfig::Ipv4 { ip, port }, SocketAddr::from((ip, port))),
            Listen::V6 => (ListenConfig::Ipv6 { ip: Ipv6Addr::LOCALHOST, port }, SocketAddr::from((Ipv6Addr::LOCALHOST, port))),
            Listen::Dual(false) => (ListenConfig::DualStack { ipv4: ip, ipv4_port: port, ipv6: Ipv6Addr::LOCALHOST, ipv6_port: port }, SocketAddr::from((ip, port))),
            Listen::Dual(true) => {
                let mk = |a: SocketAddr| -> Option<Arc<tokio::net::UdpSocket>> {
                    let s = StdUdp::bind(a).ok()?;
                    s.set_nonblocking(true).ok()?;
                    Some(Arc::new(tokio::net::UdpSocket::from_std(s).ok()?))
                };
                match (mk(SocketAddr::from((ip, port))), mk(SocketAddr::from((Ipv6Addr::LOCALHOST, port)))) {
                    (Some(s4), Some(s6)) => (ListenConfig::FromSockets { ipv4: Some(s4), ipv6: Some(s6) }, SocketAddr::from((ip, port))),
                    _ => {
                        hist.add("e2e:bind_retries");
                        continue;
                    }
                }
            }
            Listen::Wildcard6 | Listen::Both => {
                let mk6 = |p: u16| -> Option<Arc<tokio::net::UdpSocket>> {
                    let s = StdUdp::bind((Ipv6Addr::UNSPECIFIED, p)).ok()?;
                    s.set_nonblocking(true).ok()?;
                    Some(Arc::new(tokio::net::UdpSocket::from_std(s).ok()?))
                };
                if matches!(listen, Listen::Wildcard6) {
                    match mk6(port) {
                        Some(s6) => (ListenConfig::FromSockets { ipv4: None, ipv6: Some(s6) }, SocketAddr::from((Ipv4Addr::LOCALHOST, port))),
                        None => {
                            hist.add("e2e:bind_retries");
                            continue;
                        }
                    }
                } else {
                    let s4 = (|| {
                        let s = StdUdp::bind((Ipv4Addr::LOCALHOST, port)).ok()?;
                        s.set_nonblocking(true).ok()?;
                        Some(Arc::new(tokio::net::UdpSocket::from_std(s).ok()?))
                    })();
                    match (s4, mk6(port + 1)) {
                        (Some(s4), Some(s6)) => (ListenConfig::FromSockets { ipv4: Some(s4), ipv6: Some(s6) }, SocketAddr::from((Ipv4Addr::LOCALHOST, port))),
                        _ => {
                            hist.add("e2e:bind_retries");
                            continue;
                        }
                    }
                }
            }
        };
        let enr = make_enr(key, ip, port, adv);
        let config = cfg.build(listen_config);
        let mut disc = {
            let _g = BAN_GATE.read().await;
            match Discv5::new(enr.clone(), clone_key(key), config) {
                Ok(d) => d,
                Err(e) => panic!("Discv5::new: {}", e),
            }
        };
        match within(Duration::from_secs(10), disc.start()).await {
            Some(Ok(())) => {
                let id = enr.node_id();
                return Some(Node { disc, enr, id, sock, app: Default::default() });
            }
            _ => {
                hist.add("e2e:bind_retries");
                drop(disc);
                tokio::time::sleep(Duration::from_millis(2)).await;
            }
        }
    }
    None
}

/// A bound UDP socket that never answers, with a record that advertises it.
struct Silent {
    sock: StdUdp,
    enr: Enr,
    addr: SocketAddr,
}

fn start_silent(idx: u64, node_no: u8, ip: Ipv4Addr, key: &CombinedKey, hist: &mut Hist) -> Option<Silent> {
    for attempt in 0..6u64 {
        let port = port_for(idx, node_no as u64, attempt);
        match StdUdp::bind((ip, port)) {
            Ok(sock) => {
                sock.set_nonblocking(true).ok()?;
                let enr = make_enr(key, ip, port, &Advert::Honest);
                return Some(Silent { sock, enr, addr: SocketAddr::from((ip, port)) });
            }
            Err(_) => hist.add("e2e:bind_retries"),
        }
    }
    None
}

impl Silent {
    /// the datagrams received so far: (count, all from `from`)
    fn drain(&self, from: SocketAddr, count: &mut u64, foreign: &mut u64) {
        let mut buf = [0u8; 2048];
        while let Ok((_, src)) = self.sock.recv_from(&mut buf) {
            if src == from {
                *count += 1;
            } else {
                *foreign += 1;
            }
        }
    }
}

// ------------------------------------------------------------------------------------------------
// results of a case

struct Failure {
    props: Vec<&'static str>,
    /// stable text (part of the signature)
    class: String,
    /// the concrete values
    detail: String,
}

struct CaseOut {
    kind: &'static str,
    variant: String,
    config: Vec<String>,
    ops: Vec<String>,
    observed: Vec<String>,
    failures: Vec<Failure>,
    hist: Hist,
}

impl CaseOut {
    fn new(kind: &'static str) -> CaseOut {
        CaseOut { kind, variant: String::new(), config: vec![], ops: vec![], observed: vec![], failures: vec![], hist: Hist::default() }
    }
    fn fail(&mut self, props: &[&'static str], class: impl Into<String>, detail: impl Into<String>) {
        let (class, detail) = (class.into(), detail.into());
        self.observed.push(format!("FAILURE {:?}: {} [{}]", props, class, detail));
        self.failures.push(Failure { props: props.to_vec(), class, detail });
    }
    fn skipped(mut self, why: &str) -> CaseOut {
        self.hist.add(&format!("e2e:case_skipped_{}", why));
        self.observed.push(format!("case skipped: {}", why));
        self
    }
}

enum Outcome<T> {
    Ok(T),
    Err(String),
    /// the call did not return at all within the waiting time
    Hung,
}

async fn call<T, E: std::fmt::Debug>(wait: Duration, f: impl std::future::Future<Output = Result<T, E>>) -> (Outcome<T>, Duration) {
    let t0 = Instant::now();
    let r = match within(wait, f).await {
        Some(Ok(v)) => Outcome::Ok(v),
        Some(Err(e)) => Outcome::Err(format!("{:?}", e)),
        None => Outcome::Hung,
    };
    (r, t0.elapsed())
}

fn hexs(b: &[u8]) -> String {
    if b.len() <= 12 {
        hex::encode(b)
    } else {
        format!("{}..({} bytes)", hex::encode(&b[..8]), b.len())
    }
}

// ------------------------------------------------------------------------------------------------
// kind `basic`

#[derive(Clone, Debug, PartialEq, Eq)]
enum Adv {
    None,
    BanIp,
    BanNode,
    BanBoth,
    Limit(Limit),
}

impl Adv {
    fn bans(&self) -> bool {
        matches!(self, Adv::BanIp | Adv::BanNode | Adv::BanBoth)
    }
    fn text(&self) -> &'static str {
        match self {
            Adv::None => "no adversity",
            Adv::BanIp => "A's application bans B's IP",
            Adv::BanNode => "A's application bans B's node id",
            Adv::BanBoth => "A's application bans B's IP and node id",
            Adv::Limit(Limit::Ip) => "A's filter admits one unsolicited packet per IP in 20 s",
            Adv::Limit(Limit::Node) => "A's filter admits one unsolicited packet per node id in 20 s",
        }
    }
}

#[derive(Clone, Debug)]
enum Op {
    Ping,
    FindNode(Vec<u64>),
    Talk { enr_less: bool, proto: Vec<u8>, body: Vec<u8>, behave: Behave },
    /// B sends this many PINGs to A (unsolicited traffic at A), not awaited
    PeerPings(u64),
}

fn op_text(op: &Op) -> String {
    op_text_between(op, "A", "B")
}

fn op_text_between(op: &Op, a: &str, b: &str) -> String {
    match op {
        Op::Ping => format!("{}.send_ping({})", a, b),
        Op::FindNode(d) => format!("{}.find_node_designated_peer({}, {:?})", a, b, d),
        Op::Talk { enr_less, proto, body, behave } => format!(
            "{}.talk_req({}, protocol {}, request {}); {}'s application {}",
            a,
            if *enr_less { format!("NodeContact::new({}'s key, {}'s socket, no record)", b, b) } else { format!("{}'s record", b) },
            hexs(proto),
            hexs(body),
            b,
            match behave {
                Behave::Respond(p) => format!("responds {}", hexs(p)),
                Behave::Drop => "drops the request".into(),
                Behave::RespondLate(ms, p) => format!("responds {} after {} ms", hexs(p), ms),
                Behave::Hold => "holds the request".into(),
            }
        ),
        Op::PeerPings(k) => format!("{}.send_ping({}) x {} (not awaited)", b, a, k),
    }
}

struct BasicPlan {
    a_cfg: Cfg,
    adv: Adv,
    /// the ban is put in place before this operation
    ban_at: usize,
    /// B's application reads its event stream
    b_app: bool,
    /// records added to B's table
    table: Vec<Enr>,
    key_a: CombinedKey,
    key_b: CombinedKey,
    ops: Vec<Op>,
}

fn gen_distances(rng: &mut Rng) -> Vec<u64> {
    let mut d = vec![];
    for x in [0u64, 256, 255, 254, 253] {
        if rng.chance(1, 2) {
            d.push(x);
        }
    }
    if rng.chance(1, 4) {
        d.push(rng.range(1, 252));
    }
    if d.is_empty() {
        d.push(*rng.pick(&[0u64, 256]));
    }
    if rng.chance(1, 4) {
        let x = *rng.pick(&d);
        d.push(x);
    }
    // unsorted
    for i in (1..d.len()).rev() {
        let j = rng.below(i as u64 + 1) as usize;
        d.swap(i, j);
    }
    d
}

fn gen_talk(rng: &mut Rng, tag: u64) -> Op {
    let plen = rng.range(0, 8) as usize;
    let proto = rng.bytes(plen);
    // the body starts with a tag that is unique within the case
    let mut body = vec![0xE2, tag as u8];
    let n = if rng.chance(1, 5) { rng.range(200, 900) } else { rng.range(0, 40) } as usize;
    body.extend(rng.bytes(n));
    let resp = |rng: &mut Rng| {
        let n = if rng.chance(1, 5) { rng.range(200, 900) } else { rng.range(0, 40) } as usize;
        rng.bytes(n)
    };
    let behave = match rng.weighted(&[5, 3, 2]) {
        0 => Behave::Respond(resp(rng)),
        1 => Behave::Drop,
        _ => Behave::RespondLate(rng.range(50, 400), resp(rng)),
    };
    Op::Talk { enr_less: rng.chance(1, 3), proto, body, behave }
}

/// The size of the datagram that carries `msg` on an established session, from the real codec
/// (`Message::encode`, 16 bytes of authentication tag, `Packet::encode` of a message packet).
fn session_datagram_len(msg: discv5::verif::rpc::Message) -> usize {
    use discv5::verif::packet::{packet_encode, KindDesc, PacketDesc};
    let m = msg.encode();
    let desc = PacketDesc { iv: 0, message_nonce: [0; 12], kind: KindDesc::Message { src_id: [1; 32] }, message: vec![0; m.len() + 16] };
    packet_encode(&desc, &[2; 32]).len()
}

/// request ids of the service are 8 bytes (`RequestId::random`)
fn talk_req_datagram_len(proto: &[u8], body_len: usize) -> usize {
    use discv5::verif::rpc::{Message, Request, RequestBody, RequestId};
    session_datagram_len(Message::Request(Request { id: RequestId(vec![0xAB; 8]), body: RequestBody::Talk { protocol: proto.to_vec(), request: vec![0x55; body_len] } }))
}

fn talk_resp_datagram_len(payload_len: usize) -> usize {
    use discv5::verif::rpc::{Message, RequestId, Response, ResponseBody};
    session_datagram_len(Message::Response(Response { id: RequestId(vec![0xAB; 8]), body: ResponseBody::Talk { response: vec![0x55; payload_len] } }))
}

/// the length in 600..1300 for which `len_of` gives exactly `target`
fn length_for(target: usize, len_of: impl Fn(usize) -> usize) -> Option<usize> {
    let base = len_of(1000);
    let guess = (1000 + target).checked_sub(base)?;
    if len_of(guess) == target {
        return Some(guess);
    }
    (600..1300).find(|n| len_of(*n) == target)
}

/// A TALK round trip on an established session whose request and / or response fill a datagram up
/// to the maximum packet size (1280 bytes) or stay one or two bytes below it.
fn gen_talk_limit(rng: &mut Rng, tag: u64, exact: bool) -> Op {
    let plen = rng.range(0, 8) as usize;
    let proto = rng.bytes(plen);
    let which = rng.weighted(&[2, 4, 2]);
    let (big_req, big_resp) = (which != 1, which != 0);
    let pick_target = |rng: &mut Rng| 1280 - if exact { 0 } else { rng.weighted(&[3, 1, 1]) };
    let mut body = vec![0xE2, tag as u8];
    let n_req = if big_req {
        let t = pick_target(rng);
        length_for(t, |n| talk_req_datagram_len(&proto, n)).unwrap_or(900)
    } else {
        2 + rng.range(0, 40) as usize
    };
    body.extend(rng.bytes(n_req.saturating_sub(2)));
    let n_resp = if big_resp {
        let t = pick_target(rng);
        length_for(t, talk_resp_datagram_len).unwrap_or(900)
    } else {
        rng.range(0, 40) as usize
    };
    let resp = rng.bytes(n_resp);
    let behave = if rng.chance(3, 4) { Behave::Respond(resp) } else { Behave::RespondLate(rng.range(50, 400), resp) };
    Op::Talk { enr_less: rng.chance(1, 3), proto, body, behave }
}

/// the sizes of the datagrams of a TALK round trip on an established session (for the report)
fn talk_sizes_text(proto: &[u8], body: &[u8], behave: &Behave) -> String {
    let resp = match behave {
        Behave::Respond(p) | Behave::RespondLate(_, p) => format!(", the TALKRESP with the application's payload one of {} bytes", talk_resp_datagram_len(p.len())),
        _ => String::new(),
    };
    format!("on an established session the TALKREQ is a datagram of {} bytes{}; the maximum packet size is 1280 bytes", talk_req_datagram_len(proto, body.len()), resp)
}

fn gen_basic(rng: &mut Rng, idx: u64, focus: Option<&str>) -> BasicPlan {
    // the first case under focus C20: no adversity, a TALK round trip with a datagram of exactly the maximum packet size
    let opening = focus == Some("C20") && idx == 0;
    let adverse = match focus {
        Some("C13") | Some("C04") => rng.chance(4, 5),
        _ => rng.chance(1, 3),
    } && !opening;
    let adv = if adverse {
        match rng.weighted(&[3, 2, 2, 2, 2]) {
            0 => Adv::BanIp,
            1 => Adv::BanNode,
            2 => Adv::BanBoth,
            3 => Adv::Limit(Limit::Ip),
            _ => Adv::Limit(Limit::Node),
        }
    } else {
        Adv::None
    };
    let mut a_cfg = Cfg::generous();
    a_cfg.filter = rng.chance(1, 2) || matches!(adv, Adv::Limit(_));
    if let Adv::Limit(l) = &adv {
        a_cfg.limiter = Some(l.clone());
    }
    // the per-peer timeout of lookups and the request timeout are different things
    a_cfg.query_peer_timeout_ms = Some(if rng.chance(1, 2) { 300 } else { 9000 });
    let talk_w = if focus == Some("C20") { 8 } else { 3 };
    let n_ops = rng.range(3, 7);
    let mut ops = vec![];
    for k in 0..n_ops {
        let w = [3, 3, talk_w, if matches!(adv, Adv::Limit(_)) { 3 } else { 0 }];
        ops.push(match rng.weighted(&w) {
            0 => Op::Ping,
            1 => Op::FindNode(gen_distances(rng)),
            2 => gen_talk(rng, k),
            _ => Op::PeerPings(rng.range(2, 4)),
        });
    }
    if matches!(adv, Adv::Limit(_)) && !ops.iter().take(ops.len() - 1).any(|o| matches!(o, Op::PeerPings(_))) {
        // the limit is reached before the last request of A at the latest
        let at = rng.below(ops.len() as u64) as usize;
        ops.insert(at, Op::PeerPings(3));
    }
    // TALK round trips that fill a datagram: only on an established session (a handshake packet
    // with such a message would exceed the maximum packet size), so a PING comes first
    let limit_talks = if adv == Adv::None && (rng.chance(if focus == Some("C20") { 2 } else { 1 }, 3) || opening) { rng.range(1, 2) } else { 0 };
    if limit_talks > 0 {
        ops.insert(0, Op::Ping);
        for j in 0..limit_talks {
            let at = rng.range(1, ops.len() as u64) as usize;
            ops.insert(at, gen_talk_limit(rng, 100 + j, opening && j == 0));
        }
    }
    let n_table = rng.range(0, 6);
    let table = (0..n_table)
        .map(|i| {
            let k = key_from(rng);
            make_enr(&k, Ipv4Addr::new(10, (idx % 200) as u8, i as u8, 1), 9000 + i as u16, &Advert::Honest)
        })
        .collect();
    BasicPlan { a_cfg, ban_at: if adv.bans() { rng.below(2) as usize } else { 0 }, adv, b_app: rng.chance(5, 6) || limit_talks > 0, table, key_a: key_from(rng), key_b: key_from(rng), ops }
}

fn log2_distance(a: &NodeId, b: &NodeId) -> u64 {
    Key::from(*a).log2_distance(&Key::from(*b)).unwrap_or(0)
}

fn enr_set(v: &[Enr]) -> Vec<String> {
    let mut s: Vec<String> = v.iter().map(|e| format!("{}#{}", hex::encode(&e.node_id().raw()[..6]), e.seq())).collect();
    s.sort();
    s
}

fn same_records(a: &[Enr], b: &[Enr]) -> bool {
    let key = |e: &Enr| (e.node_id().raw(), e.seq(), e.to_base64());
    let mut x: Vec<_> = a.iter().map(key).collect();
    let mut y: Vec<_> = b.iter().map(key).collect();
    x.sort();
    y.sort();
    x == y
}

/// The stable text of a failed round trip with a live, honest node.
fn lost_class(what: &str, exempt: bool, hung: bool) -> String {
    let tail = if hung { "had no outcome at all" } else { "failed" };
    if exempt {
        format!("{} to a live, honest node {} while the node's application had banned the peer or its filter limited unsolicited traffic (answers to one's own requests are exempt from the filter)", what, tail)
    } else {
        format!("{} to a live, honest node {}", what, tail)
    }
}

/// The stable text of a failed round trip with a live, honest node right after a datagram of the
/// node under test could not be sent.
fn lost_after_sendfail(what: &str, hung: bool) -> String {
    format!("{} {} although both nodes are alive: the datagram followed one that the send task of the node under test could not send (another destination); every datagram a node puts on the wire is the encoding of the packet for its destination, whatever happened to earlier ones", what, if hung { "had no outcome at all" } else { "failed" })
}

/// The stable text of a failed round trip whose datagrams arrive on the second socket of a node
/// that listens on two.
fn lost_second_socket(what: &str, hung: bool) -> String {
    format!("{} {} although both nodes are alive: one of the two listens on an IPv4 and an IPv6 socket and the datagrams of this exchange arrive on its IPv6 socket (a peer on the IPv4 socket is served at the same time); a datagram is decoded as it arrived, whichever socket it arrived on", what, if hung { "had no outcome at all" } else { "failed" })
}

#[derive(Clone, Copy, PartialEq, Eq)]
enum LostCtx {
    Plain,
    AfterSendfail,
    SecondSocket,
}

/// The checks of one TALK round trip (requester's side and the serving application's side).
fn check_talk(out: &mut CaseOut, who: &str, extra: &[&'static str], adversity: &str, r: Outcome<Vec<u8>>, dt: Duration, body: &[u8], proto: &[u8], behave: &Behave, app_reads: bool, app: &Arc<Mutex<App>>, requester: NodeId) {
    check_talk_ctx(out, who, extra, adversity, r, dt, body, proto, behave, app_reads, app, requester, LostCtx::Plain)
}

#[allow(clippy::too_many_arguments)]
fn check_talk_ctx(out: &mut CaseOut, who: &str, extra: &[&'static str], adversity: &str, r: Outcome<Vec<u8>>, dt: Duration, body: &[u8], proto: &[u8], behave: &Behave, app_reads: bool, app: &Arc<Mutex<App>>, requester: NodeId, ctx: LostCtx) {
    let lost = |hung: bool| match ctx {
        LostCtx::AfterSendfail => lost_after_sendfail(&format!("TALK request of {}", who), hung),
        LostCtx::SecondSocket => lost_second_socket(&format!("TALK request of {}", who), hung),
        LostCtx::Plain => lost_class(&format!("TALK request of {}", who), !extra.is_empty(), hung),
    };
    let expected: Vec<u8> = match behave {
        _ if !app_reads => vec![],
        Behave::Respond(p) | Behave::RespondLate(_, p) => p.clone(),
        Behave::Drop | Behave::Hold => vec![],
    };
    let mut props = vec!["C20", "C04"];
    props.extend_from_slice(extra);
    match r {
        Outcome::Ok(resp) => {
            out.observed.push(format!("-> Ok({}) after {} ms", hexs(&resp), dt.as_millis()));
            if resp != expected {
                out.fail(&["C20"], format!("TALK: {} received another payload than the serving application gave (empty when it drops the request)", who), format!("expected {} received {}", hex::encode(&expected), hex::encode(&resp)));
            }
        }
        Outcome::Err(e) => {
            out.observed.push(format!("-> Err({}) after {} ms", e, dt.as_millis()));
            out.fail(&props, lost(false), format!("{} after {} ms ({})", e, dt.as_millis(), adversity));
        }
        Outcome::Hung => {
            out.observed.push(format!("-> no outcome after {} ms", dt.as_millis()));
            out.fail(&props, lost(true), format!("waited {} ms ({})", dt.as_millis(), adversity));
        }
    }
    if app_reads {
        let a = app.lock();
        let got: Vec<_> = a.delivered.iter().filter(|(_, b, _)| b == body).collect();
        if got.is_empty() {
            out.fail(&["C20"], "TALK: the request was never delivered to the serving application", format!("request {}", hexs(body)));
        } else if got.iter().any(|(p, _, n)| p != proto || *n != requester) {
            out.fail(&["C20"], "TALK: the request was delivered with another protocol or requester", format!("request {}", hexs(body)));
        }
    }
}

async fn run_basic(env: Env, idx: u64, p: BasicPlan) -> CaseOut {
    let mut out = CaseOut::new("basic");
    out.variant = format!("{}{}", p.adv.text(), if p.a_cfg.filter { ", filter on" } else { ", filter off" });
    let (ip_a, ip_b) = (ip_for(env, idx, 1), ip_for(env, idx, 2));
    let adv = if p.adv.bans() && !matches!(p.adv, Adv::BanNode) && !env.multi_ip { Adv::BanNode } else { p.adv.clone() };
    let b_cfg = Cfg::generous();
    out.config.push(format!("A {}: {}", ip_a, p.a_cfg.text()));
    out.config.push(format!("B {}: {}; {} records in its table; application {}", ip_b, b_cfg.text(), p.table.len(), if p.b_app { "reads the event stream" } else { "never asked for the event stream" }));
    out.config.push(format!("{}{}", adv.text(), if adv.bans() { format!(" before operation {}", p.ban_at) } else { String::new() }));
    let mut hist = Hist::default();
    let a = start_node(idx, 1, ip_a, &p.key_a, &p.a_cfg, &Advert::Honest, Listen::V4, &mut hist).await;
    let b = start_node(idx, 2, ip_b, &p.key_b, &b_cfg, &Advert::Honest, Listen::V4, &mut hist).await;
    out.hist = hist;
    let (a, b) = match (a, b) {
        (Some(a), Some(b)) => (a, b),
        _ => return out.skipped("bind_failed"),
    };
    if p.b_app && !b.attach_app().await {
        return out.skipped("no_event_stream");
    }
    let mut in_table: Vec<Enr> = vec![];
    for e in &p.table {
        if b.disc.add_enr(e.clone()).is_ok() {
            in_table.push(e.clone());
        }
    }
    out.config.push(format!("A listens on {}, B on {}; distances of B's records: {:?}", a.sock, b.sock, in_table.iter().map(|e| log2_distance(&b.id, &e.node_id())).collect::<Vec<_>>()));
    let wait = p.a_cfg.give_up() + Duration::from_secs(3);
    let mut gate = None;
    let mut adversity_active = matches!(adv, Adv::Limit(_));
    for (k, op) in p.ops.iter().enumerate() {
        if out.failures.iter().any(|f| f.props.contains(&"C04")) {
            // a request to the live node failed: the rest of the list adds nothing
            break;
        }
        if adv.bans() && k == p.ban_at {
            if FAILED_BAN_SECTIONS.load(std::sync::atomic::Ordering::SeqCst) >= 2 {
                out.hist.add("e2e:ban_section_skipped_after_two_failing_ones");
                break;
            }
            gate = Some(BAN_GATE.write().await);
            if matches!(adv, Adv::BanIp | Adv::BanBoth) {
                a.disc.ban_ip(IpAddr::V4(ip_b), None);
            }
            if matches!(adv, Adv::BanNode | Adv::BanBoth) {
                a.disc.ban_node(&b.id, None);
            }
            adversity_active = true;
            out.ops.push(format!("[{}]", adv.text()));
        }
        out.ops.push(op_text(op));
        out.observed.push(format!("{}:", op_text(op)));
        out.hist.add(&format!("e2e:basic_op_{}", match op { Op::Ping => "ping", Op::FindNode(_) => "findnode", Op::Talk { .. } => "talk", Op::PeerPings(_) => "peer_pings" }));
        let adversity = if adversity_active { adv.text() } else { "no adversity" };
        let extra: &[&'static str] = if adversity_active { &["C13"] } else { &[] };
        match op {
            Op::Ping => {
                let (r, dt) = call(wait, a.disc.send_ping(b.enr.clone())).await;
                let mut props = vec!["C14", "C04"];
                props.extend_from_slice(extra);
                match r {
                    Outcome::Ok(pong) => {
                        out.observed.push(format!("-> Ok(PONG seq {} ip {} port {}) after {} ms", pong.enr_seq, pong.ip, pong.port, dt.as_millis()));
                        let seq = b.disc.local_enr().seq();
                        if SocketAddr::new(pong.ip, pong.port) != a.sock || pong.enr_seq != seq {
                            out.fail(&["C14"], "PONG does not carry the responder's sequence number and exactly the source the PING came from", format!("PING from {} to a node with seq {}: PONG seq {} ip {} port {}", a.sock, seq, pong.enr_seq, pong.ip, pong.port));
                        }
                    }
                    Outcome::Err(e) => {
                        out.observed.push(format!("-> Err({}) after {} ms", e, dt.as_millis()));
                        out.fail(&props, lost_class("PING", adversity_active, false), format!("{} after {} ms ({})", e, dt.as_millis(), adversity));
                    }
                    Outcome::Hung => {
                        out.observed.push(format!("-> no outcome after {} ms", dt.as_millis()));
                        out.fail(&props, lost_class("PING", adversity_active, true), format!("waited {} ms ({})", dt.as_millis(), adversity));
                    }
                }
            }
            Op::FindNode(ds) => {
                let (r, dt) = call(wait, a.disc.find_node_designated_peer(b.enr.clone(), ds.clone())).await;
                let mut props = vec!["C14", "C04"];
                props.extend_from_slice(extra);
                match r {
                    Outcome::Ok(nodes) => {
                        let mut expected: Vec<Enr> = in_table.iter().filter(|e| ds.contains(&log2_distance(&b.id, &e.node_id()))).cloned().collect();
                        if ds.contains(&0) {
                            expected.push(b.disc.local_enr());
                        }
                        out.observed.push(format!("-> Ok({:?}) after {} ms", enr_set(&nodes), dt.as_millis()));
                        if !same_records(&nodes, &expected) {
                            out.fail(&["C14"], "FINDNODE answer is not exactly the table entries at the requested distances (own record iff distance 0, never the requester)", format!("distances {:?}: expected {:?} received {:?}", ds, enr_set(&expected), enr_set(&nodes)));
                        }
                    }
                    Outcome::Err(e) => {
                        out.observed.push(format!("-> Err({}) after {} ms", e, dt.as_millis()));
                        out.fail(&props, lost_class("FINDNODE", adversity_active, false), format!("{} after {} ms ({})", e, dt.as_millis(), adversity));
                    }
                    Outcome::Hung => {
                        out.observed.push(format!("-> no outcome after {} ms", dt.as_millis()));
                        out.fail(&props, lost_class("FINDNODE", adversity_active, true), format!("waited {} ms ({})", dt.as_millis(), adversity));
                    }
                }
            }
            Op::Talk { enr_less, proto, body, behave } => {
                b.app.lock().plan.insert(body.clone(), behave.clone());
                let contact = if *enr_less { NodeContact::new(b.enr.public_key(), b.sock, None) } else { NodeContact::new(b.enr.public_key(), b.sock, Some(b.enr.clone())) };
                let (r, dt) = call(wait, a.disc.talk_req(contact, proto.clone(), body.clone())).await;
                let mut adversity = adversity.to_string();
                if body.len() > 1000 || matches!(behave, Behave::Respond(x) | Behave::RespondLate(_, x) if x.len() > 1000) {
                    out.hist.add("e2e:basic_talk_datagram_at_the_maximum_packet_size");
                    out.observed.push(talk_sizes_text(proto, body, behave));
                    adversity = format!("{}; {}", adversity, talk_sizes_text(proto, body, behave));
                }
                check_talk(&mut out, "A", extra, &adversity, r, dt, body, proto, behave, p.b_app, &b.app, a.id);
            }
            Op::PeerPings(n) => {
                for _ in 0..*n {
                    let f = b.disc.send_ping(a.enr.clone());
                    tokio::spawn(async move {
                        let _ = within(Duration::from_secs(6), f).await;
                    });
                    tokio::time::sleep(Duration::from_millis(40)).await;
                }
            }
        }
    }
    if gate.is_some() && !out.failures.is_empty() {
        FAILED_BAN_SECTIONS.fetch_add(1, std::sync::atomic::Ordering::SeqCst);
    }
    // the application's bans and the ones the filter made are lifted again
    {
        let mut l = discv5::verif::filter::PERMIT_BAN_LIST.write();
        l.ban_ips.remove(&IpAddr::V4(ip_b));
        l.ban_nodes.remove(&b.id);
        l.ban_nodes.remove(&a.id);
        if env.multi_ip {
            l.ban_ips.remove(&IpAddr::V4(ip_a));
        }
    }
    drop(gate);
    drop(a);
    drop(b);
    out
}

// ------------------------------------------------------------------------------------------------
// kind `silent`

struct SilentPlan {
    a_cfg: Cfg,
    key_a: CombinedKey,
    key_s: CombinedKey,
    /// 0 PING, 1 FINDNODE, 2 TALK
    req: u64,
}

fn gen_silent(rng: &mut Rng) -> SilentPlan {
    let mut a_cfg = Cfg::generous();
    a_cfg.request_timeout_ms = rng.range(300, 600);
    a_cfg.retries = rng.range(0, 2) as u8;
    // the per-peer timeout of lookups is another parameter: much smaller or much larger
    a_cfg.query_peer_timeout_ms = Some(if rng.chance(2, 3) { a_cfg.request_timeout_ms / 4 } else { a_cfg.request_timeout_ms * 8 });
    a_cfg.query_timeout_ms = Some(60_000);
    a_cfg.filter = rng.chance(1, 2);
    SilentPlan { a_cfg, key_a: key_from(rng), key_s: key_from(rng), req: rng.below(3) }
}

async fn run_silent(env: Env, idx: u64, p: SilentPlan) -> CaseOut {
    let mut out = CaseOut::new("silent");
    let req_name = ["PING", "FINDNODE", "TALK"][p.req as usize];
    out.variant = format!("{} retries {}", req_name, p.a_cfg.retries);
    let (ip_a, ip_s) = (ip_for(env, idx, 1), ip_for(env, idx, 20));
    out.config.push(format!("A {}: {}", ip_a, p.a_cfg.text()));
    let mut hist = Hist::default();
    let a = start_node(idx, 1, ip_a, &p.key_a, &p.a_cfg, &Advert::Honest, Listen::V4, &mut hist).await;
    let s = start_silent(idx, 20, ip_s, &p.key_s, &mut hist);
    out.hist = hist;
    let (a, s) = match (a, s) {
        (Some(a), Some(s)) => (a, s),
        _ => return out.skipped("bind_failed"),
    };
    out.config.push(format!("A listens on {}; S = a bound UDP socket on {} that never answers", a.sock, s.addr));
    let wait = p.a_cfg.give_up() + Duration::from_secs(6);
    let op = format!("A sends a {} to S", req_name);
    out.ops.push(op.clone());
    let t0 = Instant::now();
    let (r, dt): (Outcome<String>, Duration) = match p.req {
        0 => {
            let (r, dt) = call(wait, a.disc.send_ping(s.enr.clone())).await;
            (match r { Outcome::Ok(v) => Outcome::Ok(format!("{:?}", v)), Outcome::Err(e) => Outcome::Err(e), Outcome::Hung => Outcome::Hung }, dt)
        }
        1 => {
            let (r, dt) = call(wait, a.disc.find_node_designated_peer(s.enr.clone(), vec![0, 256])).await;
            (match r { Outcome::Ok(v) => Outcome::Ok(format!("{:?}", enr_set(&v))), Outcome::Err(e) => Outcome::Err(e), Outcome::Hung => Outcome::Hung }, dt)
        }
        _ => {
            let c = NodeContact::new(s.enr.public_key(), s.addr, Some(s.enr.clone()));
            let (r, dt) = call(wait, a.disc.talk_req(c, b"e2e".to_vec(), vec![1, 2, 3])).await;
            (match r { Outcome::Ok(v) => Outcome::Ok(hex::encode(v)), Outcome::Err(e) => Outcome::Err(e), Outcome::Hung => Outcome::Hung }, dt)
        }
    };
    let _ = t0;
    match &r {
        Outcome::Ok(v) => {
            out.observed.push(format!("{}: -> Ok({}) after {} ms", op, v, dt.as_millis()));
            out.fail(&["C04"], "a request to a socket that never answers was reported as answered", format!("{} -> Ok({})", req_name, v));
        }
        Outcome::Err(e) => {
            out.observed.push(format!("{}: -> Err({}) after {} ms", op, e, dt.as_millis()));
            if e != "Timeout" {
                out.fail(&["C04"], "a request to a socket that never answers failed with another error than a timeout", format!("{} -> Err({})", req_name, e));
            } else if dt + Duration::from_millis(20) < Duration::from_millis(p.a_cfg.request_timeout_ms) {
                out.fail(
                    &["C04"],
                    "a timeout was reported before the request had gone unanswered for a full request_timeout period",
                    format!("{}: Timeout after {} ms; request_timeout {} ms, request_retries {} (query_peer_timeout {:?} ms)", req_name, dt.as_millis(), p.a_cfg.request_timeout_ms, p.a_cfg.retries, p.a_cfg.query_peer_timeout_ms),
                );
            }
        }
        Outcome::Hung => {
            out.observed.push(format!("{}: no outcome after {} ms", op, dt.as_millis()));
            out.fail(&["C04"], "a request to a socket that never answers had no outcome at all", format!("{}: waited {} ms; request_timeout {} ms, request_retries {}", req_name, dt.as_millis(), p.a_cfg.request_timeout_ms, p.a_cfg.retries));
        }
    }
    tokio::time::sleep(Duration::from_millis(50)).await;
    let (mut n, mut foreign) = (0, 0);
    s.drain(a.sock, &mut n, &mut foreign);
    out.observed.push(format!("S received {} datagrams from A", n));
    if n > 1 + p.a_cfg.retries as u64 {
        out.fail(&["C04"], "a request was put on the wire more than 1 + request_retries times", format!("{}: {} datagrams, request_retries {}", req_name, n, p.a_cfg.retries));
    }
    if n == 0 && !matches!(r, Outcome::Ok(_)) {
        out.fail(&["C04"], "a failure was reported for a request that was never put on the wire", format!("{}: 0 datagrams", req_name));
    }
    drop(a);
    out
}

// ------------------------------------------------------------------------------------------------
// kind `lookup`

struct LookupPlan {
    a_cfg: Cfg,
    key_a: CombinedKey,
    key_b: CombinedKey,
    silent_keys: Vec<CombinedKey>,
    /// one live node among the candidates
    live: bool,
    target: [u8; 32],
}

fn gen_lookup(rng: &mut Rng) -> LookupPlan {
    let mut a_cfg = Cfg::generous();
    a_cfg.request_timeout_ms = rng.range(300, 450);
    let par = rng.range(2, 3) as usize;
    a_cfg.parallelism = Some(par);
    let n = rng.range(par as u64 + 1, 7);
    a_cfg.retries = if n <= 5 && rng.chance(1, 3) { 2 } else { rng.range(0, 1) as u8 };
    let give_up = a_cfg.request_timeout_ms * (a_cfg.retries.max(1) as u64);
    a_cfg.query_peer_timeout_ms = Some(if rng.chance(3, 4) { rng.range(100, 200) } else { 4 * give_up });
    a_cfg.query_timeout_ms = Some(if rng.chance(3, 4) { 60_000 } else { rng.range(500, 800) });
    a_cfg.filter = rng.chance(1, 2);
    let mut target = [0u8; 32];
    target.copy_from_slice(&rng.bytes(32));
    LookupPlan { a_cfg, key_a: key_from(rng), key_b: key_from(rng), silent_keys: (0..n).map(|_| key_from(rng)).collect(), live: rng.chance(1, 2), target }
}

async fn run_lookup(env: Env, idx: u64, p: LookupPlan) -> CaseOut {
    let mut out = CaseOut::new("lookup");
    let n = p.silent_keys.len();
    out.variant = format!("query_timeout {} query_peer_timeout {} than the request timeout{}", if p.a_cfg.query_timeout_ms == Some(60_000) { "long" } else { "short" }, if p.a_cfg.query_peer_timeout_ms.unwrap() < p.a_cfg.request_timeout_ms { "shorter" } else { "longer" }, if p.live { ", one live candidate" } else { "" });
    let ip_a = ip_for(env, idx, 1);
    out.config.push(format!("A {}: {}", ip_a, p.a_cfg.text()));
    let mut hist = Hist::default();
    let a = start_node(idx, 1, ip_a, &p.key_a, &p.a_cfg, &Advert::Honest, Listen::V4, &mut hist).await;
    let b = if p.live { start_node(idx, 2, ip_for(env, idx, 2), &p.key_b, &Cfg::generous(), &Advert::Honest, Listen::V4, &mut hist).await } else { None };
    let silents: Vec<Option<Silent>> = p.silent_keys.iter().enumerate().map(|(i, k)| start_silent(idx, 20 + i as u8, ip_for(env, idx, 20 + i as u8), k, &mut hist)).collect();
    out.hist = hist;
    let a = match a {
        Some(a) if silents.iter().all(|s| s.is_some()) && (b.is_some() || !p.live) => a,
        _ => return out.skipped("bind_failed"),
    };
    let silents: Vec<Silent> = silents.into_iter().flatten().collect();
    for s in &silents {
        if a.disc.add_enr(s.enr.clone()).is_err() {
            return out.skipped("table_refused_a_candidate");
        }
    }
    if let Some(b) = &b {
        if a.disc.add_enr(b.enr.clone()).is_err() {
            return out.skipped("table_refused_a_candidate");
        }
    }
    out.config.push(format!("A listens on {}; its table holds the records of {} bound UDP sockets that never answer ({}){}", a.sock, n, silents.iter().map(|s| s.addr.to_string()).collect::<Vec<_>>().join(", "), match &b { Some(b) => format!(" and of the live node B on {} (empty table)", b.sock), None => String::new() }));
    let target = NodeId::new(&p.target);
    let op = format!("A.find_node({})", hex::encode(&p.target[..6]));
    out.ops.push(op.clone());
    let waves = (n as u64 + 1).div_ceil(p.a_cfg.parallelism.unwrap() as u64) + 1;
    let query_timeout = Duration::from_millis(p.a_cfg.query_timeout_ms.unwrap());
    let wait = p.a_cfg.give_up() * waves as u32 + query_timeout.min(Duration::from_secs(2)) + Duration::from_secs(8);
    let (r, dt) = call(wait, a.disc.find_node(target)).await;
    match r {
        Outcome::Ok(found) => {
            out.observed.push(format!("{}: -> {:?} after {} ms", op, enr_set(&found), dt.as_millis()));
            // only nodes that answered the lookup's request are returned
            let responders: Vec<NodeId> = b.iter().map(|b| b.id).collect();
            if found.iter().any(|e| !responders.contains(&e.node_id())) || found.len() > 16 {
                out.fail(&["C10"], "a lookup returned a node that never answered its request", format!("returned {:?}; the only node that answers is {:?}", enr_set(&found), responders.iter().map(|i| hex::encode(&i.raw()[..6])).collect::<Vec<_>>()));
            }
            // grace period for datagrams on their way
            let mut counts = vec![0u64; n];
            let mut foreign = 0u64;
            let t1 = Instant::now();
            loop {
                for (i, s) in silents.iter().enumerate() {
                    s.drain(a.sock, &mut counts[i], &mut foreign);
                }
                if counts.iter().all(|c| *c > 0) || t1.elapsed() > Duration::from_millis(1000) {
                    break;
                }
                tokio::time::sleep(Duration::from_millis(20)).await;
            }
            out.observed.push(format!("datagrams received by the silent candidates: {:?}", counts));
            let never: Vec<String> = silents.iter().zip(&counts).filter(|(_, c)| **c == 0).map(|(s, _)| s.addr.to_string()).collect();
            if !never.is_empty() && found.len() < 16 && dt < query_timeout {
                out.fail(
                    &["C10", "C09"],
                    "a lookup returned fewer than k nodes before the query timeout although candidates it knew from the start were never contacted",
                    format!("returned {} nodes after {} ms; query_timeout {} ms, query_peer_timeout {:?} ms, request_timeout {} ms, retries {}, parallelism {:?}; never contacted: {}", found.len(), dt.as_millis(), query_timeout.as_millis(), p.a_cfg.query_peer_timeout_ms, p.a_cfg.request_timeout_ms, p.a_cfg.retries, p.a_cfg.parallelism, never.join(", ")),
                );
            }
            if let Some(c) = counts.iter().find(|c| **c > 1 + p.a_cfg.retries as u64) {
                out.fail(&["C04", "C09"], "a lookup put its request to one peer on the wire more than 1 + request_retries times", format!("{} datagrams, request_retries {}", c, p.a_cfg.retries));
            }
        }
        Outcome::Err(e) => {
            out.observed.push(format!("{}: -> Err({}) after {} ms", op, e, dt.as_millis()));
            out.fail(&["C09"], "a lookup ended with an error instead of a result", e);
        }
        Outcome::Hung => {
            out.observed.push(format!("{}: no result after {} ms", op, dt.as_millis()));
            out.fail(&["C09"], "a lookup did not hand out a result (neither finished nor cut off by the query timeout)", format!("waited {} ms; query_timeout {} ms, request_timeout {} ms, retries {}, {} silent candidates", dt.as_millis(), query_timeout.as_millis(), p.a_cfg.request_timeout_ms, p.a_cfg.retries, n));
        }
    }
    drop(a);
    drop(b);
    out
}

// ------------------------------------------------------------------------------------------------
// kind `vote`

struct VotePlan {
    min: usize,
    adv: Advert,
    key_a: CombinedKey,
    voter_keys: Vec<CombinedKey>,
    /// how A contacts each voter: true = FINDNODE, false = PING
    contact_by_findnode: Vec<bool>,
    filter: bool,
}

fn gen_vote(rng: &mut Rng) -> VotePlan {
    let min = *rng.pick(&[3usize, 3, 3, 4, 4, 2]);
    VotePlan {
        min,
        adv: if rng.chance(1, 2) { Advert::Nothing } else { Advert::OtherPort },
        key_a: key_from(rng),
        voter_keys: (0..min).map(|_| key_from(rng)).collect(),
        contact_by_findnode: (0..min).map(|_| rng.chance(1, 2)).collect(),
        filter: rng.chance(1, 2),
    }
}

async fn run_vote(env: Env, idx: u64, p: VotePlan) -> CaseOut {
    let mut out = CaseOut::new("vote");
    out.variant = format!("minimum {} record {:?}", p.min, p.adv);
    let mut a_cfg = Cfg::generous();
    a_cfg.peer_update_min = Some(p.min);
    a_cfg.filter = p.filter;
    let ip_a = ip_for(env, idx, 1);
    out.config.push(format!("A {}: {}; its record advertises {}", ip_a, a_cfg.text(), match p.adv { Advert::Nothing => "no address", _ => "its IP with another port" }));
    let mut hist = Hist::default();
    let a = start_node(idx, 1, ip_a, &p.key_a, &a_cfg, &p.adv, Listen::V4, &mut hist).await;
    let mut voters = vec![];
    for (i, k) in p.voter_keys.iter().enumerate() {
        voters.push(start_node(idx, 3 + i as u8, ip_for(env, idx, 3 + i as u8), k, &Cfg::generous(), &Advert::Honest, Listen::V4, &mut hist).await);
    }
    out.hist = hist;
    let a = match a {
        Some(a) if voters.iter().all(|v| v.is_some()) => a,
        _ => return out.skipped("bind_failed"),
    };
    let voters: Vec<Node> = voters.into_iter().flatten().collect();
    if !a.attach_app().await {
        return out.skipped("no_event_stream");
    }
    out.config.push(format!("A listens on {}; {} honest voters on {}", a.sock, voters.len(), voters.iter().map(|v| v.sock.to_string()).collect::<Vec<_>>().join(", ")));
    let start = a.disc.local_enr();
    let (seq0, sock0) = (start.seq(), start.udp4_socket());
    let wait = a_cfg.give_up() + Duration::from_secs(3);
    let mut validated = false;
    // the checks once the record's UDP socket differs from the initial one
    let validate = |out: &mut CaseOut, voters_so_far: usize, a: &Node| {
        let cur = a.disc.local_enr();
        if voters_so_far < p.min {
            out.fail(
                &["C17"],
                "the UDP address of the local record moved although fewer distinct peers than enr_peer_update_min had voted",
                format!("enr_peer_update_min {}: after PONGs of {} peers the record changed from {:?} (seq {}) to {:?} (seq {})", p.min, voters_so_far, sock0, seq0, cur.udp4_socket(), cur.seq()),
            );
        }
        if cur.udp4_socket().map(SocketAddr::V4) != Some(a.sock) {
            out.fail(&["C17"], "the UDP address of the local record moved to an address nobody voted for", format!("every voter observed {}; the record now advertises {:?}", a.sock, cur.udp4_socket()));
        }
        if cur.seq() <= seq0 || !cur.verify() {
            out.fail(&["C17"], "a vote-driven change of the local record did not increase the sequence number or broke the signature", format!("seq {} -> {}, signature valid: {}", seq0, cur.seq(), cur.verify()));
        }
    };
    for (i, v) in voters.iter().enumerate() {
        let by_findnode = p.contact_by_findnode[i];
        let op = format!("A.{}(voter {}), then A.send_ping(voter {})", if by_findnode { "find_node_designated_peer" } else { "send_ping" }, i, i);
        out.ops.push(op.clone());
        let ok = if by_findnode {
            matches!(call(wait, a.disc.find_node_designated_peer(v.enr.clone(), vec![0])).await.0, Outcome::Ok(_))
        } else {
            matches!(call(wait, a.disc.send_ping(v.enr.clone())).await.0, Outcome::Ok(_))
        };
        // a second round trip: the PONG to the service's own PING (sent when the session was
        // established) has been processed when this one returns
        let ok2 = matches!(call(wait, a.disc.send_ping(v.enr.clone())).await.0, Outcome::Ok(_));
        if !(ok && ok2) {
            out.observed.push(format!("{}: failed", op));
            out.fail(&["C14", "C04"], "a request to a live, honest voter failed", format!("voter {} on {}", i, v.sock));
            break;
        }
        tokio::time::sleep(Duration::from_millis(if i + 2 == p.min { 250 } else { 60 })).await;
        let cur = a.disc.local_enr();
        out.observed.push(format!("{}: record of A: udp4 {:?} seq {}", op, cur.udp4_socket(), cur.seq()));
        if cur.udp4_socket() != sock0 && !validated {
            validated = true;
            validate(&mut out, i + 1, &a);
        }
    }
    if !validated && out.failures.is_empty() {
        // every configured voter has been contacted: the record may move now
        let t0 = Instant::now();
        while t0.elapsed() < Duration::from_secs(5) {
            if a.disc.local_enr().udp4_socket() != sock0 {
                validated = true;
                validate(&mut out, voters.len(), &a);
                break;
            }
            tokio::time::sleep(Duration::from_millis(40)).await;
        }
        if !validated {
            out.hist.add("e2e:vote_no_update_although_the_minimum_voted");
            out.observed.push("the record did not move within 5 s".into());
        }
    }
    if validated {
        out.hist.add("e2e:vote_record_moved");
        // the announcement
        let t0 = Instant::now();
        let cur = a.disc.local_enr().udp4_socket().map(SocketAddr::V4);
        loop {
            let ann = a.app.lock().socket_updated.clone();
            if ann.iter().any(|s| Some(*s) == cur) || t0.elapsed() > Duration::from_secs(5) {
                out.observed.push(format!("SocketUpdated events: {:?}", ann));
                if !ann.iter().any(|s| Some(*s) == cur) {
                    out.fail(&["C17"], "a vote-driven change of the local record was not announced as an event", format!("record now {:?}, SocketUpdated events {:?}", cur, ann));
                }
                break;
            }
            tokio::time::sleep(Duration::from_millis(20)).await;
        }
    }
    drop(a);
    drop(voters);
    out
}

// ------------------------------------------------------------------------------------------------
// kind `mapped`

struct MappedPlan {
    key_a: CombinedKey,
    key_b: CombinedKey,
    b_adv: Advert,
    filter: bool,
    table: Vec<Enr>,
    /// 0 PING, 1 FINDNODE, 2 TALK
    ops: Vec<(u64, Vec<u64>, Option<Op>)>,
}

fn gen_mapped(rng: &mut Rng, idx: u64) -> MappedPlan {
    let b_adv = match rng.weighted(&[2, 3, 2]) {
        0 => Advert::Honest,
        1 => Advert::ForeignV6,
        _ => Advert::MappedV6,
    };
    let n_ops = rng.range(2, 4);
    let mut ops = vec![(0, vec![], None)];
    for k in 0..n_ops {
        ops.push(match rng.below(3) {
            0 => (0, vec![], None),
            1 => (1, if rng.chance(1, 2) { vec![0] } else { gen_distances(rng) }, None),
            _ => (2, vec![], Some(gen_talk(rng, k))),
        });
    }
    if rng.chance(1, 2) {
        ops.swap(0, 1);
    }
    let table = (0..rng.range(0, 3))
        .map(|i| {
            let k = key_from(rng);
            let mut b = Enr::builder();
            b.ip6(format!("2001:db8:{:x}::{:x}", idx % 0xffff, i + 1).parse::<Ipv6Addr>().unwrap()).udp6(9000 + i as u16);
            b.build(&k).unwrap()
        })
        .collect();
    MappedPlan { key_a: key_from(rng), key_b: key_from(rng), b_adv, filter: rng.chance(1, 2), table, ops }
}

async fn run_mapped(env: Env, idx: u64, p: MappedPlan) -> CaseOut {
    let mut out = CaseOut::new("mapped");
    out.variant = format!("requester's record {:?}", p.b_adv);
    if !env.dual_stack {
        return out.skipped("no_dual_stack_sockets");
    }
    let mut a_cfg = Cfg::generous();
    a_cfg.filter = p.filter;
    let ip_b = ip_for(env, idx, 2);
    let mut hist = Hist::default();
    // A is reachable by IPv4 peers at 127.0.0.1 (answers of a wildcard socket leave from there)
    let a = start_node(idx, 1, Ipv4Addr::LOCALHOST, &p.key_a, &a_cfg, &Advert::BothLoopback, Listen::Wildcard6, &mut hist).await;
    out.hist = hist;
    let a = match a {
        Some(a) => a,
        None => return out.skipped("bind_failed"),
    };
    let a_enr = a.disc.local_enr();
    let mut hist = Hist::default();
    let b = start_node(idx, 2, ip_b, &p.key_b, &Cfg::generous(), &p.b_adv, Listen::V4, &mut hist).await;
    for (k, v) in &hist.0 {
        out.hist.addn(k, *v);
    }
    let b = match b {
        Some(b) => b,
        None => return out.skipped("bind_failed"),
    };
    if !a.attach_app().await {
        return out.skipped("no_event_stream");
    }
    let mut in_table = vec![];
    for e in &p.table {
        if a.disc.add_enr(e.clone()).is_ok() {
            in_table.push(e.clone());
        }
    }
    out.config.push(format!("A: ListenConfig::FromSockets {{ ipv4: None, ipv6: a UDP socket bound to [::]:{} that also accepts IPv4 traffic }}, IP mode {:?}, {}; record: udp4 {:?} udp6 {:?}; {} records in its table", a.sock.port(), a.disc.ip_mode(), a_cfg.text(), a_enr.udp4_socket(), a_enr.udp6_socket(), in_table.len()));
    out.config.push(format!("B: an IPv4 node on {}; record: udp4 {:?} udp6 {:?}", b.sock, b.enr.udp4_socket(), b.enr.udp6_socket()));
    let observed_src = match b.sock {
        SocketAddr::V4(s) => SocketAddr::V6(SocketAddrV6::new(s.ip().to_ipv6_mapped(), s.port(), 0, 0)),
        s => s,
    };
    let wait = Cfg::generous().give_up() + Duration::from_secs(3);
    for (kind, ds, talk) in &p.ops {
        if out.failures.iter().any(|f| f.props.contains(&"C04")) {
            // a request to the live node failed: the rest of the list adds nothing
            break;
        }
        match (kind, talk) {
            (0, _) => {
                let op = "B.send_ping(A)".to_string();
                out.ops.push(op.clone());
                let (r, dt) = call(wait, b.disc.send_ping(a_enr.clone())).await;
                match r {
                    Outcome::Ok(pong) => {
                        out.observed.push(format!("{}: -> Ok(PONG seq {} ip {} port {}) after {} ms", op, pong.enr_seq, pong.ip, pong.port, dt.as_millis()));
                        let seq = a.disc.local_enr().seq();
                        if SocketAddr::new(pong.ip, pong.port) != b.sock || pong.enr_seq != seq {
                            out.fail(&["C14"], "PONG does not carry the responder's sequence number and exactly the source the PING came from", format!("PING from {} to a node with seq {}: PONG seq {} ip {} port {}", b.sock, seq, pong.enr_seq, pong.ip, pong.port));
                        }
                    }
                    Outcome::Err(e) => {
                        out.observed.push(format!("{}: -> Err({}) after {} ms", op, e, dt.as_millis()));
                        out.fail(&["C14", "C04"], "the PING of an IPv4 requester seen through an application-supplied dual-stack IPv6 socket was not answered", format!("{} after {} ms", e, dt.as_millis()));
                    }
                    Outcome::Hung => {
                        out.fail(&["C14", "C04"], "the PING of an IPv4 requester seen through an application-supplied dual-stack IPv6 socket had no outcome at all", format!("waited {} ms", dt.as_millis()));
                    }
                }
            }
            (1, _) => {
                let op = format!("B.find_node_designated_peer(A, {:?})", ds);
                out.ops.push(op.clone());
                let (r, dt) = call(wait, b.disc.find_node_designated_peer(a_enr.clone(), ds.clone())).await;
                match r {
                    Outcome::Ok(nodes) => {
                        let mut expected: Vec<Enr> = in_table.iter().filter(|e| ds.contains(&log2_distance(&a.id, &e.node_id()))).cloned().collect();
                        if ds.contains(&0) {
                            expected.push(a.disc.local_enr());
                        }
                        out.observed.push(format!("{}: -> Ok({:?}) after {} ms", op, enr_set(&nodes), dt.as_millis()));
                        if !same_records(&nodes, &expected) {
                            out.fail(&["C14"], "FINDNODE answer is not exactly the table entries at the requested distances (own record iff distance 0, never the requester)", format!("distances {:?}: expected {:?} received {:?}", ds, enr_set(&expected), enr_set(&nodes)));
                        }
                    }
                    Outcome::Err(e) => {
                        out.observed.push(format!("{}: -> Err({}) after {} ms", op, e, dt.as_millis()));
                        out.fail(&["C14", "C04"], "the FINDNODE of an IPv4 requester seen through an application-supplied dual-stack IPv6 socket was not answered", format!("{} after {} ms", e, dt.as_millis()));
                    }
                    Outcome::Hung => {
                        out.fail(&["C14", "C04"], "the FINDNODE of an IPv4 requester seen through an application-supplied dual-stack IPv6 socket had no outcome at all", format!("waited {} ms", dt.as_millis()));
                    }
                }
            }
            (_, Some(Op::Talk { proto, body, behave, enr_less })) => {
                out.ops.push(op_text(talk.as_ref().unwrap()).replace("A.talk_req", "B.talk_req").replace("B's application", "A's application").replace("B's record", "A's record").replace("B's key, B's socket", "A's key, A's socket"));
                a.app.lock().plan.insert(body.clone(), behave.clone());
                let contact = NodeContact::new(a_enr.public_key(), a.sock, if *enr_less { None } else { Some(a_enr.clone()) });
                let (r, dt) = call(wait, b.disc.talk_req(contact, proto.clone(), body.clone())).await;
                check_talk(&mut out, "an IPv4 requester seen through a dual-stack IPv6 socket", &[], "no adversity", r, dt, body, proto, behave, true, &a.app, b.id);
            }
            _ => {}
        }
    }
    // admission: B reached A through an incoming session from `observed_src`
    tokio::time::sleep(Duration::from_millis(100)).await;
    for e in a.disc.table_entries_enr() {
        if e.node_id() == b.id {
            let contact = a.disc.ip_mode().get_contactable_addr(&e);
            out.observed.push(format!("B is an entry of A's table; A would contact it at {:?}", contact));
            if contact != Some(observed_src) {
                out.fail(
                    &["C12"],
                    "a node in single-stack operation admitted a peer through an incoming session although the UDP address of its record (in the node's IP mode) is not the address its packets came from",
                    format!("IP mode {:?}; B's packets came from {} (as the socket reports it); its record: udp4 {:?} udp6 {:?}; A would contact it at {:?}", a.disc.ip_mode(), observed_src, e.udp4_socket(), e.udp6_socket(), contact),
                );
            }
        }
    }
    drop(a);
    drop(b);
    out
}

// ------------------------------------------------------------------------------------------------
// kind `crossed`

struct CrossedPlan {
    key_a: CombinedKey,
    key_b: CombinedKey,
    /// 0: everything to A's IPv4 socket, 1: everything to A's IPv6 socket, 2: the first datagram of
    /// B to the IPv4 socket, all later ones (the handshake) to the IPv6 socket
    mode: u64,
    filter: bool,
}

fn gen_crossed(rng: &mut Rng) -> CrossedPlan {
    CrossedPlan { key_a: key_from(rng), key_b: key_from(rng), mode: rng.weighted(&[1, 1, 3]) as u64, filter: rng.chance(1, 2) }
}

async fn run_crossed(env: Env, idx: u64, p: CrossedPlan) -> CaseOut {
    let mut out = CaseOut::new("crossed");
    out.variant = ["forwarder: all to the IPv4 socket", "forwarder: all to the IPv6 socket", "forwarder: handshake to the other socket"][p.mode as usize].to_string();
    if !env.dual_stack {
        return out.skipped("no_dual_stack_sockets");
    }
    // the forwarder X
    let ip_x = ip_for(env, idx, 9);
    let mut proxy = None;
    for attempt in 0..6 {
        if let Ok(s) = tokio::net::UdpSocket::bind((ip_x, port_for(idx, 9, attempt))).await {
            proxy = Some(s);
            break;
        }
        out.hist.add("e2e:bind_retries");
    }
    let proxy = match proxy {
        Some(s) => Arc::new(s),
        None => return out.skipped("bind_failed"),
    };
    let x_addr = proxy.local_addr().unwrap();
    let mut a_cfg = Cfg::generous();
    a_cfg.filter = p.filter;
    let mut b_cfg = Cfg::generous();
    if p.mode == 2 {
        b_cfg.request_timeout_ms = 700;
        b_cfg.retries = 0;
    }
    let mut hist = Hist::default();
    let a = start_node(idx, 1, Ipv4Addr::LOCALHOST, &p.key_a, &a_cfg, &Advert::Fixed(x_addr, false), Listen::Both, &mut hist).await;
    let b = start_node(idx, 2, ip_for(env, idx, 2), &p.key_b, &b_cfg, &Advert::Honest, Listen::V4, &mut hist).await;
    for (k, v) in &hist.0 {
        out.hist.addn(k, *v);
    }
    let (a, b) = match (a, b) {
        (Some(a), Some(b)) => (a, b),
        _ => return out.skipped("bind_failed"),
    };
    if !a.attach_app().await {
        return out.skipped("no_event_stream");
    }
    let a4 = a.sock;
    let a6 = SocketAddr::from((Ipv4Addr::LOCALHOST, a.sock.port() + 1));
    out.config.push(format!("A: ListenConfig::FromSockets {{ ipv4: a socket on {}, ipv6: a socket bound to [::]:{} that also accepts IPv4 traffic }}, {}; its record advertises the forwarder X = {}", a4, a6.port(), a_cfg.text(), x_addr));
    out.config.push(format!("B: an IPv4 node on {}: {}", b.sock, b_cfg.text()));
    out.config.push(format!("X forwards A's datagrams to B and B's datagrams to A: {}", ["all to A's IPv4 socket", "all to A's IPv6 socket", "the first one to A's IPv4 socket, all later ones (the handshake) to A's IPv6 socket; what A sends from its IPv6 socket is lost (no WHOAREYOU to the mapped address ever reaches B)"][p.mode as usize]));
    let (b_sock, mode) = (b.sock, p.mode);
    let px = proxy.clone();
    let forwarder = tokio::spawn(async move {
        let mut buf = [0u8; 2048];
        let mut from_b = 0u64;
        loop {
            let (n, src) = match px.recv_from(&mut buf).await {
                Ok(x) => x,
                Err(_) => continue,
            };
            if src == b_sock {
                from_b += 1;
                let dst = match mode {
                    0 => a4,
                    1 => a6,
                    _ => {
                        if from_b == 1 {
                            a4
                        } else {
                            a6
                        }
                    }
                };
                let _ = px.send_to(&buf[..n], dst).await;
            } else if src == a4 || (src == a6 && mode != 2) {
                let _ = px.send_to(&buf[..n], b_sock).await;
            }
        }
    });
    let a_enr = a.disc.local_enr();
    let op = "B.send_ping(A)".to_string();
    out.ops.push(op.clone());
    let (r, dt) = call(b_cfg.give_up() + Duration::from_secs(3), b.disc.send_ping(a_enr.clone())).await;
    tokio::time::sleep(Duration::from_millis(50)).await;
    let sessions: Vec<(NodeId, SocketAddr)> = a.app.lock().sessions.clone();
    let session_with_b: Vec<SocketAddr> = sessions.iter().filter(|(n, _)| *n == b.id).map(|(_, s)| *s).collect();
    match (&r, p.mode) {
        (Outcome::Ok(pong), 2) => {
            out.observed.push(format!("{}: -> Ok(PONG seq {} ip {} port {}) after {} ms; sessions reported by A with B: {:?}", op, pong.enr_seq, pong.ip, pong.port, dt.as_millis(), session_with_b));
            out.fail(
                &["C03"],
                "a handshake was accepted from a source address to which no WHOAREYOU had been sent (the challenge went to the IPv4 address, the handshake arrived on the IPv6 socket from the mapped address)",
                format!("WHOAREYOU sent to {}; handshake observed from [{}]:{} on the IPv6 socket; the request was answered", x_addr, match x_addr.ip() { IpAddr::V4(i) => i.to_ipv6_mapped().to_string(), i => i.to_string() }, x_addr.port()),
            );
        }
        (_, 2) => {
            out.observed.push(format!("{}: no answer ({} ms); sessions reported by A with B: {:?}", op, dt.as_millis(), session_with_b));
            if !session_with_b.is_empty() {
                out.fail(&["C03"], "a session was established by a handshake from a source address to which no WHOAREYOU had been sent", format!("WHOAREYOU sent to {}; sessions reported: {:?}", x_addr, session_with_b));
            }
        }
        (Outcome::Ok(pong), _) => {
            out.observed.push(format!("{}: -> Ok(PONG seq {} ip {} port {}) after {} ms", op, pong.enr_seq, pong.ip, pong.port, dt.as_millis()));
            if SocketAddr::new(pong.ip, pong.port) != x_addr || pong.enr_seq != a.disc.local_enr().seq() {
                out.fail(&["C14"], "PONG does not carry the responder's sequence number and exactly the source the PING came from", format!("PING observed from {}: PONG seq {} ip {} port {}", x_addr, pong.enr_seq, pong.ip, pong.port));
            }
        }
        (Outcome::Err(e), _) => {
            out.observed.push(format!("{}: -> Err({}) after {} ms", op, e, dt.as_millis()));
            out.fail(&["C14", "C04"], "the PING of a requester behind a forwarder was not answered through the socket it arrived on", format!("{} after {} ms ({})", e, dt.as_millis(), out.variant.clone()));
        }
        (Outcome::Hung, _) => {
            out.fail(&["C14", "C04"], "the PING of a requester behind a forwarder had no outcome at all", format!("waited {} ms", dt.as_millis()));
        }
    }
    forwarder.abort();
    drop(a);
    drop(b);
    out
}

// ------------------------------------------------------------------------------------------------
// kind `sendfail`

/// How A is handed the destination its send task cannot send to.
#[derive(Clone, Copy, Debug, PartialEq, Eq)]
enum Via {
    Ping,
    FindNode,
    TalkRecord,
    TalkContact,
    /// the record is added to A's table and a lookup contacts it
    Lookup,
}

#[derive(Clone, Debug)]
enum Follow {
    /// A's request to the live node B
    AtoB(Op),
    /// B's request to A: A's answer is the datagram that follows the failed one
    BtoA(Op),
    /// A's request (0 PING, 1 FINDNODE, 2 TALK) to the listener L
    AtoL(u64),
}

struct FailRound {
    key_u: CombinedKey,
    /// the node id L plays when the request of this round goes to L
    key_l: CombinedKey,
    dest_pick: u64,
    via_pick: u64,
    /// time between handing A the unsendable request and the next operation
    gap_ms: u64,
    follow: Follow,
}

struct SendfailPlan {
    key_a: CombinedKey,
    key_b: CombinedKey,
    key_l: CombinedKey,
    filter: bool,
    /// A and B exchange a PING first (what follows the failed datagram is then a message on an
    /// established session, not a handshake)
    warm: bool,
    rounds: Vec<FailRound>,
}

fn gen_sendfail(rng: &mut Rng, focus: Option<&str>) -> SendfailPlan {
    let n = rng.range(2, 4);
    let mut rounds = vec![];
    for k in 0..n {
        let w: [u64; 3] = match focus {
            Some("C04") => [6, 1, 2],
            Some("C14") | Some("C20") => [2, 6, 1],
            _ => [3, 3, 3],
        };
        let op = |rng: &mut Rng| match (focus, rng.below(3)) {
            (Some("C20"), 0) | (_, 2) => {
                // answered at once or dropped: the answer is the datagram after the failed one
                match gen_talk(rng, k) {
                    Op::Talk { enr_less, proto, body, behave: Behave::RespondLate(_, p) } => Op::Talk { enr_less, proto, body, behave: Behave::Respond(p) },
                    o => o,
                }
            }
            (_, 0) => Op::Ping,
            _ => Op::FindNode(gen_distances(rng)),
        };
        let follow = match rng.weighted(&w) {
            0 => Follow::AtoB(op(rng)),
            1 => Follow::BtoA(op(rng)),
            _ => Follow::AtoL(rng.below(3)),
        };
        rounds.push(FailRound { key_u: key_from(rng), key_l: key_from(rng), dest_pick: rng.below(1 << 16), via_pick: rng.below(1 << 16), gap_ms: *rng.pick(&[5u64, 10, 30, 80]), follow });
    }
    SendfailPlan { key_a: key_from(rng), key_b: key_from(rng), key_l: key_from(rng), filter: rng.chance(1, 2), warm: rng.chance(1, 2), rounds }
}

/// Destinations a node that listens on `ip` (IPv4 only) cannot send to, with the reason: an IPv6
/// destination always (no socket of that family), IPv4 destinations when a probe socket bound to
/// the same address is refused the datagram by the OS.
fn unsendable_destinations(ip: Ipv4Addr, idx: u64) -> Vec<(SocketAddr, String)> {
    let port = 9000 + (idx % 1000) as u16;
    let mut v = vec![(SocketAddr::from((Ipv6Addr::LOCALHOST, port)), "an IPv6 destination, the node has no IPv6 socket".to_string())];
    let candidates = [
        SocketAddr::from((Ipv4Addr::BROADCAST, port)),
        SocketAddr::from((Ipv4Addr::new(127, 255, 255, 255), port)),
        SocketAddr::from((Ipv4Addr::new(240, 0, 0, 1), port)),
        SocketAddr::from((Ipv4Addr::new(192, 0, 2, 77), port)),
        SocketAddr::from((Ipv4Addr::new(127, 0, 0, 9), 0)),
    ];
    if let Ok(probe) = StdUdp::bind((ip, 0)) {
        for c in candidates {
            if let Err(e) = probe.send_to(&[0u8; 64], c) {
                v.push((c, format!("the OS refuses a datagram from {} to it: {}", ip, e)));
            }
        }
    }
    v
}

/// A request of `from` to the live node `to`; a lost round trip is a failure of `lost_props`.
#[allow(clippy::too_many_arguments)]
async fn round_trip_after_sendfail(out: &mut CaseOut, from_name: &str, from: &Node, to: &Node, op: &Op, wait: Duration, lost_props: &[&'static str], detail: &str) {
    match op {
        Op::Ping => {
            let (r, dt) = call(wait, from.disc.send_ping(to.enr.clone())).await;
            match r {
                Outcome::Ok(pong) => {
                    out.observed.push(format!("-> Ok(PONG seq {} ip {} port {}) after {} ms", pong.enr_seq, pong.ip, pong.port, dt.as_millis()));
                    let seq = to.disc.local_enr().seq();
                    if SocketAddr::new(pong.ip, pong.port) != from.sock || pong.enr_seq != seq {
                        out.fail(&["C14"], "PONG does not carry the responder's sequence number and exactly the source the PING came from", format!("PING from {} to a node with seq {}: PONG seq {} ip {} port {}", from.sock, seq, pong.enr_seq, pong.ip, pong.port));
                    }
                }
                Outcome::Err(e) => {
                    out.observed.push(format!("-> Err({}) after {} ms", e, dt.as_millis()));
                    out.fail(lost_props, lost_after_sendfail(&format!("PING of {}", from_name), false), format!("{} after {} ms ({})", e, dt.as_millis(), detail));
                }
                Outcome::Hung => {
                    out.observed.push(format!("-> no outcome after {} ms", dt.as_millis()));
                    out.fail(lost_props, lost_after_sendfail(&format!("PING of {}", from_name), true), format!("waited {} ms ({})", dt.as_millis(), detail));
                }
            }
        }
        Op::FindNode(ds) => {
            let (r, dt) = call(wait, from.disc.find_node_designated_peer(to.enr.clone(), ds.clone())).await;
            match r {
                Outcome::Ok(nodes) => {
                    let mut expected: Vec<Enr> = to.disc.table_entries_enr().into_iter().filter(|e| e.node_id() != from.id && ds.contains(&log2_distance(&to.id, &e.node_id()))).collect();
                    if ds.contains(&0) {
                        expected.push(to.disc.local_enr());
                    }
                    out.observed.push(format!("-> Ok({:?}) after {} ms", enr_set(&nodes), dt.as_millis()));
                    if !same_records(&nodes, &expected) {
                        out.fail(&["C14"], "FINDNODE answer is not exactly the table entries at the requested distances (own record iff distance 0, never the requester)", format!("distances {:?}: expected {:?} received {:?}", ds, enr_set(&expected), enr_set(&nodes)));
                    }
                }
                Outcome::Err(e) => {
                    out.observed.push(format!("-> Err({}) after {} ms", e, dt.as_millis()));
                    out.fail(lost_props, lost_after_sendfail(&format!("FINDNODE of {}", from_name), false), format!("{} after {} ms ({})", e, dt.as_millis(), detail));
                }
                Outcome::Hung => {
                    out.observed.push(format!("-> no outcome after {} ms", dt.as_millis()));
                    out.fail(lost_props, lost_after_sendfail(&format!("FINDNODE of {}", from_name), true), format!("waited {} ms ({})", dt.as_millis(), detail));
                }
            }
        }
        Op::Talk { enr_less, proto, body, behave } => {
            to.app.lock().plan.insert(body.clone(), behave.clone());
            let contact = NodeContact::new(to.enr.public_key(), to.sock, if *enr_less { None } else { Some(to.enr.clone()) });
            let (r, dt) = call(wait, from.disc.talk_req(contact, proto.clone(), body.clone())).await;
            let extra: Vec<&'static str> = lost_props.iter().filter(|p| **p != "C20" && **p != "C04").cloned().collect();
            check_talk_ctx(out, from_name, &extra, detail, r, dt, body, proto, behave, true, &to.app, from.id, LostCtx::AfterSendfail);
        }
        Op::PeerPings(_) => {}
    }
}

async fn run_sendfail(env: Env, idx: u64, p: SendfailPlan) -> CaseOut {
    let mut out = CaseOut::new("sendfail");
    let (ip_a, ip_b, ip_l) = (ip_for(env, idx, 1), ip_for(env, idx, 2), ip_for(env, idx, 30));
    let mut a_cfg = Cfg::generous();
    a_cfg.filter = p.filter;
    let b_cfg = Cfg::generous();
    let mut hist = Hist::default();
    let a = start_node(idx, 1, ip_a, &p.key_a, &a_cfg, &Advert::Honest, Listen::V4, &mut hist).await;
    let b = start_node(idx, 2, ip_b, &p.key_b, &b_cfg, &Advert::Honest, Listen::V4, &mut hist).await;
    let l = start_silent(idx, 30, ip_l, &p.key_l, &mut hist);
    out.hist = hist;
    let (a, b, l) = match (a, b, l) {
        (Some(a), Some(b), Some(l)) => (a, b, l),
        _ => return out.skipped("bind_failed"),
    };
    if !a.attach_app().await || !b.attach_app().await {
        return out.skipped("no_event_stream");
    }
    let dests = unsendable_destinations(ip_a, idx);
    out.variant = format!("{}{}", if p.warm { "session first" } else { "no session yet" }, if p.filter { ", filter on" } else { ", filter off" });
    out.config.push(format!("A {}: ListenConfig::Ipv4, {}; listens on {}", ip_a, a_cfg.text(), a.sock));
    out.config.push(format!("B {}: {}; listens on {}; both applications read their event streams", ip_b, b_cfg.text(), b.sock));
    out.config.push(format!("L = a bound UDP socket on {} that never answers; every request of A to it is addressed to another node id (a record with that socket), and L decodes every datagram it receives from A with those node ids", l.addr));
    let mut l_ids: Vec<[u8; 32]> = vec![];
    let wait = a_cfg.give_up() + Duration::from_secs(3);
    if p.warm {
        let op = "A.send_ping(B) (establishes the session)".to_string();
        out.ops.push(op.clone());
        out.observed.push(format!("{}:", op));
        let (r, dt) = call(wait, a.disc.send_ping(b.enr.clone())).await;
        match r {
            Outcome::Ok(_) => out.observed.push(format!("-> Ok after {} ms", dt.as_millis())),
            Outcome::Err(e) => out.fail(&["C14", "C04"], lost_class("PING", false, false), format!("{} after {} ms (no adversity)", e, dt.as_millis())),
            Outcome::Hung => out.fail(&["C14", "C04"], lost_class("PING", false, true), format!("waited {} ms (no adversity)", dt.as_millis())),
        }
    }
    // the requests to unsendable destinations: (description, handle)
    let mut doomed: Vec<(String, tokio::task::JoinHandle<Result<String, String>>)> = vec![];
    for (k, round) in p.rounds.iter().enumerate() {
        if out.failures.iter().any(|f| f.props.contains(&"C04") || f.props.contains(&"C05")) {
            break;
        }
        let (dest, why) = dests[(round.dest_pick % dests.len() as u64) as usize].clone();
        let via = if dest.is_ipv6() {
            // only a contact built by the application can carry an address of the other family
            Via::TalkContact
        } else {
            [Via::Ping, Via::FindNode, Via::TalkRecord, Via::TalkContact, Via::Lookup][(round.via_pick % 5) as usize]
        };
        let u_enr = {
            let mut bld = Enr::builder();
            if let SocketAddr::V4(d) = dest {
                bld.ip4(*d.ip()).udp4(d.port());
            }
            bld.build(&round.key_u).expect("enr")
        };
        let u_name = format!("U{} = {} ({})", k, dest, why);
        out.hist.add(&format!("e2e:sendfail_destination_{}", if dest.is_ipv6() { "other_family" } else { "refused_by_os" }));
        let fut: std::pin::Pin<Box<dyn std::future::Future<Output = Result<String, String>> + Send>> = match via {
            Via::Ping => {
                let f = a.disc.send_ping(u_enr.clone());
                out.ops.push(format!("A.send_ping(record of {}), not awaited", u_name));
                Box::pin(async move { f.await.map(|p| format!("{:?}", p)).map_err(|e| format!("{:?}", e)) })
            }
            Via::FindNode => {
                let f = a.disc.find_node_designated_peer(u_enr.clone(), vec![0, 256]);
                out.ops.push(format!("A.find_node_designated_peer(record of {}, [0, 256]), not awaited", u_name));
                Box::pin(async move { f.await.map(|v| format!("{:?}", enr_set(&v))).map_err(|e| format!("{:?}", e)) })
            }
            Via::TalkRecord | Via::TalkContact => {
                let c = NodeContact::new(u_enr.public_key(), dest, if via == Via::TalkRecord { Some(u_enr.clone()) } else { None });
                let f = a.disc.talk_req(c, b"e2e".to_vec(), vec![0xE2, 0xFA, k as u8]);
                out.ops.push(format!("A.talk_req({} of {}), not awaited", if via == Via::TalkRecord { "record" } else { "NodeContact::new(key, socket, no record)" }, u_name));
                Box::pin(async move { f.await.map(hex::encode).map_err(|e| format!("{:?}", e)) })
            }
            Via::Lookup => {
                let added = a.disc.add_enr(u_enr.clone()).is_ok();
                let f = a.disc.find_node(u_enr.node_id());
                out.ops.push(format!("A.add_enr(record of {}) ({}), A.find_node(..), not awaited", u_name, if added { "added" } else { "refused" }));
                Box::pin(async move { f.await.map(|v| format!("lookup returned {:?}", enr_set(&v))).map_err(|e| format!("{:?}", e)) })
            }
        };
        // the first poll hands the request to the service; the datagram reaches the send task before
        // anything the next operation makes A send
        let mut fut = fut;
        match within(Duration::from_millis(round.gap_ms), &mut fut).await {
            Some(r) => out.observed.push(format!("request to U{} ended at once: {:?}", k, r)),
            None => doomed.push((format!("request to U{}", k), tokio::spawn(fut))),
        }
        let detail = format!("A had just been handed a request to {}", u_name);
        match &round.follow {
            Follow::AtoB(op) => {
                out.hist.add("e2e:sendfail_then_request_to_live_node");
                out.ops.push(op_text(op));
                out.observed.push(format!("{}:", op_text(op)));
                round_trip_after_sendfail(&mut out, "A", &a, &b, op, wait, &["C05", "C04"], &detail).await;
            }
            Follow::BtoA(op) => {
                out.hist.add("e2e:sendfail_then_answer_to_live_node");
                let text = op_text_between(op, "B", "A");
                out.ops.push(text.clone());
                out.observed.push(format!("{}:", text));
                let props: &[&'static str] = if matches!(op, Op::Talk { .. }) { &["C05", "C20", "C04"] } else { &["C05", "C14", "C04"] };
                round_trip_after_sendfail(&mut out, "B (the answer of A is the datagram after the unsendable one)", &b, &a, op, wait, props, &detail).await;
            }
            Follow::AtoL(req) => {
                out.hist.add("e2e:sendfail_then_request_to_listener");
                let name = ["send_ping", "find_node_designated_peer", "talk_req"][*req as usize];
                let l_enr = match l.addr {
                    SocketAddr::V4(s) => make_enr(&round.key_l, *s.ip(), s.port(), &Advert::Honest),
                    _ => l.enr.clone(),
                };
                l_ids.push(l_enr.node_id().raw());
                out.ops.push(format!("A.{}(L as node {}..), not awaited", name, hex::encode(&l_enr.node_id().raw()[..6])));
                let fut: std::pin::Pin<Box<dyn std::future::Future<Output = Result<String, String>> + Send>> = match req {
                    0 => {
                        let f = a.disc.send_ping(l_enr.clone());
                        Box::pin(async move { f.await.map(|p| format!("{:?}", p)).map_err(|e| format!("{:?}", e)) })
                    }
                    1 => {
                        let f = a.disc.find_node_designated_peer(l_enr.clone(), vec![0]);
                        Box::pin(async move { f.await.map(|v| format!("{:?}", enr_set(&v))).map_err(|e| format!("{:?}", e)) })
                    }
                    _ => {
                        let f = a.disc.talk_req(NodeContact::new(l_enr.public_key(), l.addr, Some(l_enr.clone())), b"e2e".to_vec(), vec![0xE2, 0xFB, k as u8]);
                        Box::pin(async move { f.await.map(hex::encode).map_err(|e| format!("{:?}", e)) })
                    }
                };
                let mut fut = fut;
                match within(Duration::from_millis(60), &mut fut).await {
                    Some(r) => out.observed.push(format!("request to L ended at once: {:?}", r)),
                    None => doomed.push(("request to L".to_string(), tokio::spawn(fut))),
                }
                check_listener(&mut out, &l, &l_ids, &a, &detail);
            }
        }
    }
    tokio::time::sleep(Duration::from_millis(50)).await;
    check_listener(&mut out, &l, &l_ids, &a, "end of the case");
    // nothing that was addressed to a destination that cannot answer is reported as answered
    for (what, h) in doomed {
        if h.is_finished() {
            if let Ok(Ok(v)) = h.await {
                if !v.starts_with("lookup returned") {
                    out.fail(&["C04"], "a request to a destination that cannot answer was reported as answered", format!("{} -> Ok({})", what, v));
                }
            }
        } else {
            h.abort();
        }
    }
    drop(a);
    drop(b);
    out
}

/// Every datagram L received from A so far decodes under one of the node ids A addressed at L's socket.
fn check_listener(out: &mut CaseOut, l: &Silent, ids: &[[u8; 32]], a: &Node, when: &str) {
    let mut buf = [0u8; 4096];
    let (mut good, mut foreign) = (0u64, 0u64);
    while let Ok((n, src)) = l.sock.recv_from(&mut buf) {
        if src != a.sock {
            foreign += 1;
            continue;
        }
        let mut last_err = String::new();
        let decodes = ids.iter().any(|id| match discv5::verif::packet::packet_decode(id, &buf[..n]) {
            Ok(_) => true,
            Err(e) => {
                last_err = e;
                false
            }
        });
        match decodes {
            true => good += 1,
            false => {
                let e = last_err;
                out.fail(
                    &["C05"],
                    "a datagram the node put on the wire is not the encoding of a packet for the node it was sent to (it does not decode under the destination's node id)",
                    format!("{} bytes from {} to L: Packet::decode with each of the {} node ids A was given for L's socket fails ({}); datagram {} ({})", n, src, ids.len(), e, hex::encode(&buf[..n.min(96)]), when),
                );
            }
        }
    }
    if good + foreign > 0 {
        out.observed.push(format!("L received {} well-formed datagrams from A{}", good, if foreign > 0 { format!(" and {} from elsewhere", foreign) } else { String::new() }));
    }
    out.hist.addn("e2e:sendfail_listener_datagrams_decoded", good);
}

// ------------------------------------------------------------------------------------------------
// kind `held`

#[derive(Clone, Debug)]
enum Disturb {
    /// B's own request to A (a FINDNODE A's decoder rejects, so A stays silent) times out for good
    OwnTimeout,
    /// A sends B an authenticated message B's decoder rejects (FINDNODE with a distance above 256)
    Undecodable,
    /// the session becomes older than session_timeout (configured at A, at B or at both) while it
    /// is in use: a first TALK establishes it, the held one uses it at 60 % of the timeout
    Age { at_a: bool, at_b: bool },
    /// A and B talk through a forwarder that delivers this many duplicates of A's first datagram
    /// right before A's handshake: B may issue a second WHOAREYOU next to the new session, nobody
    /// answers it, it expires
    DupChallenge(u64),
    /// nothing is held: B's own requests to A (FINDNODEs A's decoder rejects, one every so many
    /// milliseconds) time out for good one after the other while B serves PINGs and FINDNODEs of A
    TimeoutStream { every_ms: u64, lanes: u64, ops: Vec<Op> },
}

struct HeldPlan {
    key_a: CombinedKey,
    key_b: CombinedKey,
    disturb: Disturb,
    filter_a: bool,
    filter_b: bool,
    proto: Vec<u8>,
    body: Vec<u8>,
    /// what the application finally does: respond with this payload, or drop the request object
    answer: Option<Vec<u8>>,
    /// B's request timeout (its requests are transmitted once)
    b_timeout_ms: u64,
    /// a round trip before the TALK (the TALK then travels on an established session)
    warm: bool,
}

const AGE_SESSION_TIMEOUT_MS: u64 = 4000;

/// The disturbances of `held` that a focused run goes through first (session age, the longest
/// case, first).
fn held_prescribed(focus: Option<&str>) -> &'static [u64] {
    match focus {
        Some("C14") => &[4],
        Some("C20") => &[2, 3, 0, 1],
        _ => &[2, 3, 0, 1, 4],
    }
}

fn gen_held(rng: &mut Rng, prescribed: Option<u64>, focus: Option<&str>) -> HeldPlan {
    let w: [u64; 5] = match focus {
        Some("C14") => [0, 0, 0, 0, 1],
        Some("C20") => [3, 3, 3, 3, 0],
        _ => [3, 3, 3, 3, 2],
    };
    let drawn = rng.weighted(&w) as u64;
    let disturb = match prescribed.unwrap_or(drawn) {
        0 => Disturb::OwnTimeout,
        1 => Disturb::Undecodable,
        2 => match rng.below(3) {
            0 => Disturb::Age { at_a: true, at_b: false },
            1 => Disturb::Age { at_a: false, at_b: true },
            _ => Disturb::Age { at_a: true, at_b: true },
        },
        3 => Disturb::DupChallenge(rng.range(2, 4)),
        _ => {
            let ops = (0..6).map(|_| if rng.chance(1, 2) { Op::Ping } else { Op::FindNode(gen_distances(rng)) }).collect();
            // one lane mostly: with several, the re-keying that the next request starts replays the
            // requests in flight
            Disturb::TimeoutStream { every_ms: rng.range(5, 15), lanes: if rng.chance(3, 4) { 1 } else { 2 }, ops }
        }
    };
    let plen = rng.range(0, 8) as usize;
    let proto = rng.bytes(plen);
    let mut body = vec![0xE2, 0x4E];
    let n = rng.range(0, 40) as usize;
    body.extend(rng.bytes(n));
    let answer = if rng.chance(3, 4) {
        let n = if rng.chance(1, 5) { rng.range(200, 900) } else { rng.range(0, 40) } as usize;
        Some(rng.bytes(n))
    } else {
        None
    };
    let warm = rng.chance(1, 2) && !matches!(disturb, Disturb::DupChallenge(_));
    HeldPlan { key_a: key_from(rng), key_b: key_from(rng), disturb, filter_a: rng.chance(1, 2), filter_b: rng.chance(1, 2), proto, body, answer, b_timeout_ms: rng.range(300, 500), warm }
}

async fn run_held(env: Env, idx: u64, p: HeldPlan) -> CaseOut {
    let mut out = CaseOut::new("held");
    out.variant = match &p.disturb {
        Disturb::OwnTimeout => "the serving node's own request to the requester times out".to_string(),
        Disturb::Undecodable => "the requester sends a message the decoder rejects".to_string(),
        Disturb::Age { at_a, at_b } => format!("session older than session_timeout but in use ({})", match (at_a, at_b) { (true, true) => "both nodes", (true, false) => "requester", _ => "serving node" }),
        Disturb::DupChallenge(_) => "duplicates of the first datagram before the handshake".to_string(),
        Disturb::TimeoutStream { .. } => return run_timeout_stream(env, idx, p).await,
    } + if p.answer.is_some() { ", application responds" } else { ", application drops the request object" };
    let via_forwarder = matches!(p.disturb, Disturb::DupChallenge(_));
    let (ip_a, ip_b) = (ip_for(env, idx, 1), ip_for(env, idx, 2));
    // A transmits once and waits 8 s: nothing is retransmitted while the answer is held back
    let mut a_cfg = Cfg::patient();
    a_cfg.filter = p.filter_a;
    let mut b_cfg = Cfg::generous();
    b_cfg.filter = p.filter_b;
    if matches!(p.disturb, Disturb::OwnTimeout | Disturb::DupChallenge(_)) {
        b_cfg.request_timeout_ms = p.b_timeout_ms;
        b_cfg.retries = 1;
    }
    if let Disturb::Age { at_a, at_b } = p.disturb {
        if at_a {
            a_cfg.session_timeout_ms = Some(AGE_SESSION_TIMEOUT_MS);
        }
        if at_b {
            b_cfg.session_timeout_ms = Some(AGE_SESSION_TIMEOUT_MS);
        }
    }
    // the forwarder X
    let mut proxy = None;
    if via_forwarder {
        let ip_x = ip_for(env, idx, 9);
        for attempt in 0..6 {
            if let Ok(s) = tokio::net::UdpSocket::bind((ip_x, port_for(idx, 9, attempt))).await {
                proxy = Some(Arc::new(s));
                break;
            }
            out.hist.add("e2e:bind_retries");
        }
        if proxy.is_none() {
            return out.skipped("bind_failed");
        }
    }
    let adv = match &proxy {
        Some(px) => Advert::Fixed(px.local_addr().unwrap(), false),
        None => Advert::Honest,
    };
    let mut hist = Hist::default();
    let a = start_node(idx, 1, ip_a, &p.key_a, &a_cfg, &adv, Listen::V4, &mut hist).await;
    let b = start_node(idx, 2, ip_b, &p.key_b, &b_cfg, &adv, Listen::V4, &mut hist).await;
    for (k, v) in &hist.0 {
        out.hist.addn(k, *v);
    }
    let (a, b) = match (a, b) {
        (Some(a), Some(b)) => (a, b),
        _ => return out.skipped("bind_failed"),
    };
    if !b.attach_app().await {
        return out.skipped("no_event_stream");
    }
    out.config.push(format!("A {} (requester): {}; listens on {}", ip_a, a_cfg.text(), a.sock));
    out.config.push(format!("B {} (serving node): {}; listens on {}; its application reads the event stream", ip_b, b_cfg.text(), b.sock));
    let mut forwarder = None;
    // where A reaches B and B reaches A
    let (b_at, a_at) = match &proxy {
        Some(px) => {
            let x = px.local_addr().unwrap();
            let dups = if let Disturb::DupChallenge(d) = p.disturb { d } else { 0 };
            out.config.push(format!("both records advertise the forwarder X = {}: X passes A's datagrams to B and B's to A; before A's second datagram (the handshake) it delivers {} more cop{} of A's first datagram", x, dups, if dups == 1 { "y" } else { "ies" }));
            let (px, a_sock, b_sock) = (px.clone(), a.sock, b.sock);
            forwarder = Some(tokio::spawn(async move {
                let mut buf = [0u8; 2048];
                let mut from_a = 0u64;
                let mut first: Vec<u8> = vec![];
                loop {
                    let (n, src) = match px.recv_from(&mut buf).await {
                        Ok(x) => x,
                        Err(_) => continue,
                    };
                    if src == a_sock {
                        from_a += 1;
                        if from_a == 1 {
                            first = buf[..n].to_vec();
                        } else if from_a == 2 {
                            for _ in 0..dups {
                                let _ = px.send_to(&first, b_sock).await;
                            }
                        }
                        let _ = px.send_to(&buf[..n], b_sock).await;
                    } else if src == b_sock {
                        let _ = px.send_to(&buf[..n], a_sock).await;
                    }
                }
            }));
            (x, x)
        }
        None => (b.sock, a.sock),
    };
    let _ = a_at;
    let b_contact = |with_record: bool| NodeContact::new(b.enr.public_key(), b_at, if with_record { Some(b.enr.clone()) } else { None });
    let finish = |out: CaseOut, forwarder: Option<tokio::task::JoinHandle<()>>| {
        if let Some(f) = forwarder {
            f.abort();
        }
        out
    };
    // a first round trip
    let mut established_by: Option<Instant> = None;
    if p.warm || matches!(p.disturb, Disturb::Age { .. }) {
        let body1 = vec![0xE2, 0x01];
        b.app.lock().plan.insert(body1.clone(), Behave::Respond(vec![0x52, 0x31]));
        let op = "A.talk_req(B's record, protocol 6532, request e201); B's application responds 5231".to_string();
        out.ops.push(op.clone());
        out.observed.push(format!("{}:", op));
        let (r, dt) = call(Duration::from_secs(5), a.disc.talk_req(b_contact(true), b"e2".to_vec(), body1.clone())).await;
        let ok = matches!(r, Outcome::Ok(_));
        check_talk(&mut out, "A", &[], "no adversity", r, dt, &body1, b"e2", &Behave::Respond(vec![0x52, 0x31]), true, &b.app, a.id);
        if !ok {
            return finish(out, forwarder);
        }
        established_by = Some(Instant::now());
    }
    if let (Disturb::Age { .. }, Some(t1)) = (&p.disturb, established_by) {
        let at = Duration::from_millis(AGE_SESSION_TIMEOUT_MS * 6 / 10);
        out.ops.push(format!("[{} ms after the first answer]", at.as_millis()));
        tokio::time::sleep(at.saturating_sub(t1.elapsed())).await;
    }
    // the TALK request that the application holds
    b.app.lock().plan.insert(p.body.clone(), Behave::Hold);
    let op = format!("A.talk_req(B's record, protocol {}, request {}); B's application holds the request", hexs(&p.proto), hexs(&p.body));
    out.ops.push(op.clone());
    let t_send = Instant::now();
    let mut talk = Box::pin(a.disc.talk_req(b_contact(true), p.proto.clone(), p.body.clone()));
    let mut early: Option<Result<Vec<u8>, String>> = None;
    let delivered_by = loop {
        if let Some(r) = within(Duration::from_millis(15), &mut talk).await {
            early = Some(r.map_err(|e| format!("{:?}", e)));
            break None;
        }
        if b.app.lock().held.get(&p.body).map(|v| !v.is_empty()).unwrap_or(false) {
            break Some(Instant::now());
        }
        if t_send.elapsed() > Duration::from_secs(5) {
            break None;
        }
    };
    let delivered_by = match delivered_by {
        Some(t) => t,
        None => {
            out.observed.push(format!("{}: not delivered to B's application within {} ms; outcome at A so far: {:?}", op, t_send.elapsed().as_millis(), early));
            out.fail(&["C20", "C04"], lost_class("TALK request of A", false, early.is_none()), format!("the request was not delivered to the serving application within {} ms (outcome {:?})", t_send.elapsed().as_millis(), early));
            return finish(out, forwarder);
        }
    };
    out.observed.push(format!("{}: delivered to B's application after {} ms", op, (delivered_by - t_send).as_millis()));
    // what happens while the application holds the request
    let meanwhile: String = match &p.disturb {
        Disturb::OwnTimeout => {
            let op = "B.find_node_designated_peer(A's record, [300])".to_string();
            out.ops.push(op.clone());
            let (r, dt) = call(b_cfg.give_up() + Duration::from_secs(6), b.disc.find_node_designated_peer(a.enr.clone(), vec![300])).await;
            let r = match r {
                Outcome::Ok(v) => format!("Ok({:?})", enr_set(&v)),
                Outcome::Err(e) => format!("Err({})", e),
                Outcome::Hung => "no outcome".to_string(),
            };
            out.observed.push(format!("{}: -> {} after {} ms", op, r, dt.as_millis()));
            format!("B's own FINDNODE [300] to A ended with {} after {} ms", r, dt.as_millis())
        }
        Disturb::Undecodable => {
            let op = "A.find_node_designated_peer(B's record, [300]), not awaited; 300 ms pass".to_string();
            out.ops.push(op);
            let f = a.disc.find_node_designated_peer(b.enr.clone(), vec![300]);
            tokio::spawn(async move {
                let _ = within(Duration::from_secs(10), f).await;
            });
            tokio::time::sleep(Duration::from_millis(300)).await;
            "A had sent B a FINDNODE asking for distance 300 (authenticated, rejected by the decoder) 300 ms earlier".to_string()
        }
        Disturb::Age { .. } => {
            let t1 = established_by.unwrap();
            let until = Duration::from_millis(AGE_SESSION_TIMEOUT_MS + 300);
            tokio::time::sleep(until.saturating_sub(t1.elapsed())).await;
            out.ops.push(format!("[until {} ms after the first answer]", until.as_millis()));
            format!("the session was established more than {} ms ago and last used {} ms ago; session_timeout {} ms", t1.elapsed().as_millis(), t_send.elapsed().as_millis(), AGE_SESSION_TIMEOUT_MS)
        }
        Disturb::TimeoutStream { .. } => String::new(),
        Disturb::DupChallenge(d) => {
            let w = Duration::from_millis(b_cfg.request_timeout_ms + 400);
            tokio::time::sleep(w).await;
            out.ops.push(format!("[{} ms pass: a WHOAREYOU of B that nobody answers has expired]", w.as_millis()));
            format!("B had received {} duplicate(s) of A's first datagram before the handshake; request_timeout of B {} ms", d, b_cfg.request_timeout_ms)
        }
    };
    if early.is_none() {
        if let Some(r) = within(Duration::from_millis(1), &mut talk).await {
            early = Some(r.map_err(|e| format!("{:?}", e)));
        }
    }
    if let Some(r) = &early {
        out.observed.push(format!("A's TALK request ended with {:?} before B's application had responded", r));
        match r {
            Ok(v) => out.fail(&["C20"], "TALK: the requester received an answer while the serving application was still holding the request", format!("received {} ({})", hex::encode(v), meanwhile)),
            Err(e) => out.fail(&["C20", "C04"], "TALK request to a live, honest node failed while the serving application was holding it and the requester's timeout was far away", format!("{} after {} ms; request_timeout of A {} ms ({})", e, t_send.elapsed().as_millis(), a_cfg.request_timeout_ms, meanwhile)),
        }
        return finish(out, forwarder);
    }
    // the application answers
    let req = b.app.lock().held.get_mut(&p.body).and_then(|v| v.pop());
    let (req, _t_delivered) = match req {
        Some(x) => x,
        None => return finish(out.skipped("held_request_vanished"), forwarder),
    };
    let dups_delivered = b.app.lock().held.get(&p.body).map(|v| v.len()).unwrap_or(0);
    let t_respond = Instant::now();
    let held_for = t_respond - t_send;
    let expected: Vec<u8> = match &p.answer {
        Some(payload) => {
            out.ops.push(format!("B's application responds {} ({} ms after A sent the request)", hexs(payload), held_for.as_millis()));
            if let Err(e) = req.respond(payload.clone()) {
                out.fail(&["C20"], "TalkRequest::respond returned an error although the node is running", format!("{:?}", e));
            }
            payload.clone()
        }
        None => {
            out.ops.push(format!("B's application drops the request object ({} ms after A sent the request)", held_for.as_millis()));
            drop(req);
            vec![]
        }
    };
    if dups_delivered > 0 {
        out.observed.push(format!("(the request was delivered {} more time(s); those objects are dropped at the end)", dups_delivered));
    }
    // the precondition of the statement, measured: the session was used less than session_timeout
    // ago (with 1.5 s to spare) when the application answered
    if matches!(p.disturb, Disturb::Age { .. }) && held_for + Duration::from_millis(1500) > Duration::from_millis(AGE_SESSION_TIMEOUT_MS) {
        out.hist.add("e2e:held_inconclusive_machine_too_slow");
        out.observed.push(format!("inconclusive: {} ms between the request and the application's answer", held_for.as_millis()));
        return finish(out, forwarder);
    }
    let r = within(Duration::from_secs(5), &mut talk).await;
    let dt = t_respond.elapsed();
    match r {
        Some(Ok(v)) => {
            out.observed.push(format!("-> A received Ok({}) {} ms after the application's answer", hexs(&v), dt.as_millis()));
            if v != expected {
                out.fail(&["C20"], "TALK: A received another payload than the serving application gave (empty when it drops the request)", format!("expected {} received {}", hex::encode(&expected), hex::encode(&v)));
            }
        }
        Some(Err(e)) => {
            out.observed.push(format!("-> A received Err({:?}) {} ms after the application's answer", e, dt.as_millis()));
            out.fail(
                &["C20", "C04"],
                "a TALK request that was delivered to the application of a live node and answered by it (response or dropped request object) failed at the requester although the requester's timeout was far away",
                format!("{:?} {} ms after the answer, {} ms after the request; request_timeout of A {} ms, one transmission ({})", e, dt.as_millis(), t_send.elapsed().as_millis(), a_cfg.request_timeout_ms, meanwhile),
            );
        }
        None => {
            out.observed.push(format!("-> nothing reached A within {} ms after the application's answer", dt.as_millis()));
            out.fail(
                &["C20", "C04"],
                "a TALK request that was delivered to the application of a live node and answered by it (response or dropped request object) got no TALKRESP on the wire within 5 s",
                format!("nothing {} ms after the answer, {} ms after the request; request_timeout of A {} ms, one transmission ({})", dt.as_millis(), t_send.elapsed().as_millis(), a_cfg.request_timeout_ms, meanwhile),
            );
        }
    }
    out.hist.add(&format!("e2e:held_{}", match p.disturb { Disturb::OwnTimeout => "own_timeout", Disturb::Undecodable => "undecodable", Disturb::Age { .. } => "session_age", Disturb::DupChallenge(_) => "dup_challenge", Disturb::TimeoutStream { .. } => "timeout_stream" }));
    let out = finish(out, forwarder);
    drop(a);
    drop(b);
    out
}

/// `held`, disturbance `TimeoutStream`: B keeps serving A while its own requests to A time out.
async fn run_timeout_stream(env: Env, idx: u64, p: HeldPlan) -> CaseOut {
    let mut out = CaseOut::new("held");
    let (every_ms, lanes, ops) = match &p.disturb {
        Disturb::TimeoutStream { every_ms, lanes, ops } => (*every_ms, *lanes, ops.clone()),
        _ => unreachable!(),
    };
    out.variant = "the serving node's own requests to the requester time out one after the other; PING / FINDNODE".to_string();
    let (ip_a, ip_b) = (ip_for(env, idx, 1), ip_for(env, idx, 2));
    // A transmits once and waits 8 s: an answer that is lost is not covered up by a retransmission
    let a_cfg = Cfg::patient();
    // B gives up on its own requests quickly: one of them times out (and takes the others along)
    // every few tens of milliseconds
    let mut b_cfg = Cfg::generous();
    b_cfg.request_timeout_ms = p.b_timeout_ms / 10;
    b_cfg.retries = 1;
    let mut hist = Hist::default();
    let a = start_node(idx, 1, ip_a, &p.key_a, &a_cfg, &Advert::Honest, Listen::V4, &mut hist).await;
    let b = start_node(idx, 2, ip_b, &p.key_b, &b_cfg, &Advert::Honest, Listen::V4, &mut hist).await;
    out.hist = hist;
    let (a, b) = match (a, b) {
        (Some(a), Some(b)) => (a, b),
        _ => return out.skipped("bind_failed"),
    };
    out.config.push(format!("A {} (requester): {}; listens on {}", ip_a, a_cfg.text(), a.sock));
    out.config.push(format!("B {} (serving node): {}; listens on {}", ip_b, b_cfg.text(), b.sock));
    // the session: B's challenge lives for its short request_timeout only, so a slow machine may need
    // another attempt (nothing is asserted here; plain round trips are the subject of `basic`)
    let op = "A.send_ping(B) (establishes the session; repeated if B's short-lived challenge expired)".to_string();
    out.ops.push(op.clone());
    let mut established = false;
    for _ in 0..5 {
        if let Some(Ok(_)) = within(Duration::from_secs(1), a.disc.send_ping(b.enr.clone())).await {
            established = true;
            break;
        }
    }
    if !established {
        return out.skipped("no_session_with_a_short_lived_challenge");
    }
    // B's own requests: each one is transmitted once and fails request_timeout later
    let b = Arc::new(b);
    let span = Duration::from_millis(b_cfg.request_timeout_ms + 700);
    out.ops.push(format!("B.find_node_designated_peer(A's record, [300]) every {} ms for {} ms, not awaited (A's decoder rejects the request, each one times out after {} ms)", every_ms, span.as_millis(), b_cfg.request_timeout_ms));
    let timed_out = Arc::new(std::sync::atomic::AtomicUsize::new(0));
    let stream = {
        let (node_b, a_enr, timed_out) = (b.clone(), a.enr.clone(), timed_out.clone());
        tokio::spawn(async move {
            let t0 = Instant::now();
            while t0.elapsed() < span {
                let f = node_b.disc.find_node_designated_peer(a_enr.clone(), vec![300]);
                let timed_out = timed_out.clone();
                tokio::spawn(async move {
                    if let Some(Err(_)) = within(Duration::from_secs(6), f).await {
                        timed_out.fetch_add(1, std::sync::atomic::Ordering::SeqCst);
                    }
                });
                tokio::time::sleep(Duration::from_millis(every_ms)).await;
            }
        })
    };
    // A's requests, in several lanes at once (there is always a request between B's handler and B's
    // service), from the moment the first of B's requests is about to time out
    tokio::time::sleep(Duration::from_millis(b_cfg.request_timeout_ms.saturating_sub(50))).await;
    let a = Arc::new(a);
    let t0 = Instant::now();
    let stop = Arc::new(std::sync::atomic::AtomicBool::new(false));
    let mut lane_tasks = vec![];
    for lane in 0..lanes {
        let (a, b, ops, stop, timed_out) = (a.clone(), b.clone(), ops.clone(), stop.clone(), timed_out.clone());
        lane_tasks.push(tokio::spawn(async move {
            // (requests answered, failure: properties, class, values, operation)
            let mut n = 0usize;
            let mut k = lane as usize;
            while t0.elapsed() < Duration::from_millis(700) && !stop.load(std::sync::atomic::Ordering::SeqCst) {
                let op = &ops[k % ops.len()];
                k += 1;
                let detail = |dt: Duration| format!("lane {}, request {} of the lane, started {} ms after B's own requests had begun to time out ({} timed out by the end)", lane, n + 1, (t0.elapsed().saturating_sub(dt)).as_millis(), timed_out.load(std::sync::atomic::Ordering::SeqCst));
                let failure: Option<(Vec<&'static str>, String, String)> = match op {
                    Op::FindNode(ds) => {
                        let (r, dt) = call(Duration::from_secs(5), a.disc.find_node_designated_peer(b.enr.clone(), ds.clone())).await;
                        match r {
                            Outcome::Ok(nodes) => {
                                let expected: Vec<Enr> = if ds.contains(&0) { vec![b.disc.local_enr()] } else { vec![] };
                                if same_records(&nodes, &expected) {
                                    None
                                } else {
                                    Some((vec!["C14"], "FINDNODE answer is not exactly the table entries at the requested distances (own record iff distance 0, never the requester)".to_string(), format!("distances {:?}: expected {:?} received {:?}", ds, enr_set(&expected), enr_set(&nodes))))
                                }
                            }
                            Outcome::Err(e) => Some((vec!["C14", "C04"], "FINDNODE to a live, honest node failed while that node's own requests to the requester were timing out (the requester transmits once and waits 8 s)".to_string(), format!("{} after {} ms ({})", e, dt.as_millis(), detail(dt)))),
                            Outcome::Hung => Some((vec!["C14", "C04"], "FINDNODE to a live, honest node was not answered within 5 s while that node's own requests to the requester were timing out (the requester transmits once and waits 8 s)".to_string(), format!("waited {} ms ({})", dt.as_millis(), detail(dt)))),
                        }
                    }
                    _ => {
                        let (r, dt) = call(Duration::from_secs(5), a.disc.send_ping(b.enr.clone())).await;
                        match r {
                            Outcome::Ok(pong) => {
                                if SocketAddr::new(pong.ip, pong.port) == a.sock && pong.enr_seq == b.disc.local_enr().seq() {
                                    None
                                } else {
                                    Some((vec!["C14"], "PONG does not carry the responder's sequence number and exactly the source the PING came from".to_string(), format!("PING from {}: PONG seq {} ip {} port {}", a.sock, pong.enr_seq, pong.ip, pong.port)))
                                }
                            }
                            Outcome::Err(e) => Some((vec!["C14", "C04"], "PING to a live, honest node failed while that node's own requests to the requester were timing out (the requester transmits once and waits 8 s)".to_string(), format!("{} after {} ms ({})", e, dt.as_millis(), detail(dt)))),
                            Outcome::Hung => Some((vec!["C14", "C04"], "PING to a live, honest node was not answered within 5 s while that node's own requests to the requester were timing out (the requester transmits once and waits 8 s)".to_string(), format!("waited {} ms ({})", dt.as_millis(), detail(dt)))),
                        }
                    }
                };
                if let Some((props, class, values)) = failure {
                    stop.store(true, std::sync::atomic::Ordering::SeqCst);
                    return (n, Some((props, class, values, op_text(op))));
                }
                n += 1;
            }
            (n, None)
        }));
    }
    let mut n = 0usize;
    for (lane, t) in lane_tasks.into_iter().enumerate() {
        if let Ok((served, failure)) = t.await {
            n += served;
            if let Some((props, class, values, op)) = failure {
                out.ops.push(format!("lane {}: {} after {} answered requests of the lane", lane, op, served));
                out.fail(&props, class, values);
            }
        }
    }
    out.ops.insert(2.min(out.ops.len()), format!("{} lanes of A at once, each a row of awaited requests to B for 700 ms: {}", lanes, ops.iter().map(op_text).collect::<Vec<_>>().join(", ")));
    out.observed.push(format!("{} requests of A were answered; {} of B's own requests had timed out by then", n, timed_out.load(std::sync::atomic::Ordering::SeqCst)));
    out.hist.add("e2e:held_timeout_stream");
    out.hist.addn("e2e:held_timeout_stream_requests_served", n as u64);
    stream.abort();
    let _ = stream.await;
    drop(a);
    drop(b);
    out
}

// ------------------------------------------------------------------------------------------------
// kind `dual`

struct DualOp {
    /// the peer is B6 (the exchange uses A's IPv6 socket), otherwise B4
    six: bool,
    /// A is the requester
    a_requests: bool,
    op: Op,
    /// PINGs of B4 to A (not awaited) right before the operation: A's IPv4 socket receives
    /// datagrams in between the ones of the exchange on the IPv6 socket
    noise: u64,
}

struct DualPlan {
    key_a: CombinedKey,
    key_b4: CombinedKey,
    key_b6: CombinedKey,
    filter: bool,
    /// A's two sockets are bound by the application (`FromSockets`) instead of `DualStack`
    from_sockets: bool,
    /// A PING in each direction with each peer first (every session exists before the list)
    warm: bool,
    ops: Vec<DualOp>,
}

fn gen_dual(rng: &mut Rng, focus: Option<&str>) -> DualPlan {
    let n = rng.range(4, 7);
    let w: [u64; 3] = match focus {
        Some("C20") => [1, 1, 5],
        Some("C14") => [3, 3, 1],
        _ => [2, 2, 2],
    };
    let mut ops = vec![];
    for k in 0..n {
        let op = match rng.weighted(&w) {
            0 => Op::Ping,
            1 => Op::FindNode(gen_distances(rng)),
            _ => gen_talk(rng, k),
        };
        let six = rng.chance(2, 3);
        ops.push(DualOp { six, a_requests: rng.chance(1, 2), op, noise: if six && rng.chance(1, 2) { rng.range(1, 3) } else { 0 } });
    }
    // both directions through the IPv6 socket, the IPv4 peer in between
    ops[0].six = true;
    ops[1].six = false;
    ops[1].noise = 0;
    ops[2].six = true;
    ops[2].a_requests = !ops[0].a_requests;
    DualPlan { key_a: key_from(rng), key_b4: key_from(rng), key_b6: key_from(rng), filter: rng.chance(1, 2), from_sockets: rng.chance(1, 3), warm: rng.chance(1, 3), ops }
}

/// A request of `from` to the live node `to` (addressed at `to_sock`, which sees the requester as
/// `seen_as`); `second` = the datagrams of the exchange use the IPv6 socket of the dual-socket node.
#[allow(clippy::too_many_arguments)]
async fn round_trip_dual(out: &mut CaseOut, from_name: &str, from: &Node, to: &Node, to_sock: SocketAddr, seen_as: SocketAddr, op: &Op, wait: Duration, second: bool, detail: &str) {
    let lost = |what: &str, hung: bool| if second { lost_second_socket(&format!("{} of {}", what, from_name), hung) } else { lost_class(&format!("{} of {}", what, from_name), false, hung) };
    let lost_props: &[&'static str] = match (second, matches!(op, Op::Talk { .. })) {
        (true, false) => &["C05", "C14", "C04"],
        (true, true) => &["C05", "C20", "C04"],
        (false, false) => &["C14", "C04"],
        (false, true) => &["C20", "C04"],
    };
    match op {
        Op::Ping => {
            let (r, dt) = call(wait, from.disc.send_ping(to.enr.clone())).await;
            match r {
                Outcome::Ok(pong) => {
                    out.observed.push(format!("-> Ok(PONG seq {} ip {} port {}) after {} ms", pong.enr_seq, pong.ip, pong.port, dt.as_millis()));
                    let seq = to.disc.local_enr().seq();
                    if SocketAddr::new(pong.ip, pong.port) != seen_as || pong.enr_seq != seq {
                        out.fail(&["C14"], "PONG does not carry the responder's sequence number and exactly the source the PING came from", format!("PING from {} to a node with seq {}: PONG seq {} ip {} port {}", seen_as, seq, pong.enr_seq, pong.ip, pong.port));
                    }
                }
                Outcome::Err(e) => {
                    out.observed.push(format!("-> Err({}) after {} ms", e, dt.as_millis()));
                    out.fail(lost_props, lost("PING", false), format!("{} after {} ms ({})", e, dt.as_millis(), detail));
                }
                Outcome::Hung => {
                    out.observed.push(format!("-> no outcome after {} ms", dt.as_millis()));
                    out.fail(lost_props, lost("PING", true), format!("waited {} ms ({})", dt.as_millis(), detail));
                }
            }
        }
        Op::FindNode(ds) => {
            // other exchanges of the case may put a peer into the table meanwhile: the table before and after
            let at = |t: &Node| -> Vec<Enr> { t.disc.table_entries_enr().into_iter().filter(|e| e.node_id() != from.id && ds.contains(&log2_distance(&t.id, &e.node_id()))).collect() };
            let before = at(to);
            let (r, dt) = call(wait, from.disc.find_node_designated_peer(to.enr.clone(), ds.clone())).await;
            match r {
                Outcome::Ok(nodes) => {
                    let after = at(to);
                    let key = |e: &Enr| (e.node_id().raw(), e.seq(), e.to_base64());
                    let own = to.disc.local_enr();
                    let mut must: Vec<_> = before.iter().filter(|e| after.iter().any(|x| key(x) == key(e))).map(key).collect();
                    let mut may: Vec<_> = before.iter().chain(after.iter()).map(key).collect();
                    if ds.contains(&0) {
                        must.push(key(&own));
                        may.push(key(&own));
                    }
                    let got: Vec<_> = nodes.iter().map(key).collect();
                    let distinct: BTreeSet<_> = got.iter().cloned().collect();
                    out.observed.push(format!("-> Ok({:?}) after {} ms", enr_set(&nodes), dt.as_millis()));
                    if distinct.len() != got.len() || got.iter().any(|g| !may.contains(g)) || must.iter().any(|m| !got.contains(m)) {
                        let mut expected = after.clone();
                        if ds.contains(&0) {
                            expected.push(own);
                        }
                        out.fail(&["C14"], "FINDNODE answer is not exactly the table entries at the requested distances (own record iff distance 0, never the requester)", format!("distances {:?}: expected {:?} (table before the request: {:?}) received {:?}", ds, enr_set(&expected), enr_set(&before), enr_set(&nodes)));
                    }
                }
                Outcome::Err(e) => {
                    out.observed.push(format!("-> Err({}) after {} ms", e, dt.as_millis()));
                    out.fail(lost_props, lost("FINDNODE", false), format!("{} after {} ms ({})", e, dt.as_millis(), detail));
                }
                Outcome::Hung => {
                    out.observed.push(format!("-> no outcome after {} ms", dt.as_millis()));
                    out.fail(lost_props, lost("FINDNODE", true), format!("waited {} ms ({})", dt.as_millis(), detail));
                }
            }
        }
        Op::Talk { enr_less, proto, body, behave } => {
            to.app.lock().plan.insert(body.clone(), behave.clone());
            let contact = NodeContact::new(to.enr.public_key(), to_sock, if *enr_less { None } else { Some(to.enr.clone()) });
            let (r, dt) = call(wait, from.disc.talk_req(contact, proto.clone(), body.clone())).await;
            let extra: &[&'static str] = if second { &["C05"] } else { &[] };
            check_talk_ctx(out, from_name, extra, detail, r, dt, body, proto, behave, true, &to.app, from.id, if second { LostCtx::SecondSocket } else { LostCtx::Plain });
        }
        Op::PeerPings(_) => {}
    }
}

async fn run_dual(env: Env, idx: u64, p: DualPlan) -> CaseOut {
    let mut out = CaseOut::new("dual");
    if !env.ipv6_loopback {
        return out.skipped("no_ipv6_loopback");
    }
    out.variant = format!("{}{}{}", if p.from_sockets { "FromSockets" } else { "DualStack" }, if p.warm { ", sessions first" } else { "" }, if p.filter { ", filter on" } else { ", filter off" });
    let (ip_a, ip_b4) = (ip_for(env, idx, 1), ip_for(env, idx, 2));
    let mut a_cfg = Cfg::generous();
    a_cfg.filter = p.filter;
    let b_cfg = Cfg::generous();
    let mut hist = Hist::default();
    let a = start_node(idx, 1, ip_a, &p.key_a, &a_cfg, &Advert::BothLoopback, Listen::Dual(p.from_sockets), &mut hist).await;
    let b4 = start_node(idx, 2, ip_b4, &p.key_b4, &b_cfg, &Advert::Honest, Listen::V4, &mut hist).await;
    let b6 = start_node(idx, 3, ip_b4, &p.key_b6, &b_cfg, &Advert::V6Only, Listen::V6, &mut hist).await;
    out.hist = hist;
    let (a, b4, b6) = match (a, b4, b6) {
        (Some(a), Some(b4), Some(b6)) => (a, b4, b6),
        _ => return out.skipped("bind_failed"),
    };
    if !a.attach_app().await || !b4.attach_app().await || !b6.attach_app().await {
        return out.skipped("no_event_stream");
    }
    let a6 = SocketAddr::from((Ipv6Addr::LOCALHOST, a.sock.port()));
    out.config.push(format!("A: {}, {}; listens on {} (first socket) and {} (second socket); its record advertises both", if p.from_sockets { "ListenConfig::FromSockets with an IPv4 and an IPv6 socket" } else { "ListenConfig::DualStack" }, a_cfg.text(), a.sock, a6));
    out.config.push(format!("B4: ListenConfig::Ipv4, {}; listens on {}", b_cfg.text(), b4.sock));
    out.config.push(format!("B6: ListenConfig::Ipv6, {}; listens on {}; its record advertises only that socket; all applications read their event streams", b_cfg.text(), b6.sock));
    let wait = a_cfg.give_up() + Duration::from_secs(3);
    let mut list: Vec<DualOp> = vec![];
    if p.warm {
        for (six, a_requests) in [(false, true), (true, true), (false, false), (true, false)] {
            list.push(DualOp { six, a_requests, op: Op::Ping, noise: 0 });
        }
    }
    list.extend(p.ops);
    for dop in &list {
        if out.failures.iter().any(|f| f.props.contains(&"C04")) {
            break;
        }
        let (peer, peer_name) = if dop.six { (&b6, "B6") } else { (&b4, "B4") };
        if dop.noise > 0 {
            out.ops.push(format!("B4.send_ping(A) x {} (not awaited)", dop.noise));
            for _ in 0..dop.noise {
                let f = b4.disc.send_ping(a.enr.clone());
                tokio::spawn(async move {
                    let _ = within(Duration::from_secs(6), f).await;
                });
                tokio::task::yield_now().await;
            }
        }
        let text = if dop.a_requests { op_text_between(&dop.op, "A", peer_name) } else { op_text_between(&dop.op, peer_name, "A") };
        out.ops.push(text.clone());
        out.observed.push(format!("{}:", text));
        out.hist.add(if dop.six { "e2e:dual_exchange_through_the_second_socket" } else { "e2e:dual_exchange_through_the_first_socket" });
        let detail = if dop.six { "the exchange uses A's IPv6 socket" } else { "the exchange uses A's IPv4 socket" };
        if dop.a_requests {
            let seen_as = if dop.six { a6 } else { a.sock };
            round_trip_dual(&mut out, "A", &a, peer, peer.sock, seen_as, &dop.op, wait, dop.six, detail).await;
        } else {
            let to_sock = if dop.six { a6 } else { a.sock };
            round_trip_dual(&mut out, peer_name, peer, &a, to_sock, peer.sock, &dop.op, wait, dop.six, detail).await;
        }
    }
    drop(a);
    drop(b4);
    drop(b6);
    out
}

// ------------------------------------------------------------------------------------------------

fn kind_weights(focus: Option<&str>) -> [u64; 9] {
    match focus {
        Some("C03") => [2, 0, 0, 0, 3, 6, 0, 0, 0],
        Some("C04") => [5, 5, 2, 0, 1, 0, 2, 3, 2],
        Some("C05") => [1, 0, 0, 0, 0, 0, 8, 0, 6],
        Some("C09") | Some("C10") => [1, 1, 8, 0, 0, 0, 0, 0, 0],
        Some("C12") => [2, 0, 0, 0, 7, 1, 0, 0, 0],
        Some("C13") => [8, 1, 0, 0, 1, 0, 0, 0, 0],
        Some("C14") => [5, 0, 0, 1, 4, 1, 3, 2, 3],
        Some("C17") => [2, 0, 0, 8, 0, 0, 0, 0, 0],
        Some("C20") => [7, 0, 0, 0, 3, 0, 2, 4, 3],
        _ => [5, 2, 2, 2, 2, 1, 2, 2, 2],
    }
}

/// The kind of a case (and, for `held`, a prescribed disturbance): the first cases go through the
/// kinds in the order of their weights and then through the remaining disturbances of `held`, the
/// others are drawn.
fn pick_kind(rng: &mut Rng, idx: u64, focus: Option<&str>) -> (usize, Option<u64>) {
    let w = kind_weights(focus);
    let mut kinds: Vec<usize> = (0..w.len()).filter(|k| w[*k] > 0).collect();
    kinds.sort_by_key(|k| std::cmp::Reverse(w[*k]));
    let subs = held_prescribed(focus);
    let mut order: Vec<(usize, Option<u64>)> = kinds.iter().map(|k| (*k, if *k == 7 { Some(subs[0]) } else { None })).collect();
    if w[7] > 0 {
        order.extend(subs[1..].iter().map(|d| (7, Some(*d))));
    }
    let drawn = rng.weighted(&w);
    if (idx as usize) < order.len() {
        order[idx as usize]
    } else {
        (drawn, None)
    }
}

async fn run_case(env: Env, seed: u64, idx: u64, focus: Option<String>) -> CaseOut {
    let mut rng = Rng::new(seed.wrapping_mul(0x9E3779B97F4A7C15).wrapping_add(idx.wrapping_mul(0xD1B54A32D192ED03)).wrapping_add(0xE2E));
    let focus = focus.as_deref();
    let (kind, sub) = pick_kind(&mut rng, idx, focus);
    match kind {
        0 => run_basic(env, idx, gen_basic(&mut rng, idx, focus)).await,
        1 => run_silent(env, idx, gen_silent(&mut rng)).await,
        2 => run_lookup(env, idx, gen_lookup(&mut rng)).await,
        3 => run_vote(env, idx, gen_vote(&mut rng)).await,
        4 => run_mapped(env, idx, gen_mapped(&mut rng, idx)).await,
        5 => run_crossed(env, idx, gen_crossed(&mut rng)).await,
        6 => run_sendfail(env, idx, gen_sendfail(&mut rng, focus)).await,
        8 => run_dual(env, idx, gen_dual(&mut rng, focus)).await,
        _ => run_held(env, idx, gen_held(&mut rng, sub, focus)).await,
    }
}

pub fn main(args: &[String]) {
    let o = parse_opts(args);
    let mut only: Option<u64> = None;
    let mut focus: Option<String> = None;
    let mut i = 0;
    while i < o.rest.len() {
        match o.rest[i].as_str() {
            "--only" => {
                only = Some(o.rest[i + 1].parse().unwrap());
                i += 1;
            }
            "--focus" => {
                focus = Some(o.rest[i + 1].to_uppercase());
                i += 1;
            }
            _ => {}
        }
        i += 1;
    }
    if let Some(f) = &focus {
        if !PROPS.contains(&f.as_str()) {
            eprintln!("e2e: no monitor is attributed to {}", f);
            std::process::exit(2);
        }
    }
    std::fs::create_dir_all(&o.out).expect("mkdir");
    let env = probe_env();
    let mut sum = Summary::new("e2e");
    let range: Vec<u64> = match only {
        Some(x) => vec![x],
        None => (0..o.cases).collect(),
    };
    for k in ["e2e:bind_retries", "e2e:case_panicked", "e2e:case_hung", "e2e:vote_record_moved", "e2e:vote_no_update_although_the_minimum_voted", "e2e:case_skipped_bind_failed", "e2e:case_skipped_no_dual_stack_sockets", "e2e:case_skipped_no_ipv6_loopback", "e2e:dual_exchange_through_the_second_socket", "e2e:basic_talk_datagram_at_the_maximum_packet_size", "e2e:held_inconclusive_machine_too_slow"] {
        sum.hist.addn(k, 0);
    }
    sum.hist.addn("e2e:env_any_loopback_address", env.multi_ip as u64);
    sum.hist.addn("e2e:env_dual_stack_sockets", env.dual_stack as u64);
    sum.hist.addn("e2e:env_ipv6_loopback", env.ipv6_loopback as u64);
    let rt = tokio::runtime::Builder::new_multi_thread().worker_threads(4).enable_all().build().unwrap();
    *discv5::verif::filter::PERMIT_BAN_LIST.write() = Default::default();
    let seed = o.seed;
    let results: Vec<(u64, Option<CaseOut>)> = rt.block_on(async {
        let sem = Arc::new(tokio::sync::Semaphore::new(6));
        let mut handles = vec![];
        for idx in range {
            let sem = sem.clone();
            let focus = focus.clone();
            handles.push((
                idx,
                tokio::spawn(async move {
                    let _permit = sem.acquire_owned().await.expect("semaphore");
                    let r = within(Duration::from_secs(90), run_case(env, seed, idx, focus)).await;
                    let _ = discv5::verif::glue::take_seen();
                    r
                }),
            ));
        }
        let mut results = vec![];
        for (idx, h) in handles {
            match h.await {
                Ok(Some(r)) => results.push((idx, Some(r))),
                Ok(None) => {
                    let mut c = CaseOut::new("hung");
                    c.hist.add("e2e:case_hung");
                    results.push((idx, Some(c)));
                }
                Err(_) => results.push((idx, None)),
            }
        }
        results
    });
    rt.shutdown_timeout(Duration::from_millis(200));
    *discv5::verif::filter::PERMIT_BAN_LIST.write() = Default::default();
    let mut seen_sig: BTreeSet<String> = BTreeSet::new();
    let mut distinct: BTreeSet<String> = BTreeSet::new();
    for (idx, r) in results {
        sum.evaluations += 1;
        let r = match r {
            Some(r) => r,
            None => {
                sum.hist.add("e2e:case_panicked");
                continue;
            }
        };
        sum.steps += r.ops.len() as u64;
        sum.hist.add(&format!("e2e:kind_{}", r.kind));
        for (k, v) in &r.hist.0 {
            sum.hist.addn(k, *v);
        }
        if !r.ops.is_empty() && distinct.insert(format!("{} {}", r.kind, r.variant)) {
            sum.distinct_nontrivial += 1;
        }
        let record = |prop: &str, fl: Option<&Failure>| {
            J::obj(vec![
                ("component", J::s("e2e")),
                ("property", J::s(prop)),
                ("seed", J::I(seed as i64)),
                ("case", J::I(idx as i64)),
                ("thorough", J::B(o.thorough)),
                ("kind", J::s(r.kind)),
                ("variant", J::s(r.variant.clone())),
                ("what", J::s(fl.map(|f| f.class.clone()).unwrap_or_default())),
                ("values", J::s(fl.map(|f| f.detail.clone()).unwrap_or_default())),
                ("configuration", J::A(r.config.iter().map(|s| J::s(s.clone())).collect())),
                ("operations", J::A(r.ops.iter().map(|s| J::s(s.clone())).collect())),
                ("observed", J::A(r.observed.iter().map(|s| J::s(s.clone())).collect())),
            ])
        };
        if sum.samples.len() < 3 && !r.ops.is_empty() && (sum.samples.len() as u64) <= idx / 2 {
            sum.samples.push(record("", None));
        }
        for fl in &r.failures {
            for prop in &fl.props {
                if let Some(f) = &focus {
                    if f != prop {
                        sum.hist.add(&format!("e2e:monitor_failure_of_another_property_{}", prop));
                        continue;
                    }
                }
                let sig = format!("{}:e2e {}: {}", prop, r.kind, fl.class);
                if seen_sig.insert(sig.clone()) || only.is_some() {
                    let file = o.out.join(format!("failure_{}_e2e_{}_{}_{}.json", prop, r.kind, idx, seen_sig.len()));
                    std::fs::write(&file, record(prop, Some(fl)).render()).unwrap();
                    let desc = format!("{} [{}] configuration [{}] operations [{}]", fl.class, fl.detail, r.config.join("; "), r.ops.join("; "));
                    sum.monitor_failures.push((sig, desc, file.to_string_lossy().to_string()));
                }
            }
        }
    }
    sum.case_files = vec![];
    sum.rule = "real nodes on loopback UDP sockets in real time, assembled through the public API (ConfigBuilder -> Discv5::new -> Discv5::start -> the real Service::spawn / Handler::spawn / Socket::new); each node of a case has its own address 127.x.y.z (x, y from the case number) so that bans by IP stay inside the case; keys, payloads, distances, configurations and operation lists from the case PRNG; kinds: basic (A and B: 3..7 of PING / FINDNODE at random distance lists against 0..6 generated records in B's table / TALK with respond, drop, late respond, ENR-less contact, B without event stream; in a third of the cases - four fifths under focus C13 / C04 - A's application bans B's IP and / or node id before the first or second operation, or A's filter has a limit of one unsolicited packet per IP / node in 20 s and B sends PINGs), silent (a request to a bound socket that never answers, request_timeout 300..600 ms, 0..2 retries, query_peer_timeout a quarter or eight times the request timeout), lookup (find_node over 3..7 silent candidates and optionally one live node, request_timeout 300..450 ms, parallelism 2..3, query_peer_timeout 100..200 ms or four request periods, query_timeout 60 s or 500..800 ms), vote (enr_peer_update_min 2..4 honest voters, A's record advertises nothing or another port), mapped (A on an application-supplied dual-stack IPv6 socket, B an IPv4 node whose record carries only its IPv4 socket, a foreign IPv6 socket or its mapped address), crossed (A with an IPv4 and a dual-stack IPv6 socket behind a forwarder that delivers the handshake to the other socket; controls through one socket), sendfail (2..4 rounds: A is handed a PING / FINDNODE / TALK / table entry + lookup for a destination its send task cannot send to - an IPv6 socket address in an application-built contact of an IPv4-only node, or an IPv4 destination that a probe socket on A's address is refused by the OS: limited and loopback broadcast, class E, an unroutable network, port 0 - and 5..80 ms later A sends a PING / FINDNODE / TALK to the live node B, or B sends one to A, or A sends one to a plain UDP listener that decodes every datagram of A with the node id it was addressed to; with and without an established session), held (B's application holds a TALK request of A, which transmits once and waits 8 s; meanwhile B's own FINDNODE [300] to A, which A's decoder rejects, times out for good (request_timeout 300..500 ms, one transmission), or A sends B a FINDNODE [300], or the session, established by an earlier TALK and used by the held one at 60 % of session_timeout 4 s at A, B or both, becomes older than that, or a forwarder delivers 2..4 duplicates of A's first datagram right before A's handshake so that B may issue a second WHOAREYOU next to the new session that expires unanswered; then the application responds or drops the request object and A must receive exactly that within 5 s), dual (A on ListenConfig::DualStack or FromSockets with an IPv4 socket 127.x.y.1 and an IPv6 socket ::1, B4 an IPv4 node, B6 an IPv6-only node on ::1: 4..7 PING / FINDNODE / TALK round trips in both directions, two thirds with B6 - the first and third always, in opposite directions, the second with B4 - half of those right after 1..3 not awaited PINGs of B4 to A; optionally a PING in each direction with each peer first); in basic cases without adversity, a third (two thirds under focus C20) get a leading PING and 1..2 TALK round trips whose request and / or response datagram on the session is 1280, 1279 or 1278 bytes long (lengths computed with the real Message::encode and Packet::encode for the 8-byte request ids of the service; the first case under focus C20 is such a case with one of them exactly 1280 bytes); the first cases of a run go through the kinds in the order of their weight for the focused property and then through the four disturbances of held, the rest is drawn; monitors state lower bounds on time only, every success has 5 s (request_timeout 2.5 s, two transmissions) before it counts as a failure; non-trivial = at least one operation; distinct = new (kind, variant)".to_string();
    sum.write(&o.out);
    println!(
        "e2e{}: {} cases, {} operations, {} distinct non-trivial, {} monitor failure signatures",
        focus.as_ref().map(|f| format!("/{}", f)).unwrap_or_default(),
        sum.evaluations,
        sum.steps,
        sum.distinct_nontrivial,
        sum.monitor_failures.len()
    );
}
