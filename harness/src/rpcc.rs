//! RPC message codec (C06): structured generator and mutation stream, driver of the real
//! `rpc::Message::{encode, decode}`, direct property monitor and the Coq case files for the
//! correspondence with Model/Rlp.v + Model/Rpc.v (runner Run/RpcRun.v).
use crate::common::*;
use alloy_rlp::{Decodable, Error as RlpError, Header};
use discv5::enr::CombinedKey;
use discv5::verif::rpc::{Message, Request, RequestBody, RequestId, Response, ResponseBody};
use discv5::Enr;
use std::collections::BTreeSet;
use std::net::{IpAddr, Ipv4Addr, Ipv6Addr};
use std::num::NonZeroU16;

// --------------------------------------------------------------------------------------------
// An independent writer of the RLP layout of the wire specification, with deliberate deviations
// (header styles) for the mutation stream.

#[derive(Clone, Debug, PartialEq)]
pub enum Hdr {
    /// the canonical header
    Canon,
    /// long form with this many length bytes (leading zeros if the length needs fewer)
    Long(usize),
    /// canonical header for (payload length + delta)
    Delta(i64),
    /// no header at all
    Bare,
    /// a one-byte short header even for a single byte below 0x80
    Forced,
    /// the header of the other kind (string <-> list)
    Flip,
}

#[derive(Clone, Debug)]
pub enum Kind {
    Str(Vec<u8>),
    List(Vec<Node>),
}

#[derive(Clone, Debug)]
pub struct Node {
    pub kind: Kind,
    pub hdr: Hdr,
}

pub fn s(b: &[u8]) -> Node {
    Node { kind: Kind::Str(b.to_vec()), hdr: Hdr::Canon }
}
pub fn l(items: Vec<Node>) -> Node {
    Node { kind: Kind::List(items), hdr: Hdr::Canon }
}
/// big-endian bytes without leading zeros (0 is the empty string)
pub fn be_min(x: u64) -> Vec<u8> {
    let b = x.to_be_bytes();
    let k = b.iter().position(|v| *v != 0).unwrap_or(8);
    b[k..].to_vec()
}
pub fn uint(x: u64) -> Node {
    s(&be_min(x))
}

fn spec_header(list: bool, len: usize, out: &mut Vec<u8>) {
    if len < 56 {
        out.push(if list { 0xc0 } else { 0x80 } + len as u8);
    } else {
        let be = be_min(len as u64);
        out.push(if list { 0xf7 } else { 0xb7 } + be.len() as u8);
        out.extend_from_slice(&be);
    }
}

pub fn enc_node(n: &Node, out: &mut Vec<u8>) {
    let (mut list, payload) = match &n.kind {
        Kind::Str(b) => (false, b.clone()),
        Kind::List(ch) => {
            let mut p = vec![];
            for c in ch {
                enc_node(c, &mut p);
            }
            (true, p)
        }
    };
    let single = !list && payload.len() == 1 && payload[0] < 0x80;
    match &n.hdr {
        Hdr::Canon => {
            if !single {
                spec_header(list, payload.len(), out);
            }
        }
        Hdr::Long(k) => {
            let k = (*k).clamp(1, 8);
            out.push(if list { 0xf7 } else { 0xb7 } + k as u8);
            let be = (payload.len() as u64).to_be_bytes();
            out.extend_from_slice(&be[8 - k..]);
        }
        Hdr::Delta(d) => {
            let len = (payload.len() as i64 + d).max(0) as usize;
            spec_header(list, len, out);
        }
        Hdr::Bare => {}
        Hdr::Forced => spec_header(list, payload.len(), out),
        Hdr::Flip => {
            list = !list;
            spec_header(list, payload.len(), out);
        }
    }
    out.extend_from_slice(&payload);
}

/// Parses canonical RLP (used for records built by the enr crate) into a tree.
pub fn parse_node(b: &[u8]) -> Option<(Node, usize)> {
    let first = *b.first()?;
    if first < 0x80 {
        return Some((s(&b[..1]), 1));
    }
    let (list, hl, len) = if first < 0xb8 {
        (false, 1, (first - 0x80) as usize)
    } else if first < 0xc0 {
        let k = (first - 0xb7) as usize;
        let mut len = 0usize;
        for i in 0..k {
            len = len.checked_mul(256)?.checked_add(*b.get(1 + i)? as usize)?;
        }
        (false, 1 + k, len)
    } else if first < 0xf8 {
        (true, 1, (first - 0xc0) as usize)
    } else {
        let k = (first - 0xf7) as usize;
        let mut len = 0usize;
        for i in 0..k {
            len = len.checked_mul(256)?.checked_add(*b.get(1 + i)? as usize)?;
        }
        (true, 1 + k, len)
    };
    let end = hl.checked_add(len)?;
    if end > b.len() {
        return None;
    }
    let body = &b[hl..end];
    if !list {
        return Some((s(body), end));
    }
    let mut items = vec![];
    let mut off = 0;
    while off < body.len() {
        let (n, used) = parse_node(&body[off..])?;
        items.push(n);
        off += used;
    }
    Some((l(items), end))
}

/// A message on the wire: type byte, the outer list, bytes after it, bytes cut from the end.
#[derive(Clone, Debug)]
pub struct Wire {
    pub ty: u8,
    pub outer: Hdr,
    pub fields: Vec<Node>,
    pub trailer: Vec<u8>,
    pub cut: usize,
}

impl Wire {
    pub fn bytes(&self) -> Vec<u8> {
        let mut out = vec![self.ty];
        enc_node(&Node { kind: Kind::List(self.fields.clone()), hdr: self.outer.clone() }, &mut out);
        out.extend_from_slice(&self.trailer);
        let keep = out.len().saturating_sub(self.cut);
        out.truncate(keep);
        out
    }
}

// --------------------------------------------------------------------------------------------
// Messages

pub fn msg_type(m: &Message) -> u8 {
    match m {
        Message::Request(r) => r.msg_type(),
        Message::Response(r) => r.msg_type(),
    }
}
pub fn msg_id(m: &Message) -> &[u8] {
    match m {
        Message::Request(r) => r.id.as_bytes(),
        Message::Response(r) => r.id.as_bytes(),
    }
}
fn ip_octets(ip: &IpAddr) -> Vec<u8> {
    match ip {
        IpAddr::V4(a) => a.octets().to_vec(),
        IpAddr::V6(a) => a.octets().to_vec(),
    }
}
fn enr_bytes(e: &Enr) -> Vec<u8> {
    alloy_rlp::encode(e)
}

/// The layout of the wire specification: type ‖ rlp_list[request-id, fields...].
pub fn wire_of(m: &Message) -> Wire {
    let id = s(msg_id(m));
    let fields = match m {
        Message::Request(r) => match &r.body {
            RequestBody::Ping { enr_seq } => vec![id, uint(*enr_seq)],
            RequestBody::FindNode { distances } => vec![id, l(distances.iter().map(|d| uint(*d)).collect())],
            RequestBody::Talk { protocol, request } => vec![id, s(protocol), s(request)],
        },
        Message::Response(r) => match &r.body {
            ResponseBody::Pong { enr_seq, ip, port } => {
                vec![id, uint(*enr_seq), s(&ip_octets(ip)), uint(port.get() as u64)]
            }
            ResponseBody::Nodes { total, nodes } => vec![
                id,
                uint(*total),
                l(nodes.iter().map(|e| parse_node(&enr_bytes(e)).expect("record parses").0).collect()),
            ],
            ResponseBody::Talk { response } => vec![id, s(response)],
        },
    };
    Wire { ty: msg_type(m), outer: Hdr::Canon, fields, trailer: vec![], cut: 0 }
}

pub fn coq_bytes(b: &[u8]) -> String {
    let mut s = String::with_capacity(b.len() * 5 + 2);
    s.push('[');
    for (i, x) in b.iter().enumerate() {
        if i > 0 {
            s.push_str("; ");
        }
        s.push_str(&x.to_string());
    }
    s.push(']');
    s
}

pub fn coq_msg(m: &Message) -> String {
    let id = coq_bytes(msg_id(m));
    match m {
        Message::Request(r) => match &r.body {
            RequestBody::Ping { enr_seq } => format!("Ping {} {}", id, enr_seq),
            RequestBody::FindNode { distances } => format!(
                "FindNode {} {}",
                id,
                coq_list(&distances.iter().map(|d| d.to_string()).collect::<Vec<_>>())
            ),
            RequestBody::Talk { protocol, request } => {
                format!("TalkReq {} {} {}", id, coq_bytes(protocol), coq_bytes(request))
            }
        },
        Message::Response(r) => match &r.body {
            ResponseBody::Pong { enr_seq, ip, port } => format!(
                "Pong {} {} ({} {}) {}",
                id,
                enr_seq,
                if ip.is_ipv4() { "IP4" } else { "IP6" },
                coq_bytes(&ip_octets(ip)),
                port.get()
            ),
            ResponseBody::Nodes { total, nodes } => format!(
                "Nodes {} {} {}",
                id,
                total,
                coq_list(&nodes.iter().map(|e| coq_bytes(&enr_bytes(e))).collect::<Vec<_>>())
            ),
            ResponseBody::Talk { response } => format!("TalkResp {} {}", id, coq_bytes(response)),
        },
    }
}

/// `hashN (enc_msg m)` of Run/RpcRun.v
pub fn hash_msg(m: &Message) -> u64 {
    let mut e = HashEnc::new();
    fn bytes(e: &mut HashEnc, b: &[u8]) {
        e.n(b.len() as u64);
        for x in b {
            e.n(*x as u64);
        }
    }
    e.n(msg_type(m) as u64);
    bytes(&mut e, msg_id(m));
    match m {
        Message::Request(r) => match &r.body {
            RequestBody::Ping { enr_seq } => {
                e.n(*enr_seq);
            }
            RequestBody::FindNode { distances } => {
                e.n(distances.len() as u64);
                for d in distances {
                    e.n(*d);
                }
            }
            RequestBody::Talk { protocol, request } => {
                bytes(&mut e, protocol);
                bytes(&mut e, request);
            }
        },
        Message::Response(r) => match &r.body {
            ResponseBody::Pong { enr_seq, ip, port } => {
                e.n(*enr_seq);
                e.n(if ip.is_ipv4() { 4 } else { 6 });
                bytes(&mut e, &ip_octets(ip));
                e.n(port.get() as u64);
            }
            ResponseBody::Nodes { total, nodes } => {
                e.n(*total);
                e.n(nodes.len() as u64);
                for n in nodes {
                    bytes(&mut e, &enr_bytes(n));
                }
            }
            ResponseBody::Talk { response } => bytes(&mut e, response),
        },
    }
    e.value()
}

pub fn err_code(e: &RlpError) -> (u64, String) {
    match e {
        RlpError::Overflow => (1, "Overflow".into()),
        RlpError::LeadingZero => (2, "LeadingZero".into()),
        RlpError::InputTooShort => (3, "InputTooShort".into()),
        RlpError::NonCanonicalSingleByte => (4, "NonCanonicalSingleByte".into()),
        RlpError::NonCanonicalSize => (5, "NonCanonicalSize".into()),
        RlpError::UnexpectedLength => (6, "UnexpectedLength".into()),
        RlpError::UnexpectedString => (7, "UnexpectedString".into()),
        RlpError::UnexpectedList => (8, "UnexpectedList".into()),
        RlpError::Custom(t) => {
            let c = match *t {
                "Invalid ID length" => 101,
                "Invalid format of header" => 102,
                "Reject the extra data" => 103,
                "Payload should be empty" => 104,
                "Incorrect List Length" => 105,
                "PONG response port number invalid" => 106,
                "FINDNODE request distance invalid" => 107,
                "Payload size is smaller than payload_length" => 108,
                "Unknown RPC message type" => 109,
                _ => 198,
            };
            (c, format!("Custom:{}", t))
        }
        other => (197, format!("{:?}", other)),
    }
}

// --------------------------------------------------------------------------------------------
// Record pool: real signed records built with the enr crate, deterministic in the seed.

pub struct PoolRec {
    pub enr: Enr,
    pub bytes: Vec<u8>,
}

fn det_key(rng: &mut Rng, ed: bool) -> CombinedKey {
    loop {
        let mut kb = rng.bytes(32);
        let k = if ed { CombinedKey::ed25519_from_bytes(&mut kb) } else { CombinedKey::secp256k1_from_bytes(&mut kb) };
        if let Ok(k) = k {
            return k;
        }
    }
}

/// Builds fresh records (maintenance, `--print-pool`): secp256k1 signing inside the enr crate draws
/// from the OS random generator, so the run-time pool is the frozen output of one such build.
pub fn build_pool(seed: u64) -> Vec<PoolRec> {
    let mut rng = Rng::new(seed.wrapping_mul(0x9E3779B97F4A7C15) ^ 0xC06);
    let mut pool = vec![];
    for i in 0..14usize {
        let key = det_key(&mut rng, i % 5 == 4);
        let build = |fill: Option<usize>, rng: &mut Rng| -> Option<Enr> {
            let mut b = Enr::builder();
            b.seq(match i % 4 {
                0 => 1,
                1 => 127 + i as u64,
                2 => 1u64 << 40,
                _ => u64::MAX - i as u64,
            });
            if i % 7 != 0 {
                b.ip4(Ipv4Addr::new(10, (i * 17 % 256) as u8, (i % 3) as u8, (i + 1) as u8));
                b.udp4(9000 + i as u16);
            }
            if i % 3 == 0 {
                b.ip6(Ipv6Addr::new(0x2001, 0xdb8, 0, 0, 0, 0, i as u16, 1));
                b.udp6(9001);
            }
            if i % 4 == 1 {
                b.tcp4(30303);
            }
            if let Some(n) = fill {
                let v = alloy_rlp::Bytes::from(rng.bytes(n));
                b.add_value("zfill", &v);
            }
            b.build(&key).ok()
        };
        let enr = if i >= 8 {
            // near-maximal size: the longest filler for which the record still fits MAX_ENR_SIZE
            let mut found = None;
            for n in (60..=230).rev() {
                let mut r2 = rng.clone();
                if let Some(e) = build(Some(n), &mut r2) {
                    found = Some(e);
                    break;
                }
            }
            rng.next();
            let (mut e, n) = found.map(|e| (e, 0usize)).expect("a record with filler fits");
            let _ = n;
            // the builder's size test is conservative by a few bytes; `insert` tests the exact
            // size, so grow the filler until the record has exactly MAX_ENR_SIZE bytes (or, for
            // some records, one or two bytes less)
            let cur = match e.get_decodable::<alloy_rlp::Bytes>("zfill") {
                Some(Ok(b)) => b.len(),
                _ => 0,
            };
            let slack = i % 3; // 0: exactly the maximum
            for d in (1..=12usize).rev() {
                let v = alloy_rlp::Bytes::from(rng.bytes(cur + d));
                let mut e2 = e.clone();
                if e2.insert("zfill", &v, &key).is_ok() && e2.size() + slack <= 300 {
                    e = e2;
                    break;
                }
            }
            e
        } else {
            build(None, &mut rng).expect("record builds")
        };
        let bytes = enr_bytes(&enr);
        pool.push(PoolRec { enr, bytes });
    }
    pool
}

/// Real signed records built once with the enr crate by `build_pool` (12 secp256k1, 2 ed25519
/// keys; with and without ip4/ip6/udp/tcp fields; sequence numbers 1 .. 2^64-1; sizes 127..171
/// and 298..300 bytes = MAX_ENR_SIZE).  Frozen so that every case is byte-for-byte reproducible.
pub const FIXED_POOL: &[&str] = &[
    "f892b8407377de61ed734f73ea93a60df3f34c81f6567d278792b8a8b21ed8eb7d4407dc409cf972780ff446ff1920f0d7e50c7b6c32c3cf7252bbbcd94e759df5957dbd01826964827634836970369020010db800000000000000000000000189736563703235366b31a102727afea0342cb77beff48a033f7c499c526781c9f2ff4bee564548a9bfd97cf78475647036822329",
    "f88cb8407332cf7c55e998aed23c4c372de2d1fa7fcc6e17870e2588dc4293bb2736fbc060c0b4443e2467670d43541ab7442a906dc49311c33a7033765ce8dd945eb6bf8180826964827634826970840a11010289736563703235366b31a1030e20f58d6f6622a8abc153d7d5153e86447ac69b49dd0d32436f10f6a88a61738374637082765f83756470822329",
    "f88ab840eec57c06f19fb9b8f400a430ddabdca041950feefe1e0725803638cfbddd7bf32aa341e72bbdbcfddc842a57a95ec2d8e82a3d1ad14ce44b855438075aecf42886010000000000826964827634826970840a22020389736563703235366b31a1020677339191b9699e49fc63aec18bb4327991d62eb47db3a8eb22e72136cf456d8375647082232a",
    "f8a9b8409e8d33e1381571696fb831eece2b949f186d5b1b6ae13d9bbeac0271c17099547d49edc0921e3b309c2a798ef759481cbcebc4d891c6f2c82e2055b9db851b0b88fffffffffffffffc826964827634826970840a330004836970369020010db800000000000000000003000189736563703235366b31a103a83a83c5eab8dbbbe1109c7b32a0761e887edd097bea7611aba770997a2bc3198375647082232b8475647036822329",
    "f881b8405895c26ada21ab372a8ea9a497525d9fcf228f4f61513ba64c47448cebb87d8c7cd6f8c2e2df510bbc66132e3a1ce1b8afda76e8072707401a4d661647d51501018765643235353139a062ecf55365ee9d8cb732d9e63df26054697f9f544ca5ff7524448ad192c88fc8826964827634826970840a4401058375647082232c",
    "f88cb840becf44e17d4716ac7240446a39dc177eb03bde7b0a9170bb26cd39e2c9e088680fee3d52ffc99d0d6dcbf4bbb8e9f7539114a4f9024464d2421b6bd5c18c57c48184826964827634826970840a55020689736563703235366b31a1024b1629c6b19f2e067f84403261242acfb9f912dc01f4797b7525077ab5a7ecf48374637082765f8375647082232d",
    "f8a7b840b7042c567542c08035daef1c50c598a1f9be622cd270621b3525dac9b50fecea229dfd7df80251dffe972e1d901ba47c5d0ef4ad828e7d9c5c38b2a12980c27586010000000000826964827634826970840a660007836970369020010db800000000000000000006000189736563703235366b31a103939bdf0528cb855fab533d8b7f89c61e7e323844689774200a8b7646553202f78375647082232e8475647036822329",
    "f87db840d2d56d7304c58f384189c69d0c54fefcc8b5a79156669d466b186aabf722313f135e5975225c5c6497a3680d336c5eff626340bbf024af53321bab1e51d34b1388fffffffffffffff882696482763489736563703235366b31a1035b03fb46d62f910332828a76e0c6a5750a5f6ee68b45fc5b87a0ba0b8d9f90c8",
    "f90127b8400918fc03ef373524e4809e0e03ac5508d3535062b479ac8f2cfe6eceea5c7eb96279987ee08bf602345eaef55628aaa78e7b60237acde817b847802ccbb4e94b02826964827634826970840a88020989736563703235366b31a1036301001c4e89657cb4430fc473cdd04898824c3df40e302f3c050938a830211383756470822330857a66696c6cb89b796116072be4e4fd237476fda11d522bb59b8a3b5d1b2ab63bca26e095992a8cd76db89bfa95728eed75fa29725554bcbaf8db30a807336d2c9fdb283b178fc4968ee42288e876b0bfe2eaa7d6f408b907986802391707c72b7f88615751b7564b5a968040feff8d5f505aa89440d64b41f465d4fb6b9dacabd0e4bdb33309f2ca2b3f5ee896c34441dfcca3b313f71fd96cb533f637e6742cfba6",
    "f90129b840862e1f3ac32fbe9ed57a3f91b6fab4b220f4a811fe18264d19008fa8fd3117602a1da1f703a7fd10c948c098c86ef6710da5c92a3b34cdcbef3cf777e9617a0a81898765643235353139a0a2ef7f39ce849adcd43c7737c41eb079aebb6184f2fd0eeb9ef15dee67dda086826964827634826970840a99000a836970369020010db80000000000000000000900018374637082765f837564708223318475647036822329857a66696c6cb87b5d55b35fae323fdfb910aa0363847dbd55fb143191d016c3754075b13e45eb4e107dd77eab1869cd9e8c4486e1301fd6b83cf2476e1c6891f3ed6da656f15d0a9c55bb02c5a15a0f15c2f11585d3daf4290aa5240a9e825812c1d2f39a3fba22ae9621135552a2e4aa8eea057dc0c8cd2abee1af9ba85b7c199b83",
    "f90128b840c7777b0aa9f2a317e4f9907b610c778022c2ce60c3fdc3f9866ec2f94a1f3dd54d442ab271fc6c6ba34d8626b600bc9e899e6aaa414679027009f9c26e40f22986010000000001826964827634826970840aaa010b89736563703235366b31a10331377bf90b6e68878f22498e21d44a49c127e22bb21593ce828a577b74a9694283756470822332857a66696c6cb896e0282d5f5c065c6c337e0a13a1e527dbc3b0b82d77d1b3b6a48a65cfd44390f4562bb4c85d98df8ad6c0e889fb9831207ec7e58d348c6ddbb19c19534f6e656c3401f112fa71eecfe691fe25175fb8629739c06ad9cd5fb536d23893d8d5b7a9fdbb981529e01abf02faca7e5392419127143c0a9a7ffd8b8675b7d386ed8ca874ac7f2660e5017fcfa64c31e184e74efb6ff12a88f1",
    "f90127b840eeb3dc16c6ffb6c5ffd4d7b373637552ccdf3dda7c3f2aad50d479378e037e4e73e55ca6c6463a18640277f8da55f6a4526a8824c616ed7febeef9b7cd56b97588fffffffffffffff5826964827634826970840abb020c89736563703235366b31a102d2de3cc5cadc545b5c7ffddf18d64164bb2ea6d406d780af53472b21a565db8a83756470822333857a66696c6cb893ecab4d6694aeca954e01e3e3abfacf8b6bb5b1616e5020a78e27b31375cfb0bb46002d936f1f08ca31226c58f4c2ab82c21fada301cf6255400e8b620ae125c19dc395d0065af47026b49a12ee54b13b803185e6d6572bcd9c6d008d8f99c23585d9c4ee01bcbd859dcc52dd138a9f6c798b3351524ce2bb62d1b1dcb3f828e10467310b86ec87d832b112a53182b12d82b86b",
    "f90129b840b3a0e03ab816fcb5d5769a01e16c7722d477779fe40ad2f673b5482f8e77ab2c45c190be1e526f69976d0cabb88071f9b9667c214109ef83caf34beb3fdd301502826964827634826970840acc000d836970369020010db80000000000000000000c000189736563703235366b31a103bb13bc6edf8de655b4f26c352b9b7f279c1c368a2ea3a9c2f2f331bc373e4707837564708223348475647036822329857a66696c6cb8800b782dfd2f9f17a3a2ff8262bdc598a2b6f5447e07bed6167638245b77f467b4697f251ecdb0f07f513b7162e5c685e15344bb3184e9b3427056197256890843716b90f888446045a88ab29cd8eb6c97afec49664abf1731fbf5722ac34286f01dc9b76a65b91b6505aa2e0a9f69d90abc447f8a03c7afbf69d630331b9be1f7",
    "f90128b840db6bad7456a348cf1ab7644d1b7b68de22f45f0599dbb9efd299741c69d5efcc2e0950fece9303a783cc8ed02de04df070b5da48c5011035304bd233ea095aa6818d826964827634826970840add010e89736563703235366b31a103e502ac12afdf62359c575fe551e3ae1a34a00d5800c6f6865ca3f68be539f2858374637082765f83756470822335857a66696c6cb894038705252a59bacd8778f6d0e96544a752a79f288d2cec72715cff28866c7629affa8768e334efa31ecd322430a434d49699d4945b18a5e1ec8e85b68bf8a1ec56685b7a3fb0a8618b2856f00c97d89abbdede202c3d5b9edfb46207572496a5c5f3959f53202d5987ef77cc6e67aa2d7ef524a7bb1e3c7a521b58c0f062193c5e4ef924b6c3a54fe9a2ed8ecc458c40189ea27f",
];

pub fn make_pool() -> Vec<PoolRec> {
    FIXED_POOL
        .iter()
        .map(|h| {
            let bytes = hex::decode(h).expect("pool hex");
            let enr = Enr::decode(&mut &bytes[..]).expect("pool record decodes");
            assert_eq!(enr_bytes(&enr), bytes, "pool record is canonical");
            PoolRec { enr, bytes }
        })
        .collect()
}

fn rbytes(rng: &mut Rng, lo: u64, hi: u64) -> Vec<u8> {
    let n = rng.range(lo, hi) as usize;
    rng.bytes(n)
}

// --------------------------------------------------------------------------------------------
// Structured generator

/// What the property text says must happen for a generated input.
#[derive(Clone, Debug, PartialEq)]
pub enum Expect {
    /// a well-formed message: decode(encode(m)) must be exactly this message
    RoundTrip,
    /// well-formed, with an IPv4-mapped/compatible address: decodes to the IPv4 value by design
    RoundTripV4,
    /// the input violates the named rule of the property text and must be rejected
    Reject(&'static str),
    /// no claim beyond no-panic and canonical acceptance
    Any,
}

pub fn gen_id(rng: &mut Rng, hist: &mut Hist) -> Vec<u8> {
    let n = match rng.below(10) {
        0 => 0,
        1 => 1,
        2..=4 => 8,
        _ => rng.below(9) as usize,
    };
    let mut id = rng.bytes(n);
    match rng.below(6) {
        0 if n > 0 => id[0] = 0, // leading zero: ids are byte strings, this is valid
        1 if n > 0 => {
            for b in id.iter_mut() {
                *b = 0
            }
        }
        2 if n > 0 => id[0] &= 0x7f,
        3 if n > 0 => id[0] |= 0x80,
        _ => {}
    }
    hist.add(&format!("id_len:{}", n));
    id
}

pub fn gen_u64(rng: &mut Rng) -> u64 {
    match rng.below(14) {
        0 => 0,
        1 => 1,
        2 => 127,
        3 => 128,
        4 => 255,
        5 => 256,
        6 => 1u64 << 32,
        7 => u64::MAX,
        8 => (1u64 << 56) - 1,
        9 => 1u64 << 56,
        10 => 65535,
        _ => {
            let bits = rng.range(1, 64);
            let x = rng.next();
            if bits == 64 {
                x
            } else {
                x & ((1u64 << bits) - 1)
            }
        }
    }
}

pub fn gen_blob(rng: &mut Rng, hist: &mut Hist, big: bool) -> Vec<u8> {
    let n = match if big { 19 } else { rng.below(19) } {
        0 => 0,
        1 | 2 => 1,
        3..=9 => rng.range(2, 54) as usize,
        10 => 55,
        11 => 56,
        12 => 57,
        13 => *rng.pick(&[255usize, 256, 257]),
        14..=16 => rng.range(58, 200) as usize,
        17 | 18 => rng.range(200, 400) as usize,
        _ => {
            let r = rng.range(400, 1100) as usize;
            *rng.pick(&[401usize, 700, 1000, 1099, 1100, r])
        }
    };
    hist.add(&format!(
        "blob_len:{}",
        match n {
            0 => "0",
            1 => "1",
            2..=54 => "2-54",
            55..=57 => "55-57",
            58..=254 => "58-254",
            255..=257 => "255-257",
            258..=400 => "258-400",
            _ => "401-1100",
        }
    ));
    let mut b = rng.bytes(n);
    if n == 1 {
        match rng.below(4) {
            0 => b[0] = 0,
            1 => b[0] = 0x7f,
            2 => b[0] = 0x80,
            _ => {}
        }
    }
    b
}

pub fn gen_ip(rng: &mut Rng, hist: &mut Hist) -> (IpAddr, bool) {
    let v4 = Ipv4Addr::new(rng.below(256) as u8, rng.below(256) as u8, rng.below(256) as u8, rng.below(256) as u8);
    let o = v4.octets();
    let low = ((o[0] as u16) << 8 | o[1] as u16, (o[2] as u16) << 8 | o[3] as u16);
    let (ip, kind): (IpAddr, &str) = match rng.below(19) {
        0..=3 => (IpAddr::V4(v4), "v4"),
        4 => (IpAddr::V4(*rng.pick(&[Ipv4Addr::new(0, 0, 0, 0), Ipv4Addr::new(127, 0, 0, 1), Ipv4Addr::new(255, 255, 255, 255), Ipv4Addr::new(0, 0, 0, 1)])), "v4-special"),
        5..=7 => {
            let mut b = [0u8; 16];
            b.copy_from_slice(&rng.bytes(16));
            (IpAddr::V6(Ipv6Addr::from(b)), "v6")
        }
        8 | 9 => (IpAddr::V6(v4.to_ipv6_mapped()), "v6-mapped"),
        10 => (IpAddr::V6(Ipv6Addr::new(0, 0, 0, 0, 0, 0, low.0, low.1)), "v6-compatible"),
        11 => (IpAddr::V6(Ipv6Addr::LOCALHOST), "v6-loopback"),
        12 => (IpAddr::V6(Ipv6Addr::UNSPECIFIED), "v6-unspecified"),
        13 => (
            IpAddr::V6(*rng.pick(&[
                Ipv6Addr::new(0, 0, 0, 0, 0, 0xffff, 0, 1),
                Ipv6Addr::new(0, 0, 0, 0, 0, 0xffff, 0, 0),
                Ipv6Addr::new(0, 0, 0, 0, 0, 0, 0, 2),
                Ipv6Addr::new(0, 0, 0, 0, 0, 0, 1, 0),
            ])),
            "v6-collapsing-corner",
        ),
        16..=18 => (
            // other well-known ways of embedding an IPv4 address: genuine IPv6 addresses
            IpAddr::V6(*rng.pick(&[
                Ipv6Addr::new(0x64, 0xff9b, 0, 0, 0, 0, low.0, low.1),        // NAT64 64:ff9b::/96
                Ipv6Addr::new(0x64, 0xff9b, 1, 0, 0, 0, low.0, low.1),        // local-use NAT64 64:ff9b:1::/48
                Ipv6Addr::new(0x2002, low.0, low.1, 0, 0, 0, 0, 1),           // 6to4 2002::/16
                Ipv6Addr::new(0x2001, 0, low.0, low.1, 0, 0, !low.0, !low.1), // Teredo 2001::/32
                Ipv6Addr::new(0xfe80, 0, 0, 0, 0, 0x5efe, low.0, low.1),      // ISATAP
                Ipv6Addr::new(0, 0, 0, 0, 0xffff, 0, low.0, low.1),           // IPv4-translated ::ffff:0:a.b.c.d
            ])),
            "v6-embedding-v4",
        ),
        _ => (
            // near misses of the collapsed forms
            IpAddr::V6(*rng.pick(&[
                Ipv6Addr::new(0, 0, 0, 0, 0, 0xfffe, low.0, low.1),
                Ipv6Addr::new(0, 0, 0, 0, 0, 0x00ff, low.0, low.1),
                Ipv6Addr::new(0, 0, 0, 0, 0, 0xff00, low.0, low.1),
                Ipv6Addr::new(0, 0, 0, 0, 1, 0xffff, low.0, low.1),
                Ipv6Addr::new(1, 0, 0, 0, 0, 0, low.0, low.1),
                Ipv6Addr::new(0, 0, 0, 0, 0x100, 0, low.0, low.1),
                Ipv6Addr::new(0, 0, 0, 0, 0, 0xffff, 0xffff, 0xffff),
            ])),
            "v6-near-miss",
        ),
    };
    hist.add(&format!("ip:{}", kind));
    // does the decoder return the IPv4 value for it (the property's carve-out)?
    let collapses = match ip {
        IpAddr::V6(a) => {
            let b = a.octets();
            a != Ipv6Addr::LOCALHOST && b[..10].iter().all(|x| *x == 0) && ((b[10] == 0 && b[11] == 0) || (b[10] == 0xff && b[11] == 0xff))
        }
        _ => false,
    };
    (ip, collapses)
}

pub fn gen_port(rng: &mut Rng) -> NonZeroU16 {
    let p = match rng.below(8) {
        0 => 1,
        1 => 65535,
        2 => 127,
        3 => 128,
        4 => 255,
        5 => 256,
        _ => rng.range(1, 65535) as u16,
    };
    NonZeroU16::new(p).unwrap()
}

pub fn gen_distances(rng: &mut Rng, hist: &mut Hist, allow_bad: bool) -> (Vec<u64>, bool) {
    let n = match rng.below(10) {
        0 => 0,
        1 | 2 => 1,
        3 | 4 => 3,
        5 => 60,
        _ => rng.below(61) as usize,
    };
    let mut bad = false;
    let mut ds = vec![];
    for _ in 0..n {
        let d = match rng.below(12) {
            0 => 0,
            1 => 256,
            2 => 255,
            3 => 1,
            4 => 127,
            5 => 128,
            6 if allow_bad => {
                bad = true;
                *rng.pick(&[257u64, 258, 1000, 65536, u64::MAX, 1 << 32])
            }
            _ => rng.below(257),
        };
        ds.push(d);
    }
    hist.add(&format!(
        "distances:{}",
        match n {
            0 => "0",
            1 => "1",
            2..=3 => "2-3",
            4..=20 => "4-20",
            _ => "21-60",
        }
    ));
    (ds, bad)
}

pub fn gen_records(rng: &mut Rng, hist: &mut Hist, pool: &[PoolRec]) -> Vec<Enr> {
    let n = match rng.below(8) {
        0 => 0,
        1 | 2 => 1,
        3 => 5,
        _ => rng.below(6) as usize,
    };
    hist.add(&format!("records:{}", n));
    let mut v = vec![];
    for _ in 0..n {
        let r = rng.pick(pool);
        hist.add(if r.bytes.len() > 250 { "record_size:near-max" } else { "record_size:realistic" });
        v.push(r.enr.clone());
    }
    v
}

/// A message the Rust types can hold. `bad_ok`: may also violate a decoder rule (id > 8, distance > 256).
pub fn gen_msg(rng: &mut Rng, hist: &mut Hist, pool: &[PoolRec], bad_ok: bool, ty: Option<u8>) -> (Message, Expect) {
    let mut expect = Expect::RoundTrip;
    let mut id = gen_id(rng, hist);
    if bad_ok && rng.chance(1, 12) {
        id = rbytes(rng, 9, 12);
        // half of them begin with zero bytes (ids are byte strings, not integers: the zeros count)
        if rng.chance(1, 2) {
            let z = rng.range(1, id.len() as u64 - 1) as usize;
            for b in id.iter_mut().take(z) {
                *b = 0;
            }
        }
        hist.add("id_len:9+");
        expect = Expect::Reject("request id longer than 8 bytes");
    }
    let id = RequestId(id);
    let ty = ty.unwrap_or_else(|| rng.range(1, 6) as u8);
    let m = match ty {
        1 => Message::Request(Request { id, body: RequestBody::Ping { enr_seq: gen_u64(rng) } }),
        2 => {
            let (ip, collapses) = gen_ip(rng, hist);
            if collapses && expect == Expect::RoundTrip {
                expect = Expect::RoundTripV4;
            }
            Message::Response(Response { id, body: ResponseBody::Pong { enr_seq: gen_u64(rng), ip, port: gen_port(rng) } })
        }
        3 => {
            let allow_bad = bad_ok && rng.chance(1, 4);
            let (distances, bad) = gen_distances(rng, hist, allow_bad);
            if bad && expect == Expect::RoundTrip {
                expect = Expect::Reject("distance above 256");
            }
            Message::Request(Request { id, body: RequestBody::FindNode { distances } })
        }
        4 => Message::Response(Response { id, body: ResponseBody::Nodes { total: gen_u64(rng), nodes: gen_records(rng, hist, pool) } }),
        5 => {
            let big = rng.chance(1, 9);
            Message::Request(Request { id, body: RequestBody::Talk { protocol: gen_blob(rng, hist, false), request: gen_blob(rng, hist, big) } })
        }
        _ => {
            let big = rng.chance(1, 9);
            Message::Response(Response { id, body: ResponseBody::Talk { response: gen_blob(rng, hist, big) } })
        }
    };
    (m, expect)
}

// --------------------------------------------------------------------------------------------
// Mutation stream over valid encodings (on the layout tree, so that the lengths of the enclosing
// items stay consistent unless the mutation is about them)

fn all_paths(fields: &[Node]) -> Vec<Vec<usize>> {
    fn walk(n: &Node, path: &mut Vec<usize>, out: &mut Vec<Vec<usize>>) {
        out.push(path.clone());
        if let Kind::List(ch) = &n.kind {
            for (i, c) in ch.iter().enumerate() {
                path.push(i);
                walk(c, path, out);
                path.pop();
            }
        }
    }
    let mut out = vec![];
    for (i, f) in fields.iter().enumerate() {
        let mut p = vec![i];
        walk(f, &mut p, &mut out);
    }
    out
}
fn node_mut<'a>(fields: &'a mut [Node], path: &[usize]) -> &'a mut Node {
    let mut n = &mut fields[path[0]];
    for i in &path[1..] {
        n = match &mut n.kind {
            Kind::List(ch) => &mut ch[*i],
            _ => unreachable!(),
        };
    }
    n
}

/// Applies one mutation; returns its label and what the property text demands of the result.
pub fn mutate(rng: &mut Rng, w: &mut Wire, pool: &[PoolRec]) -> (&'static str, Expect) {
    let paths = all_paths(&w.fields);
    // the top-level paths (fields) are more interesting than record internals
    let top: Vec<Vec<usize>> = paths.iter().filter(|p| p.len() <= 2).cloned().collect();
    let pick_path = |rng: &mut Rng| -> Vec<usize> {
        if rng.chance(3, 4) && !top.is_empty() {
            rng.pick(&top).clone()
        } else {
            rng.pick(&paths).clone()
        }
    };
    // the mutations that are specific to PONG / FINDNODE / NODES get extra weight
    let specific = matches!(w.ty, 2 | 3 | 4) && rng.chance(2, 5);
    let choice = if specific { 19 } else { rng.below(30) };
    match choice {
        0 => {
            w.trailer = rbytes(rng, 1, 3);
            ("trailing-after-outer-list", Expect::Reject("trailing bytes"))
        }
        1 => {
            // an extra item at the end of the outer list (outer header adjusted)
            let extra = match rng.below(4) {
                0 => uint(gen_u64(rng)),
                1 => s(&rbytes(rng, 0, 5)),
                2 => l(vec![]),
                _ => s(&[0x01]),
            };
            w.fields.push(extra);
            ("extra-field", Expect::Reject("trailing bytes"))
        }
        2 => {
            w.cut = rng.range(1, 4) as usize;
            ("truncated", Expect::Reject("missing bytes"))
        }
        3 => {
            let total = w.bytes().len();
            w.cut = rng.range(1, total.max(2) as u64 - 1) as usize;
            ("truncated-anywhere", Expect::Reject("missing bytes"))
        }
        4 => {
            w.outer = Hdr::Delta(-(rng.range(1, 3) as i64));
            ("outer-length-short", Expect::Reject("trailing bytes"))
        }
        5 => {
            w.outer = Hdr::Delta(rng.range(1, 3) as i64);
            ("outer-length-long", Expect::Reject("missing bytes"))
        }
        6 => {
            w.fields.pop();
            ("missing-last-field", Expect::Reject("missing bytes"))
        }
        7 => {
            let old = w.ty;
            w.ty = match rng.below(4) {
                0 => 0,
                1 => 7,
                2 => rng.below(256) as u8,
                _ => rng.range(1, 6) as u8,
            };
            if w.ty == old {
                w.ty = 0;
            }
            if w.ty == 0 || w.ty > 6 {
                ("unknown-type", Expect::Reject("unknown message type"))
            } else {
                ("swapped-type", Expect::Any)
            }
        }
        8 => {
            let mut long_id = rbytes(rng, 9, 14);
            if rng.chance(1, 2) {
                let z = rng.range(1, long_id.len() as u64 - 1) as usize;
                for b in long_id.iter_mut().take(z) {
                    *b = 0;
                }
            }
            w.fields[0] = s(&long_id);
            ("id-9-bytes", Expect::Reject("request id longer than 8 bytes"))
        }
        9 => {
            w.outer = Hdr::Flip;
            ("outer-is-a-string", Expect::Reject("non-list"))
        }
        10 | 11 => {
            // header form of some item: long form for a short payload, leading zero in the length
            let p = pick_path(rng);
            let n = node_mut(&mut w.fields, &p);
            n.hdr = Hdr::Long(rng.range(1, 3) as usize);
            ("item-long-form-header", Expect::Any)
        }
        12 => {
            let p = pick_path(rng);
            let n = node_mut(&mut w.fields, &p);
            n.hdr = Hdr::Forced;
            ("item-forced-header", Expect::Any)
        }
        13 | 14 => {
            // nested boundary shift: an item claims more or fewer bytes, enclosing lengths unchanged
            let p = pick_path(rng);
            let n = node_mut(&mut w.fields, &p);
            let d = *rng.pick(&[-2i64, -1, 1, 2, 5]);
            n.hdr = Hdr::Delta(d);
            ("item-length-shift", Expect::Any)
        }
        15 => {
            let p = pick_path(rng);
            let n = node_mut(&mut w.fields, &p);
            n.hdr = Hdr::Flip;
            ("item-kind-flip", Expect::Any)
        }
        16 => {
            let p = pick_path(rng);
            let n = node_mut(&mut w.fields, &p);
            n.hdr = Hdr::Bare;
            ("item-without-header", Expect::Any)
        }
        17 | 18 => {
            // non-canonical integers (fields after the id that are integers in some message type)
            let i = if w.fields.len() > 1 { rng.range(1, w.fields.len() as u64 - 1) as usize } else { 0 };
            let v = gen_u64(rng);
            let mut b = be_min(v);
            let label = match rng.below(4) {
                0 => {
                    b.insert(0, 0);
                    "integer-leading-zero"
                }
                1 => {
                    b = vec![0];
                    "integer-single-zero-byte"
                }
                2 => {
                    b = rng.bytes(9);
                    b[0] |= 1;
                    "integer-9-bytes"
                }
                _ => {
                    b = vec![];
                    "integer-empty-string"
                }
            };
            w.fields[i] = s(&b);
            (label, Expect::Any)
        }
        19 | 20 if w.ty == 2 && w.fields.len() == 4 => {
            // PONG: port and address fields
            match rng.below(5) {
                0 => {
                    w.fields[3] = uint(0);
                    ("pong-port-0", Expect::Reject("zero port"))
                }
                1 => {
                    w.fields[3] = uint(*rng.pick(&[65536u64, 70000, 1 << 24, u64::MAX]));
                    ("pong-port-above-u16", Expect::Any)
                }
                2 => {
                    w.fields[3] = s(&[0, 80]);
                    ("pong-port-leading-zero", Expect::Any)
                }
                _ => {
                    let n = *rng.pick(&[0usize, 1, 3, 5, 8, 15, 17, 20, 32]);
                    w.fields[2] = s(&rng.bytes(n));
                    ("pong-ip-length", Expect::Reject("IP length"))
                }
            }
        }
        19 | 20 if w.ty == 3 && w.fields.len() == 2 => {
            // FINDNODE: the distance list
            match rng.below(4) {
                0 => {
                    let d = *rng.pick(&[257u64, 300, 65535, 1 << 40, u64::MAX]);
                    if let Kind::List(ch) = &mut w.fields[1].kind {
                        let at = rng.below(ch.len() as u64 + 1) as usize;
                        ch.insert(at, uint(d));
                    }
                    ("findnode-distance-above-256", Expect::Reject("distance above 256"))
                }
                1 => {
                    if let Kind::List(ch) = &mut w.fields[1].kind {
                        ch.push(l(vec![uint(3)]));
                    }
                    ("findnode-nested-list", Expect::Any)
                }
                2 => {
                    w.fields[1] = uint(rng.below(257));
                    ("findnode-distance-not-a-list", Expect::Any)
                }
                _ => {
                    if let Kind::List(ch) = &mut w.fields[1].kind {
                        ch.push(s(&rng.bytes(9)));
                    }
                    ("findnode-distance-9-bytes", Expect::Any)
                }
            }
        }
        19..=23 if w.ty == 4 && w.fields.len() == 3 => {
            // NODES: the record list
            let rec = |rng: &mut Rng| parse_node(&rng.pick(pool).bytes).unwrap().0;
            let nrec = match &w.fields[2].kind {
                Kind::List(ch) => ch.len(),
                _ => 0,
            };
            match rng.below(9) {
                0 => {
                    // the D9 shape: valid records after an inner list that is already closed
                    let extra = rec(rng);
                    w.fields.push(extra);
                    ("nodes-record-after-inner-list", Expect::Reject("NODES inner list length not checked"))
                }
                1 if nrec > 0 => {
                    // the inner header covers only a prefix of the records
                    if let Kind::List(ch) = &mut w.fields[2].kind {
                        let last = ch.pop().unwrap();
                        w.fields.push(last);
                    }
                    ("nodes-inner-list-closes-early", Expect::Reject("NODES inner list length not checked"))
                }
                2 if nrec > 0 => {
                    // a flipped byte inside a record (content or signature)
                    if let Kind::List(ch) = &mut w.fields[2].kind {
                        let k = rng.below(ch.len() as u64) as usize;
                        let paths = all_paths(std::slice::from_ref(&ch[k]));
                        let leaves: Vec<&Vec<usize>> = paths.iter().filter(|p| p.len() == 2).collect();
                        if leaves.is_empty() {
                            ch[k] = l(vec![s(&[1])]);
                            return ("nodes-record-bit-flip", Expect::Reject("invalid record"));
                        }
                        let p = (*rng.pick(&leaves)).clone();
                        let leaf = node_mut(std::slice::from_mut(&mut ch[k]), &p);
                        if let Kind::Str(b) = &mut leaf.kind {
                            if b.is_empty() {
                                b.push(1);
                            } else {
                                let at = rng.below(b.len() as u64) as usize;
                                b[at] ^= 1 << rng.below(8);
                            }
                        }
                    }
                    ("nodes-record-bit-flip", Expect::Reject("invalid record"))
                }
                3 if nrec > 0 => {
                    // a record with an item appended inside its list (the record's header adjusted)
                    if let Kind::List(ch) = &mut w.fields[2].kind {
                        let k = rng.below(ch.len() as u64) as usize;
                        if let Kind::List(items) = &mut ch[k].kind {
                            items.push(s(b"zz"));
                            items.push(s(&[1]));
                        }
                    }
                    ("nodes-record-padded", Expect::Reject("invalid record"))
                }
                4 => {
                    if let Kind::List(ch) = &mut w.fields[2].kind {
                        ch.push(s(&rbytes(rng, 0, 40)));
                    }
                    ("nodes-record-is-a-string", Expect::Reject("invalid record"))
                }
                5 => {
                    // an unsigned oversized "record"
                    if let Kind::List(ch) = &mut w.fields[2].kind {
                        ch.push(l(vec![s(&rng.bytes(64)), uint(1), s(b"id"), s(b"v4"), s(b"zfill"), s(&rng.bytes(260))]));
                    }
                    ("nodes-record-oversized", Expect::Reject("invalid record"))
                }
                6 => {
                    if let Kind::List(ch) = &mut w.fields[2].kind {
                        ch.push(l(vec![]));
                    }
                    ("nodes-record-empty-list", Expect::Reject("invalid record"))
                }
                7 if nrec > 0 => {
                    // the record's own header is one byte short / long, enclosing lengths consistent
                    if let Kind::List(ch) = &mut w.fields[2].kind {
                        let k = rng.below(ch.len() as u64) as usize;
                        ch[k].hdr = Hdr::Delta(*rng.pick(&[-1i64, 1, -3, 3]));
                    }
                    ("nodes-record-header-shift", Expect::Reject("invalid record"))
                }
                _ => {
                    let inner_len = {
                        let mut b = vec![];
                        enc_node(&Node { kind: w.fields[2].kind.clone(), hdr: Hdr::Bare }, &mut b);
                        b.len()
                    };
                    let d = if inner_len == 0 { *rng.pick(&[1i64, 10, 100]) } else { *rng.pick(&[-1i64, 1, -10, 10, 100]) };
                    w.fields[2].hdr = Hdr::Delta(d);
                    ("nodes-inner-list-length-shift", Expect::Reject("NODES inner list length not checked"))
                }
            }
        }
        24 => {
            // duplicate a field
            let i = rng.below(w.fields.len() as u64) as usize;
            let f = w.fields[i].clone();
            w.fields.insert(i, f);
            ("duplicated-field", Expect::Any)
        }
        25 => {
            w.outer = Hdr::Long(rng.range(1, 8) as usize);
            ("outer-long-form", Expect::Any)
        }
        _ => {
            // replace a field by another kind of item
            let i = rng.below(w.fields.len() as u64) as usize;
            w.fields[i] = match rng.below(4) {
                0 => l(vec![]),
                1 => s(&[]),
                2 => l(vec![uint(gen_u64(rng))]),
                _ => s(&rbytes(rng, 1, 60)),
            };
            ("field-replaced", Expect::Any)
        }
    }
}

/// byte-level mutation of an encoding
pub fn mutate_bytes(rng: &mut Rng, b: &mut Vec<u8>) -> &'static str {
    if b.is_empty() {
        b.push(rng.below(256) as u8);
        return "bytes-extended";
    }
    match rng.below(7) {
        0 => {
            let at = rng.below(b.len() as u64) as usize;
            b[at] ^= 1 << rng.below(8);
            "bit-flip"
        }
        1 => {
            // edit one of the first bytes (type, outer header, id header)
            let at = rng.below(b.len().min(6) as u64) as usize;
            b[at] = b[at].wrapping_add(*rng.pick(&[1u8, 255, 2, 0x40, 0x80]));
            "early-byte-edit"
        }
        2 => {
            let at = rng.below(b.len() as u64) as usize;
            b[at] = *rng.pick(&[0u8, 0x7f, 0x80, 0x81, 0xb7, 0xb8, 0xbf, 0xc0, 0xc1, 0xf7, 0xf8, 0xff]);
            "header-code-byte"
        }
        3 => {
            let k = rng.range(1, b.len() as u64) as usize;
            b.truncate(b.len() - k);
            "bytes-truncated"
        }
        4 => {
            let extra = rbytes(rng, 1, 6);
            b.extend_from_slice(&extra);
            "bytes-extended"
        }
        5 => {
            let at = rng.below(b.len() as u64 + 1) as usize;
            b.insert(at, rng.below(256) as u8);
            "byte-inserted"
        }
        _ => {
            let at = rng.below(b.len() as u64) as usize;
            b.remove(at);
            "byte-removed"
        }
    }
}

// --------------------------------------------------------------------------------------------
// The oracle for the opaque record codec of the model: what the real Enr::decode answers on every
// slice of the input that is one RLP list item (accepted slices only; every other slice is
// rejected).

pub fn record_oracle(bs: &[u8]) -> Vec<(usize, usize, Option<Vec<u8>>)> {
    let mut out = vec![];
    for off in 0..bs.len() {
        let mut view = &bs[off..];
        let h = match Header::decode(&mut view) {
            Ok(h) => h,
            Err(_) => continue,
        };
        if !h.list {
            continue;
        }
        let lwp = h.length_with_payload();
        if lwp > bs.len() - off {
            continue;
        }
        let slice = &bs[off..off + lwp];
        if let Ok(Ok(e)) = catch(std::panic::AssertUnwindSafe(|| Enr::decode(&mut &slice[..]))) {
            let re = enr_bytes(&e);
            out.push((off, lwp, if re == slice { None } else { Some(re) }));
        }
    }
    out
}

// --------------------------------------------------------------------------------------------
// Cases

pub enum Input {
    Msg(Message),
    Bytes(Vec<u8>),
}

pub struct Case {
    pub input: Input,
    pub expect: Expect,
    pub label: String,
}

fn scripted(pool: &[PoolRec]) -> Vec<Case> {
    let r0 = &pool[1].bytes;
    let mut v: Vec<Case> = vec![];
    let mut raw = |label: &str, b: Vec<u8>, e: Expect| v.push(Case { input: Input::Bytes(b), expect: e, label: label.to_string() });
    // DESIGN.md section 7, D9: 04 ‖ list[01, 01, c0, <record>]
    let d9 = Wire { ty: 4, outer: Hdr::Canon, fields: vec![s(&[1]), uint(1), l(vec![]), parse_node(r0).unwrap().0], trailer: vec![], cut: 0 };
    raw("scripted:d9", d9.bytes(), Expect::Reject("NODES inner list length not checked"));
    raw("scripted:empty", vec![], Expect::Reject("missing bytes"));
    raw("scripted:one-byte", vec![1], Expect::Reject("missing bytes"));
    raw("scripted:two-bytes", vec![1, 0xc0], Expect::Reject("missing bytes"));
    raw("scripted:ping-empty-list", vec![1, 0xc0, 0x00], Expect::Reject("trailing bytes"));
    // the vectors of rpc.rs::tests::reject_extra_data
    raw("scripted:talkresp-ok", vec![6, 194, 0, 75], Expect::Any);
    raw("scripted:extra-1", vec![6, 193, 0, 75, 252], Expect::Reject("trailing bytes"));
    raw("scripted:extra-2", vec![6, 194, 0, 75, 252], Expect::Reject("trailing bytes"));
    raw("scripted:extra-3", vec![6, 193, 0, 63], Expect::Reject("trailing bytes"));
    raw("scripted:extra-4", vec![6, 193, 128, 75], Expect::Reject("trailing bytes"));
    raw("scripted:extra-5", vec![6, 193, 128, 128], Expect::Reject("trailing bytes"));
    // long-form outer header with the maximal length (payload_length = 2^64 - 1)
    raw("scripted:huge-length", vec![1, 0xff, 255, 255, 255, 255, 255, 255, 255, 255, 1, 1], Expect::Reject("missing bytes"));
    raw("scripted:huge-string", vec![1, 0xc9, 0xbf, 255, 255, 255, 255, 255, 255, 255, 255], Expect::Reject("missing bytes"));
    raw("scripted:ping-min", vec![1, 0xc2, 0x80, 0x80], Expect::Any);
    raw("scripted:nodes-empty", vec![4, 0xc3, 1, 1, 0xc0], Expect::Any);
    raw("scripted:nodes-no-list", vec![4, 0xc2, 1, 1], Expect::Reject("missing bytes"));
    v
}

fn build_case(rng: &mut Rng, idx: u64, pool: &[PoolRec], hist: &mut Hist, thorough: bool) -> Case {
    let scr = scripted(pool);
    if (idx as usize) < scr.len() {
        return scr.into_iter().nth(idx as usize).unwrap();
    }
    let _ = thorough;
    match rng.weighted(&[30, 50, 14, 6]) {
        0 => {
            let (m, expect) = gen_msg(rng, hist, pool, true, None);
            Case { input: Input::Msg(m), expect, label: "message".into() }
        }
        1 => {
            // a valid message, 1-2 mutations of its layout tree
            let ty = if rng.chance(1, 3) { Some(4) } else if rng.chance(1, 4) { Some(2) } else { None };
            let (m, _) = gen_msg(rng, hist, pool, false, ty);
            let mut w = wire_of(&m);
            let (label, mut expect) = mutate(rng, &mut w, pool);
            let mut label = label.to_string();
            if rng.chance(1, 6) {
                let (l2, _) = mutate(rng, &mut w, pool);
                label = format!("{}+{}", label, l2);
                // two mutations can interfere (e.g. the second one removes the offending field)
                expect = Expect::Any;
            }
            Case { input: Input::Bytes(w.bytes()), expect, label: format!("tree:{}", label) }
        }
        2 => {
            let (m, _) = gen_msg(rng, hist, pool, false, None);
            let mut b = wire_of(&m).bytes();
            let mut label = mutate_bytes(rng, &mut b).to_string();
            if rng.chance(1, 4) {
                label = format!("{}+{}", label, mutate_bytes(rng, &mut b));
            }
            Case { input: Input::Bytes(b), expect: Expect::Any, label: format!("bytes:{}", label) }
        }
        _ => {
            let n = rng.below(24) as usize;
            let mut b = rng.bytes(n);
            if n > 0 && rng.chance(3, 4) {
                b[0] = rng.range(1, 6) as u8;
            }
            if n > 1 && rng.chance(1, 2) {
                b[1] = 0xc0 + (n - 2).min(55) as u8;
            }
            Case { input: Input::Bytes(b), expect: Expect::Any, label: "junk".into() }
        }
    }
}

pub struct CaseResult {
    pub coq: String,
    pub failures: Vec<(String, String)>, // (signature tail, description)
    pub nontrivial: bool,
    pub canon: u64,
    pub bytes: Vec<u8>,
}

fn fnv(b: &[u8]) -> u64 {
    let mut h: u64 = 1469598103934665603;
    for c in b {
        h = (h ^ *c as u64).wrapping_mul(1099511628211);
    }
    h
}

/// Does the inner list header of a type-4 message cover exactly the rest of the payload?
/// (walks the layout with the spec's own rules; None if the input does not get that far)
fn nodes_inner_header_exact(bs: &[u8]) -> Option<bool> {
    if bs.first() != Some(&4) {
        return None;
    }
    let mut p = &bs[1..];
    let h = Header::decode(&mut p).ok()?;
    if !h.list {
        return None;
    }
    let _id = Header::decode_bytes(&mut p, false).ok()?;
    let _total = Header::decode_bytes(&mut p, false).ok()?;
    let inner = Header::decode(&mut p).ok()?;
    Some(inner.list && inner.payload_length == p.len())
}

pub fn run_case(id: u64, c: &Case, hist: &mut Hist) -> CaseResult {
    let mut failures: Vec<(String, String)> = vec![];
    // ---- encode (structured inputs)
    let (bs, coq_in): (Vec<u8>, String) = match &c.input {
        Input::Msg(m) => {
            let enc = catch(std::panic::AssertUnwindSafe(|| m.clone().encode()));
            match enc {
                Ok(b) => {
                    // "the bytes equal the RLP layout of the specification"
                    let spec = wire_of(m).bytes();
                    if spec != b {
                        failures.push((
                            "encoded bytes differ from the RLP layout of the specification".into(),
                            format!("encode({}) = {} but the layout is {}", coq_msg(m), hex::encode(&b), hex::encode(&spec)),
                        ));
                    }
                    let s = format!("InMsg ({}) {}", coq_msg(m), coq_bytes(&b));
                    (b, s)
                }
                Err(p) => {
                    failures.push(("panic in encode".into(), format!("encode({}) panicked: {}", coq_msg(m), p)));
                    (vec![], "InBytes []".to_string())
                }
            }
        }
        Input::Bytes(b) => (b.clone(), format!("InBytes {}", coq_bytes(b))),
    };
    hist.add(&format!(
        "input_len:{}",
        match bs.len() {
            0..=2 => "0-2",
            3..=20 => "3-20",
            21..=100 => "21-100",
            101..=400 => "101-400",
            401..=800 => "401-800",
            _ => "801+",
        }
    ));
    hist.add(&format!("type_byte:{}", bs.first().map(|t| if *t <= 7 { t.to_string() } else { "8+".into() }).unwrap_or("none".into())));
    hist.add(&format!("kind:{}", c.label.split('+').next().unwrap()));
    // ---- decode
    let res = catch(std::panic::AssertUnwindSafe(|| Message::decode(&bs)));
    let (class, x, nontrivial) = match &res {
        Ok(Ok(m)) => {
            hist.add(&format!("result:Ok:{}", msg_type(m)));
            (0u64, hash_msg(m), true)
        }
        Ok(Err(e)) => {
            let (code, name) = err_code(e);
            hist.add(&format!("result:Err:{}", name));
            (1, code, bs.len() >= 3)
        }
        Err(p) => {
            hist.add("result:panic");
            failures.push(("panic in decode".into(), format!("decode({}) panicked: {}", hex::encode(&bs), p)));
            (2, 0, true)
        }
    };
    // ---- monitor: written from the property text
    match (&c.input, &c.expect, &res) {
        (Input::Msg(m), Expect::RoundTrip, Ok(r)) => {
            if r.as_ref().ok() != Some(m) {
                failures.push((
                    "round trip of a well-formed message".into(),
                    format!("decode(encode({})) = {:?}", coq_msg(m), r),
                ));
                // C11: a responder is judged by what its NODES packets hold; a packet that is not even
                // decoded because of the total it claims is never validated (and its sender never banned)
                if let Message::Response(Response { body: ResponseBody::Nodes { total, .. }, .. }) = m {
                    if r.is_err() {
                        failures.push((
                            "@C11 a well-formed NODES packet is rejected by the decoder".into(),
                            format!("decode(encode({})) = {:?}: a NODES packet claiming total {} is dropped before its records are looked at - its sender escapes validation and the ban", coq_msg(m), r, total),
                        ));
                    }
                }
            }
        }
        (Input::Msg(m), Expect::RoundTripV4, Ok(r)) => {
            // IPv4-mapped/compatible: decodes to the IPv4 value by design, everything else equal
            let ok = match (m, r) {
                (Message::Response(a), Ok(Message::Response(b))) => match (&a.body, &b.body) {
                    (ResponseBody::Pong { enr_seq: s1, ip: IpAddr::V6(i1), port: p1 }, ResponseBody::Pong { enr_seq: s2, ip: IpAddr::V4(i2), port: p2 }) => {
                        a.id == b.id && s1 == s2 && p1 == p2 && i1.octets()[12..] == i2.octets()
                    }
                    _ => false,
                },
                _ => false,
            };
            if !ok {
                failures.push((
                    "round trip of a well-formed message (IPv4-mapped address)".into(),
                    format!("decode(encode({})) = {:?}", coq_msg(m), r),
                ));
            }
        }
        (_, Expect::Reject(rule), Ok(Ok(m))) => {
            let sig = if rule.starts_with("NODES") { rule.to_string() } else { format!("{} accepted", rule) };
            failures.push((sig, format!("decode({}) = Ok({}) [{}]", hex::encode(&bs), coq_msg(m), c.label)));
        }
        _ => {}
    }
    if let Ok(Ok(m)) = &res {
        // strictness: an accepted byte string is the canonical encoding of what it decodes to.  The
        // one carve-out of the property text: a 16-byte address of the IPv4-mapped/compatible form
        // decodes to the IPv4 value.
        let re = catch(std::panic::AssertUnwindSafe(|| m.clone().encode())).unwrap_or_default();
        if re != bs {
            let carve_out = match m {
                Message::Response(Response { body: ResponseBody::Pong { ip: IpAddr::V4(_), .. }, .. }) => re.len() + 12 == bs.len(),
                _ => false,
            };
            if !carve_out {
                let sig = if nodes_inner_header_exact(&bs) == Some(false) {
                    "NODES inner list length not checked".to_string()
                } else {
                    "accepted bytes are not the canonical encoding (trailing, missing or non-canonical bytes)".to_string()
                };
                failures.push((sig, format!("decode({}) = Ok({}) which encodes to {} [{}]", hex::encode(&bs), coq_msg(m), hex::encode(&re), c.label)));
            }
        }
        if msg_id(m).len() > 8 {
            failures.push(("request id longer than 8 bytes accepted".into(), format!("decode({}) has a {}-byte id", hex::encode(&bs), msg_id(m).len())));
        }
        if let Message::Request(Request { body: RequestBody::FindNode { distances }, .. }) = m {
            if distances.iter().any(|d| *d > 256) {
                failures.push(("distance above 256 accepted".into(), format!("decode({}) = {}", hex::encode(&bs), coq_msg(m))));
            }
        }
        if let Message::Response(Response { body: ResponseBody::Nodes { nodes, .. }, .. }) = m {
            if nodes.iter().any(|n| !n.verify()) {
                failures.push(("invalid record accepted".into(), format!("decode({}) holds a record whose signature does not verify", hex::encode(&bs))));
            }
        }
    }
    failures.dedup_by(|a, b| a.0 == b.0);
    // ---- the Coq case
    let oracle = record_oracle(&bs);
    if !oracle.is_empty() {
        hist.addn("oracle:accepted_record_slices", oracle.len() as u64);
        if oracle.iter().any(|o| o.2.is_some()) {
            hist.add("oracle:non_canonical_record_accepted");
        }
    }
    let ocoq = coq_list(
        &oracle
            .iter()
            .map(|(off, n, r)| format!("({}%nat, {}%nat, {})", off, n, coq_opt(r.as_ref().map(|b| coq_bytes(b)))))
            .collect::<Vec<_>>(),
    );
    let coq = format!("({}, {}, {}, ({}, {}))", id, coq_in, ocoq, class, x);
    CaseResult { coq, failures, nontrivial, canon: fnv(&bs), bytes: bs }
}

pub fn case_rng(seed: u64, idx: u64) -> Rng {
    Rng::new(seed.wrapping_mul(0x9E3779B97F4A7C15).wrapping_add(idx.wrapping_mul(0xD1B54A32D192ED03)).wrapping_add(0xC06))
}

pub const HEADER: &str = "From Coq Require Import List NArith.\nImport ListNotations.\nFrom Discv5V Require Import Model.Rlp Model.Rpc Run.Common Run.RpcRun.\nOpen Scope N_scope.";

/// `harness rpcc --seed S --cases N --out DIR [--only I] [--pinned] [--strict-errors]`
pub fn main(args: &[String]) {
    let o = parse_opts(args);
    let mut only: Option<u64> = None;
    let mut pinned = false;
    let mut strict = false;
    let mut i = 0;
    while i < o.rest.len() {
        match o.rest[i].as_str() {
            "--only" => {
                only = Some(o.rest[i + 1].parse().unwrap());
                i += 1;
            }
            // compare with the model of the pinned tree (before the repair of D9)
            "--pinned" => pinned = true,
            // compare the texts of Error::Custom as well (not only the error kind)
            "--strict-errors" => strict = true,
            _ => {}
        }
        i += 1;
    }
    let check_fn = match (pinned, strict) {
        (false, false) => "check_all",
        (false, true) => "check_all_strict",
        (true, false) => "check_all_pinned",
        (true, true) => "check_all_pinned_strict",
    };
    if o.rest.iter().any(|a| a == "--print-pool") {
        // maintenance: prints freshly built records (paste them into FIXED_POOL)
        for p in build_pool(o.seed) {
            println!("    \"{}\",", hex::encode(&p.bytes));
        }
        return;
    }
    let pool = make_pool();
    let mut sum = Summary::new("rpcc");
    for p in &pool {
        sum.hist.add(&format!("pool_record_size:{}", p.bytes.len()));
    }
    let per_file = if o.thorough { 160 } else { ((o.cases as usize + 15) / 16).max(8) };
    let mut w = CaseWriter::new(&o.out, "rpc_cases", HEADER, "rcase", check_fn, per_file);
    let mut canon: BTreeSet<u64> = BTreeSet::new();
    let mut seen_sig: BTreeSet<String> = BTreeSet::new();
    let range: Vec<u64> = match only {
        Some(x) => vec![x],
        None => (0..o.cases).collect(),
    };
    for idx in range {
        let mut rng = case_rng(o.seed, idx);
        // a panic here is a bug of the harness itself (the implementation is called under `catch`
        // inside run_case): report it with the case index
        let built = catch(std::panic::AssertUnwindSafe(|| {
            let c = build_case(&mut rng, idx, &pool, &mut sum.hist, o.thorough);
            let r = run_case(idx, &c, &mut sum.hist);
            (c, r)
        }));
        let (c, r) = match built {
            Ok(x) => x,
            Err(m) => {
                eprintln!("rpcc: harness bug in case {} (seed {}): {}", idx, o.seed, m);
                std::process::exit(3);
            }
        };
        sum.evaluations += 1;
        sum.steps += 1;
        if r.nontrivial && canon.insert(r.canon) {
            sum.distinct_nontrivial += 1;
        }
        if sum.samples.len() < 3 && idx >= 16 {
            sum.samples.push(J::obj(vec![
                ("case", J::I(idx as i64)),
                ("seed", J::I(o.seed as i64)),
                ("kind", J::s(c.label.clone())),
                ("bytes", J::s(hex::encode(&r.bytes[..r.bytes.len().min(200)]))),
            ]));
        }
        for (what, desc) in &r.failures {
            // (a failure description may name another property than C06: "@Cxx text")
            let (prop, what) = if what.starts_with('@') { (what[1..4].to_string(), what[5..].to_string()) } else { ("C06".to_string(), what.clone()) };
            let sig = format!("{}:{}", prop, what);
            if seen_sig.insert(sig.clone()) || only.is_some() {
                let file = o.out.join(format!("failure_{}_{}.json", prop, idx));
                let j = J::obj(vec![
                    ("component", J::s("rpcc")),
                    ("property", J::s(prop.clone())),
                    ("seed", J::I(o.seed as i64)),
                    ("case", J::I(idx as i64)),
                    ("thorough", J::B(o.thorough)),
                    ("kind", J::s(c.label.clone())),
                    ("what", J::s(desc.clone())),
                    ("input_hex", J::s(hex::encode(&r.bytes))),
                ]);
                std::fs::write(&file, j.render()).unwrap();
                sum.monitor_failures.push((sig, desc.clone(), file.to_string_lossy().to_string()));
            }
        }
        w.push(r.coq);
    }
    w.flush();
    sum.case_files = w.files.clone();
    sum.rule = "byte strings given to rpc::Message::decode (and messages given to Message::encode): generated messages of the six types, mutations of their layout trees, byte-level mutations and junk; a case is non-trivial if the input has at least 3 bytes (it passes the first length test), and distinct if its byte string is new in this run".into();
    sum.write(&o.out);
    println!(
        "rpcc: {} cases, {} distinct non-trivial, {} monitor failure signatures",
        sum.evaluations,
        sum.distinct_nontrivial,
        sum.monitor_failures.len()
    );
}
