//! Service-level lookups (C09, C10; monitor only): the real `Service` event loop (scripted service
//! hook) drives real `find_node` / `find_node_predicate` lookups; the harness plays the handler and
//! answers every FINDNODE the service emits with NODES packets, a failure or silence. The monitors
//! are written from the property texts: the caller's future resolves (exactly once, with a result)
//! within the query timeout, never more requests in flight than the parallelism (or, after a
//! stall, than the number of results), no peer asked twice, results sorted / bounded / answered.
//! In a third of the cases one to three further lookups run next to the first one (plain ones and
//! predicate lookups whose requested number of results is huge, zero or ordinary); every one of them
//! must end with a result, and the service task must outlive them all.
use crate::common::*;
use discv5::enr::{CombinedKey, EnrKey, NodeId};
use discv5::verif::service::*;
use discv5::{ConfigBuilder, Enr, ListenConfig};
use std::collections::{BTreeMap, BTreeSet, HashMap};
use std::net::Ipv4Addr;
use std::sync::{Arc, Mutex};
use std::time::Duration;

type K32 = [u8; 32];

fn xor(a: &K32, b: &K32) -> K32 {
    let mut r = [0u8; 32];
    for i in 0..32 {
        r[i] = a[i] ^ b[i];
    }
    r
}
fn log2d(a: &K32, b: &K32) -> u64 {
    let d = xor(a, b);
    for i in 0..32 {
        if d[i] != 0 {
            return ((31 - i) * 8 + (8 - d[i].leading_zeros() as usize)) as u64;
        }
    }
    0
}

struct Node {
    enr: Enr,
    id: K32,
    sk: [u8; 32],
}

/// The record of world node `i` as `make_world` builds it, with sequence number `seq`.
fn world_enr(i: usize, sk: &[u8; 32], seq: u64) -> Enr {
    let mut tmp = *sk;
    let k = CombinedKey::secp256k1_from_bytes(&mut tmp).unwrap();
    let mut b = Enr::builder();
    b.ip4(Ipv4Addr::new(10, 3, (i / 250) as u8, (i % 250) as u8 + 1));
    b.udp4(9000 + i as u16);
    if i % 3 == 0 {
        b.tcp4(30303);
    }
    b.seq(seq);
    b.build(&k).unwrap()
}

/// A record of world node `i` that has no socket an IPv4 node can use: 0: only an IPv6 UDP socket; 1: an IPv4
/// address with a TCP port only; 2: no address at all.
fn odd_enr(i: usize, sk: &[u8; 32], seq: u64, shape: u64) -> Enr {
    let mut tmp = *sk;
    let k = CombinedKey::secp256k1_from_bytes(&mut tmp).unwrap();
    let mut b = Enr::builder();
    match shape {
        0 => {
            b.ip6(std::net::Ipv6Addr::new(0x2001, 0xdb8, 0, 0, 0, 0, 3, i as u16 + 1));
            b.udp6(9000 + i as u16);
        }
        1 => {
            b.ip4(Ipv4Addr::new(10, 3, (i / 250) as u8, (i % 250) as u8 + 1));
            b.tcp4(30303);
        }
        _ => {}
    }
    b.seq(seq);
    b.build(&k).unwrap()
}

fn make_world(n: usize) -> Vec<Node> {
    // fixed identities (independent of --seed), cheap to build
    let mut rng = Rng::new(0x51c9_0c09_0c10);
    let mut v = vec![];
    while v.len() < n {
        let mut sk = [0u8; 32];
        sk.copy_from_slice(&rng.bytes(32));
        let mut tmp = sk;
        if let Ok(k) = CombinedKey::secp256k1_from_bytes(&mut tmp) {
            let i = v.len();
            let mut b = Enr::builder();
            b.ip4(Ipv4Addr::new(10, 3, (i / 250) as u8, (i % 250) as u8 + 1));
            b.udp4(9000 + i as u16);
            if i % 3 == 0 {
                b.tcp4(30303);
            }
            // sequence numbers differ from node to node (a lookup holds records newer than some table entries)
            b.seq((i % 7) as u64 + 1);
            let enr = b.build(&k).unwrap();
            let id = NodeId::from(k.public()).raw();
            v.push(Node { enr, id, sk });
        }
    }
    v
}

async fn settle() {
    for _ in 0..16 {
        tokio::task::yield_now().await;
    }
}

struct Outcome {
    fails: Vec<(String, String)>,
    script: Vec<String>,
    nontrivial: bool,
    tags: Vec<String>,
}

type Slot = Arc<Mutex<Vec<Result<Vec<Enr>, String>>>>;

/// One lookup a case issues through the public API.
struct Lookup {
    label: String,
    target: K32,
    predicate: bool,
    /// the number of results it may return: 16 for a plain lookup, the caller's count for a predicate lookup
    k: usize,
    /// the step of the handler loop at which it is issued (0: together with the first lookup)
    start_step: usize,
    started: bool,
    done: Slot,
}

fn count_name(k: usize) -> String {
    if k == usize::MAX {
        "usize::MAX".into()
    } else if k == usize::MAX / 2 {
        "usize::MAX/2".into()
    } else {
        k.to_string()
    }
}

fn start_lookup(svc: &ScriptedService, l: &mut Lookup) {
    let slot = l.done.clone();
    l.started = true;
    if l.predicate {
        let fut = svc.discv5.find_node_predicate(NodeId::new(&l.target), Box::new(|e: &Enr| e.tcp4().is_some()), l.k);
        tokio::spawn(async move {
            let r = fut.await;
            slot.lock().unwrap().push(r.map_err(|e| format!("{:?}", e)));
        });
    } else {
        let fut = svc.discv5.find_node(NodeId::new(&l.target));
        tokio::spawn(async move {
            let r = fut.await;
            slot.lock().unwrap().push(r.map_err(|e| format!("{:?}", e)));
        });
    }
}

/// Why the task running `Service::start` has ended (it never ends by itself while the `Discv5` is alive).
async fn service_end(svc: &mut ScriptedService) -> String {
    match (&mut svc.task).await {
        Ok(()) => "returned".into(),
        Err(e) if e.is_panic() => {
            let p = e.into_panic();
            let m = p.downcast_ref::<String>().cloned().or_else(|| p.downcast_ref::<&str>().map(|s| s.to_string())).unwrap_or_else(|| "?".into());
            format!("panicked: {}", m)
        }
        Err(_) => "was cancelled".into(),
    }
}

/// The script of the running case, kept where the watchdog can read it when the case hangs.
#[derive(Clone, Default)]
struct Script(Arc<Mutex<Vec<String>>>);
impl Script {
    fn push(&self, s: String) {
        self.0.lock().unwrap().push(s);
    }
    fn snapshot(&self) -> Vec<String> {
        self.0.lock().unwrap().clone()
    }
}

async fn run_case(seed: u64, idx: u64, world: &[Node], thorough: bool, script: Script) -> Outcome {
    let mut rng = crate::kb::case_rng(seed ^ 0x73766371, idx);
    // the choices added later draw from a stream of their own (the older choices of a case stay what they were)
    let mut rng2 = crate::kb::case_rng(seed ^ 0x7376_6371_3272, idx);
    let mut rng3 = crate::kb::case_rng(seed ^ 0x7376_6371_3373, idx);
    let mut fails: Vec<(String, String)> = vec![];
    let par = rng.range(1, 4) as usize;
    let predicate = rng.chance(1, 3);
    let target_peer_no = rng.range(1, 6) as usize;
    // the pool's clocks are std::time::Instant (real time, not the paused tokio clock): in one case out
    // of six the query timeout is a few real milliseconds, nobody answers, and the lookup must be cut
    // off by it and still hand its (partial) result to the caller
    let timeout_case = rng.chance(1, 6);
    let query_timeout = if timeout_case { 30u64 } else { 20_000u64 };
    let peer_timeout = 2_000u64;
    // the size of NODES answers this node SERVES has nothing to do with the size of a lookup (k = 16)
    let max_nodes_response = *rng.pick(&[16usize, 16, 40, 64, 5]);
    let local_key = CombinedKey::generate_secp256k1();
    let local_enr = {
        let mut b = Enr::builder();
        b.ip4(Ipv4Addr::new(10, 1, 0, 1));
        b.udp4(9000);
        b.build(&local_key).unwrap()
    };
    let local_id: K32 = local_enr.node_id().raw();
    let listen = ListenConfig::Ipv4 { ip: Ipv4Addr::new(10, 1, 0, 1), port: 9000 };
    // one case in four: one request ends in a failure after an EMPTY first packet of a longer NODES answer (see
    // below). The implementation then tells the lookup neither of a success nor of a failure, the peer is given up
    // only when the peer timeout has run out - in real time (std::time::Instant), so in these cases it is 150 ms and
    // the harness sleeps through it once
    let mut empty_partial_left = if !timeout_case && rng3.chance(1, 4) { 1 } else { 0 };
    let real_peer_timeout = if empty_partial_left > 0 { 150u64 } else { peer_timeout };
    let mut cb = ConfigBuilder::new(listen);
    cb.query_parallelism(par)
        .query_timeout(Duration::from_millis(query_timeout))
        .query_peer_timeout(Duration::from_millis(real_peer_timeout))
        .max_nodes_response(max_nodes_response)
        .ping_interval(Duration::from_secs(100_000))
        .disable_report_discovered_peers();
    let config = cb.build();
    let mut svc = match scripted_service(local_enr, local_key, config) {
        Ok(s) => s,
        Err(e) => {
            return Outcome { fails: vec![("C09".into(), format!("cannot build the service: {}", e))], script: script.snapshot(), nontrivial: false, tags: vec![] };
        }
    };
    settle().await;
    let mut tags: Vec<String> = vec![];
    // seed the routing table
    let nseed = *rng.pick(&[0usize, 1, 3, 8, 20, 40]);
    let mut table: Vec<usize> = vec![];
    while table.len() < nseed {
        let i = rng.below(world.len() as u64) as usize;
        if !table.contains(&i) && svc.discv5.add_enr(world[i].enr.clone()).is_ok() {
            table.push(i);
        }
    }
    // in one case out of six the table also holds one or two entries whose record has no socket this node can
    // use in its IP mode (an IPv6-only record, a record without UDP port): the routing table itself does not
    // look at addresses (they are put there through the table handle `Discv5` shares with the service); such a
    // candidate can never be sent a request, and the lookup must go on without it
    let mut odd: Vec<usize> = vec![];
    if rng2.chance(1, 6) {
        let n = rng2.range(1, 2) as usize;
        while odd.len() < n {
            let j = rng2.below(world.len() as u64) as usize;
            if table.contains(&j) || odd.contains(&j) {
                continue;
            }
            let shape = rng2.below(3);
            let enr = odd_enr(j, &world[j].sk, world[j].enr.seq(), shape);
            let key = discv5::Key::from(enr.node_id());
            let _ = svc.kbuckets.write().insert_or_update(&key, enr, crate::service::status(rng2.chance(1, 2), rng2.chance(1, 2)));
            odd.push(j);
        }
        script.push(format!("{} table entries whose record has no socket usable in the local IP mode", odd.len()));
        tags.push("lookup:table_entry_without_usable_socket".into());
    }
    // answers of 17..26 records (three or four packets) in a quarter of the cases; in a fifth of the cases only the
    // first one to three requests are answered (with such an answer), every other request fails: the lookup ends
    // by exhaustion with a handful of results
    let big_answers = rng2.chance(1, 4);
    let few_answers = !timeout_case && rng2.chance(1, 5);
    let mut few_left = rng2.range(1, 3);
    let max_responses = constants().1;
    script.push(format!("parallelism {}, {} table entries, predicate lookup: {}", par, table.len(), predicate));
    // the lookup
    let mut target = [0u8; 32];
    target.copy_from_slice(&rng.bytes(32));
    if rng.chance(1, 6) && !table.is_empty() {
        target = world[table[0]].id;
    }
    // "every lookup": the node's own id is a target like any other (the usual way to refresh the neighbourhood)
    if rng3.chance(1, 8) {
        target = local_id;
        script.push("the target of the lookup is the local node id".into());
        tags.push("lookup:target_is_the_local_node_id".into());
    }
    // requests that end in a failure after the first packet of a longer NODES answer (see below)
    let partial_then_timeout = empty_partial_left > 0 || rng3.chance(1, 3);
    // two thirds of these cases are about a lookup over peers that know nobody (answers without records, no
    // companion lookups): it ends by exhaustion of the table entries, one of its last requests ends that way
    let barren = empty_partial_left > 0 && rng3.chance(2, 3);
    let k = if predicate { target_peer_no } else { 16 };
    let mut lookups: Vec<Lookup> = vec![Lookup { label: "the lookup".into(), target, predicate, k, start_step: 0, started: false, done: Arc::new(Mutex::new(vec![])) }];
    // further lookups next to it: issued together with it or while it is in flight; the requested number
    // of results of a predicate lookup is the application's to choose ("no limit" = usize::MAX included)
    if rng.chance(1, 3) {
        let n = rng.range(1, 3);
        for c in 0..n {
            let cpred = rng.chance(3, 4);
            let ck = if cpred { *rng.pick(&[usize::MAX, usize::MAX, usize::MAX / 2, 0, 1, 16, 100]) } else { 16 };
            let mut t = [0u8; 32];
            t.copy_from_slice(&rng.bytes(32));
            if rng.chance(1, 4) {
                t = target;
            }
            if rng3.chance(1, 8) {
                t = local_id;
                tags.push("lookup:companion_target_is_the_local_node_id".into());
            }
            let start_step = *rng.pick(&[0usize, 0, 1, 2, 5]);
            let label = if cpred { format!("companion lookup {} (predicate, {} results requested)", c + 1, count_name(ck)) } else { format!("companion lookup {} (plain)", c + 1) };
            script.push(format!("{} issued at step {}", label, start_step));
            tags.push(if cpred { format!("lookup:companion_predicate_count_{}", count_name(ck)) } else { "lookup:companion_plain".into() });
            lookups.push(Lookup { label, target: t, predicate: cpred, k: ck, start_step, started: false, done: Arc::new(Mutex::new(vec![])) });
        }
    }
    if barren {
        lookups.truncate(1);
        script.push("the peers asked know no other node (answers without records)".into());
        tags.push("lookup:peers_know_nobody".into());
    }
    let single = lookups.len() == 1;
    for l in lookups.iter_mut().filter(|l| l.start_step == 0) {
        start_lookup(&svc, l);
    }
    settle().await;
    // play the handler
    let id_index: HashMap<K32, usize> = world.iter().enumerate().map(|(i, n)| (n.id, i)).collect();
    let mut in_flight: BTreeMap<Vec<u8>, (usize, u64)> = BTreeMap::new(); // request id -> (peer, sent at)
    let mut asked: Vec<usize> = vec![];
    let mut answered: BTreeSet<usize> = BTreeSet::new();
    // peers whose request failed after an empty first packet of a longer answer
    let mut failed_empty: BTreeSet<usize> = BTreeSet::new();
    // candidates handed over in the first packet of an answer whose request then failed
    let mut partial_reported: BTreeSet<usize> = BTreeSet::new();
    let initial_table: Vec<usize> = table.clone();
    let mut silent: Vec<(Vec<u8>, usize, Vec<u64>)> = vec![];
    // candidates the lookup learned of from answers delivered while their request was in flight
    let mut reported: BTreeSet<usize> = BTreeSet::new();
    let mut removed: Vec<usize> = vec![];
    let mut ever_many = false;
    let mut now = 0u64;
    let style = if timeout_case { 4 } else { rng.below(4) }; // 0: mostly answers, 1: mixed, 2: mostly failures, 3: mostly silence, 4: silence only
    let style = if few_answers { 5 } else { style }; // 5: the first few requests are answered, the others fail
    if few_answers {
        script.push(format!("only the first {} requests are answered (17 to 26 records each), every other request fails", few_left));
        tags.push("lookup:few_big_answers_then_failures".into());
    } else if big_answers {
        tags.push("lookup:answers_of_more_than_16_records".into());
    }
    let mut pending_msgs: Vec<HandlerIn> = vec![];
    let mut steps = 0;
    let max_steps = if thorough { 4000 } else { 1500 };
    // in a third of the cases responders report newer versions of records this node holds
    let newer_records = rng.chance(1, 3);
    let mut bumped: Vec<u64> = vec![0; world.len()];
    let mut noted_newer = false;
    let mut service_dead: Option<String> = None;
    while lookups.iter().any(|l| l.done.lock().unwrap().is_empty()) && steps < max_steps {
        steps += 1;
        if svc.task.is_finished() {
            service_dead = Some(service_end(&mut svc).await);
            break;
        }
        for l in lookups.iter_mut().filter(|l| !l.started && l.start_step <= steps) {
            start_lookup(&svc, l);
        }
        settle().await;
        let mut msgs = std::mem::take(&mut pending_msgs);
        msgs.extend(svc.drain());
        // C09 at the moment the requests are handed over: they are in flight together with every earlier request that
        // has been neither answered nor failed (nor is older than the peer timeout)
        {
            let batch = msgs.iter().filter(|m| matches!(m, HandlerIn::Request(_, r) if matches!(r.body, RequestBody::FindNode { .. }))).count();
            let open = in_flight.values().filter(|(_, t)| now < t + peer_timeout).count() + batch;
            let bound = lookups.iter().filter(|l| l.started).fold(0usize, |a, l| a.saturating_add(par.max(l.k)));
            if batch > 0 && open > bound {
                fails.push(("C09".into(), if single { format!("{} requests in flight, parallelism {} and {} results requested", open, par, k) } else { format!("{} requests in flight, more than the lookups in flight allow together (parallelism {})", open, par) }));
            }
            // a lookup stalls only after `parallelism` consecutive answers that brought it no closer: with fewer answers
            // than that (failures and silence are no answers) it is not stalled, whatever number of results it wants
            if batch > 0 && single && answered.len() < par && open > par {
                fails.push((
                    "C09".into(),
                    format!("{} requests in flight with parallelism {} although the lookup cannot have stalled: only {} of its requests have been answered so far (failed and unanswered requests do not stall a lookup)", open, par, answered.len())
                        .chars()
                        .map(|c| if c.is_ascii_digit() { '#' } else { c })
                        .collect(),
                ));
            }
        }
        let n_find = msgs.iter().filter(|m| matches!(m, HandlerIn::Request(_, r) if matches!(r.body, RequestBody::FindNode { .. }))).count();
        let mut seen_find = 0usize;
        for m in msgs {
            if let HandlerIn::Request(contact, req) = m {
                let pid = contact.node_id().raw();
                match &req.body {
                    RequestBody::FindNode { distances } => {
                        seen_find += 1;
                        let pi = match id_index.get(&pid) {
                            Some(i) => *i,
                            None => {
                                fails.push(("C09".into(), "a request was sent to a node the lookup never learned of".into()));
                                continue;
                            }
                        };
                        // (every lookup in flight asks a peer at most once)
                        if asked.iter().filter(|x| **x == pi).count() >= lookups.iter().filter(|l| l.started).count() {
                            fails.push(("C09".into(), if single { "the lookup sent its request to the same peer twice".to_string() } else { "a peer was asked more often than there are lookups".to_string() }));
                        }
                        asked.push(pi);
                        in_flight.insert(req.id.0.clone(), (pi, now));
                        // decide the fate of this request
                        let fate = match style {
                            0 => rng.weighted(&[8, 1, 1]),
                            1 => rng.weighted(&[4, 3, 3]),
                            2 => rng.weighted(&[2, 7, 1]),
                            3 => rng.weighted(&[2, 1, 7]),
                            5 => {
                                if few_left > 0 {
                                    few_left -= 1;
                                    0
                                } else {
                                    1
                                }
                            }
                            _ => 2,
                        };
                        let na = NodeAddress { socket_addr: contact.socket_addr(), node_id: contact.node_id() };
                        // (see fate 1 below)
                        let last_of_an_exhausted_lookup = empty_partial_left > 0
                            && single
                            && seen_find == n_find
                            && silent.is_empty()
                            && in_flight.len() == 1
                            && initial_table.iter().chain(reported.iter()).chain(partial_reported.iter()).all(|j| asked.contains(j));
                        let fate = if barren && last_of_an_exhausted_lookup { 1 } else { fate };
                        match fate {
                            0 => {
                                // NODES: records at the requested distances from the responder (own record for 0)
                                let mut recs: Vec<Enr> = vec![];
                                let mut who: Vec<usize> = vec![];
                                let big = style == 5 || (big_answers && rng2.chance(1, 3));
                                let want = if big { rng2.range(17, 26) as usize } else { rng.below(5) as usize };
                                let want = if barren { 0 } else { want };
                                let mut tries = 0;
                                while recs.len() < want && tries < if big { 600 } else { 200 } {
                                    tries += 1;
                                    // half of the time look among the routing-table entries first
                                    let j = if !table.is_empty() && tries < 60 && rng.chance(1, 2) { *rng.pick(&table) } else { rng.below(world.len() as u64) as usize };
                                    if odd.contains(&j) {
                                        continue;
                                    }
                                    let d = log2d(&world[j].id, &pid);
                                    if distances.contains(&d) && !recs.iter().any(|r| r.node_id().raw() == world[j].id) {
                                        // now and then the responder knows a newer version of a routing-table entry's
                                        // record than this node holds (the entry is updated while the lookup goes on)
                                        if table.contains(&j) && newer_records && rng.chance(1, 2) {
                                            bumped[j] += rng.range(1, 3);
                                            recs.push(world_enr(j, &world[j].sk, world[j].enr.seq() + bumped[j]));
                                            if !noted_newer {
                                                noted_newer = true;
                                                script.push("answers carry newer versions of routing-table entries' records".into());
                                            }
                                        } else if bumped[j] > 0 {
                                            recs.push(world_enr(j, &world[j].sk, world[j].enr.seq() + bumped[j]));
                                        } else {
                                            recs.push(world[j].enr.clone());
                                        }
                                        who.push(j);
                                    }
                                }
                                // the packets: one, two halves, or (long answers) packets of at most eight records
                                let packets: Vec<Vec<Enr>> = if recs.len() > 16 {
                                    recs.chunks(8).map(|c| c.to_vec()).collect()
                                } else if recs.len() >= 2 && rng.chance(1, 3) {
                                    let second = recs.split_off(recs.len() / 2);
                                    vec![recs.clone(), second]
                                } else {
                                    vec![recs.clone()]
                                };
                                let total = packets.len() as u64;
                                // what the service collects of them (its documented rule): packets are gathered while fewer
                                // than max_nodes_response records have been received and fewer than `total` (and than the
                                // packet limit) packets; the packet after that completes the answer, later ones are ignored
                                let mut taken = 0usize;
                                {
                                    let (mut count, mut received) = (1usize, 0usize);
                                    for p in &packets {
                                        taken += p.len();
                                        if total > 1 && received < max_nodes_response && (count as u64) < total && count < max_responses {
                                            count += 1;
                                            received += p.len();
                                        } else {
                                            break;
                                        }
                                    }
                                }
                                for j in who.iter().take(taken) {
                                    if *j != pi {
                                        reported.insert(*j);
                                    }
                                }
                                if taken > 16 {
                                    tags.push("lookup:one_answer_reported_more_than_16_candidates".into());
                                }
                                let np = packets.len();
                                for (n, p) in packets.into_iter().enumerate() {
                                    let _ = svc.inject(HandlerOut::Response(na.clone(), Box::new(Response { id: req.id.clone(), body: ResponseBody::Nodes { total, nodes: p } })));
                                    if n + 1 < np {
                                        settle().await;
                                    }
                                }
                                answered.insert(pi);
                                in_flight.remove(&req.id.0);
                            }
                            1 => {
                                // now and then the peer sends the first packet of an answer it announces as two to
                                // four packets - with no record, or with one to three records at requested distances -
                                // and never the rest: the request times out. C10: a peer whose request failed without
                                // one record delivered has not answered (with records delivered the implementation
                                // uses them and counts the peer; either reading of "answered" is accepted here).
                                // C11: a request that fails is no offence, the peer is not banned for it.
                                let mut plain_failure = !(partial_then_timeout && rng3.chance(1, 2)) && !(barren && last_of_an_exhausted_lookup);
                                // (the empty variant: the implementation then tells the lookup neither of a success nor of
                                // a failure, the peer is given up when the peer timeout has run out - and the pool notices
                                // that only when no closer candidate is left to be asked. The harness sleeps through the
                                // peer timeout; so only when no other request is in flight, about to be handled, or waiting
                                // to be handed over, and every candidate the lookup can know of has been asked)
                                let mut quiet_now = false;
                                if !plain_failure && last_of_an_exhausted_lookup {
                                    settle().await;
                                    let more = svc.drain();
                                    quiet_now = !more.iter().any(|m| matches!(m, HandlerIn::Request(..)));
                                    pending_msgs.extend(more);
                                }
                                let mut recs: Vec<Enr> = vec![];
                                if !plain_failure && !quiet_now {
                                    let want = rng3.range(1, 3) as usize;
                                    let mut tries = 0;
                                    while recs.len() < want && tries < 200 {
                                        tries += 1;
                                        let j = rng3.below(world.len() as u64) as usize;
                                        if odd.contains(&j) || j == pi || bumped[j] > 0 || !distances.contains(&log2d(&world[j].id, &pid)) || recs.iter().any(|r| r.node_id().raw() == world[j].id) {
                                            continue;
                                        }
                                        recs.push(world[j].enr.clone());
                                        partial_reported.insert(j);
                                    }
                                    if recs.is_empty() {
                                        plain_failure = true;
                                    }
                                }
                                if !plain_failure {
                                    let total = rng3.range(2, 4);
                                    if quiet_now {
                                        empty_partial_left -= 1;
                                    }
                                    let listed = |na: &NodeAddress| {
                                        let l = discv5::verif::filter::permit_ban_snapshot();
                                        (l.ban_nodes.contains_key(&na.node_id), l.ban_ips.contains_key(&na.socket_addr.ip()))
                                    };
                                    let before = listed(&na);
                                    let delivered = recs.len();
                                    let _ = svc.inject(HandlerOut::Response(na.clone(), Box::new(Response { id: req.id.clone(), body: ResponseBody::Nodes { total, nodes: recs } })));
                                    settle().await;
                                    let _ = svc.inject(HandlerOut::RequestFailed(req.id.clone(), discv5::RequestError::Timeout));
                                    settle().await;
                                    let after = listed(&na);
                                    if (after.0 && !before.0) || (after.1 && !before.1) {
                                        fails.push((
                                            "C11".into(),
                                            format!("a responder was banned because its request timed out after the first of {} announced NODES packets ({} records, all at requested distances): a request that fails is no breach of the protocol", total, delivered)
                                                .chars()
                                                .map(|c| if c.is_ascii_digit() { '#' } else { c })
                                                .collect(),
                                        ));
                                    }
                                    if delivered > 0 {
                                        answered.insert(pi);
                                        if !tags.iter().any(|t| t == "lookup:request_failed_after_a_first_packet_with_records") {
                                            tags.push("lookup:request_failed_after_a_first_packet_with_records".into());
                                        }
                                    } else {
                                        failed_empty.insert(pi);
                                        tags.push("lookup:request_failed_after_an_empty_first_packet".into());
                                        script.push("a request fails (timeout) after an empty first packet of a longer NODES answer; the peer timeout (150 ms, real time) passes".into());
                                        // the peer timeout passes (nothing else is in flight), something wakes the service
                                        std::thread::sleep(Duration::from_millis(real_peer_timeout + 15));
                                        let _ = svc.inject(HandlerOut::RequestFailed(RequestId(vec![0xfe, 0xfe, 0xfd, steps as u8]), discv5::RequestError::Timeout));
                                        settle().await;
                                    }
                                    in_flight.remove(&req.id.0);
                                } else {
                                    let _ = svc.inject(HandlerOut::RequestFailed(req.id.clone(), discv5::RequestError::Timeout));
                                    in_flight.remove(&req.id.0);
                                }
                            }
                            _ => {
                                silent.push((req.id.0.clone(), pi, distances.clone()));
                            }
                        }
                    }
                    _ => {}
                }
            }
        }
        settle().await;
        // now and then the handler asks who some node is (an undecryptable packet arrived in its name):
        // the record the service supplies is that node's own record, whatever records of OTHER nodes
        // the running lookup holds - it becomes the key the handshake is verified with (C01)
        if rng.chance(1, 5) {
            let j = if !table.is_empty() && rng.chance(2, 3) { *rng.pick(&table) } else { rng.below(world.len() as u64) as usize };
            let na = NodeAddress { socket_addr: world[j].enr.udp4_socket().unwrap().into(), node_id: world[j].enr.node_id() };
            let mut nonce = [0u8; 12];
            nonce.copy_from_slice(&rng.bytes(12));
            let _ = svc.inject(HandlerOut::WhoAreYou(discv5::verif::handler::make_whoareyou_ref(na, nonce)));
            settle().await;
            for m in svc.drain() {
                match m {
                    HandlerIn::WhoAreYou(r, Some(e)) => {
                        if e.node_id() != r.0.node_id {
                            fails.push(("C01".into(), "the service answered a who-are-you query about node X with the record of another node (the handshake claiming X would be verified with that node's key)".into()));
                        }
                    }
                    HandlerIn::WhoAreYou(..) => {}
                    other => pending_msgs.push(other),
                }
            }
        }
        // now and then the handler reports a session with some node (it becomes a connected table entry,
        // or the pending candidate of a full bucket)
        if rng.chance(1, 6) {
            let j = rng.below(world.len() as u64) as usize;
            let sock: std::net::SocketAddr = world[j].enr.udp4_socket().unwrap().into();
            let _ = svc.inject(HandlerOut::Established(world[j].enr.clone(), sock, if rng.chance(1, 2) { ConnectionDirection::Outgoing } else { ConnectionDirection::Incoming }));
            settle().await;
            pending_msgs.extend(svc.drain());
        }
        // now and then a node enters the routing table while the lookup is running (the user adds it)
        if rng.chance(1, 4) && table.len() < 60 {
            let j = rng.below(world.len() as u64) as usize;
            if !table.contains(&j) && !asked.contains(&j) && !reported.contains(&j) && svc.discv5.add_enr(world[j].enr.clone()).is_ok() {
                table.push(j);
                settle().await;
            }
        }
        // now and then a routing-table entry that the lookup has been told about, but has not asked
        // yet, leaves the table (the user removes it): the lookup keeps its own copy of the record
        if rng.chance(1, 3) {
            if let Some(j) = table.iter().cloned().find(|j| reported.contains(j) && !asked.contains(j) && !removed.contains(j)) {
                script.push("a reported table entry leaves the table before it is asked".into());
                let _ = svc.discv5.remove_node(&world[j].enr.node_id());
                removed.push(j);
                settle().await;
            }
        }
        // C09: never more lookups requests in flight than the parallelism (or, once stalled, than the number of results)
        let unexpired = in_flight.values().filter(|(_, t)| now < t + peer_timeout).count();
        let bound = lookups.iter().filter(|l| l.started).fold(0usize, |a, l| a.saturating_add(par.max(l.k)));
        if unexpired > bound {
            fails.push(("C09".into(), if single { format!("{} requests in flight, parallelism {} and {} results requested", unexpired, par, k) } else { format!("{} requests in flight, more than the lookups in flight allow together (parallelism {})", unexpired, par) }));
        }
        // ... and a lookup stalls only after `parallelism` consecutive answers that brought it no closer: with fewer
        // answers than that (failures and silence are no answers) it is not stalled, whatever number of results it wants
        if single && answered.len() < par && unexpired > par {
            fails.push((
                "C09".into(),
                format!("{} requests in flight with parallelism {} although the lookup cannot have stalled: only {} of its requests have been answered so far (failed and unanswered requests do not stall a lookup)", unexpired, par, answered.len())
                    .chars()
                    .map(|c| if c.is_ascii_digit() { '#' } else { c })
                    .collect(),
            ));
        }
        if unexpired > par {
            ever_many = true;
        }
        // time passes; a late answer or failure for a silent request now and then
        tokio::time::advance(Duration::from_millis(250)).await;
        now += 250;
        settle().await;
        if timeout_case {
            // real time passes; the service loop looks at the pool when something wakes it
            std::thread::sleep(Duration::from_millis(12));
            let _ = svc.inject(HandlerOut::RequestFailed(RequestId(vec![0xfe, 0xfe, 0xfe, steps as u8]), discv5::RequestError::Timeout));
            settle().await;
            continue;
        }
        if !silent.is_empty() && rng.chance(1, 6) {
            let (rid, pi, _) = silent.remove(0);
            let na = NodeAddress { socket_addr: world[pi].enr.udp4_socket().unwrap().into(), node_id: world[pi].enr.node_id() };
            if rng.chance(1, 2) {
                let _ = svc.inject(HandlerOut::Response(na, Box::new(Response { id: RequestId(rid.clone()), body: ResponseBody::Nodes { total: 1, nodes: vec![] } })));
                answered.insert(pi);
            } else {
                let _ = svc.inject(HandlerOut::RequestFailed(RequestId(rid.clone()), discv5::RequestError::Timeout));
            }
            in_flight.remove(&rid);
            settle().await;
        }
    }
    let _ = ever_many;
    // let the query timeout pass
    let mut extra = 0;
    while service_dead.is_none() && lookups.iter().any(|l| l.done.lock().unwrap().is_empty()) && extra < 200 {
        if svc.task.is_finished() {
            service_dead = Some(service_end(&mut svc).await);
            break;
        }
        for l in lookups.iter_mut().filter(|l| !l.started) {
            start_lookup(&svc, l);
        }
        tokio::time::advance(Duration::from_millis(500)).await;
        now += 500;
        settle().await;
        let _ = svc.drain();
        extra += 1;
    }
    if service_dead.is_none() && svc.task.is_finished() {
        service_dead = Some(service_end(&mut svc).await);
    }
    settle().await;
    script.push(format!("{} peers asked, {} answered, ended after {} ms of virtual time", asked.len(), answered.len(), now));
    // C09: whatever lookups the application issues, each of them ends with a result - the task that runs
    // them all must not die under them
    if let Some(why) = &service_dead {
        let open = lookups.iter().filter(|l| l.started && !matches!(l.done.lock().unwrap().first(), Some(Ok(_)))).count();
        fails.push(("C09".into(), format!("the service task {} - {} of the {} lookups issued were left without a result, no further lookup can be started", why, open, lookups.iter().filter(|l| l.started).count()).chars().map(|c| if c.is_ascii_digit() { '#' } else { c }).collect()));
    }
    for l in &lookups {
        let results = l.done.lock().unwrap().clone();
        let (target, k) = (l.target, l.k);
        if results.is_empty() {
            if l.started {
                fails.push(("C09".into(), format!("{} neither finished nor was cut off by the query timeout: the caller never received a result", l.label)));
            }
            continue;
        }
        if results.len() > 1 {
            fails.push(("C09".into(), format!("{} handed its result to the caller more than once", l.label)));
        }
        match &results[0] {
            Err(e) => fails.push(("C09".into(), format!("the caller of {} received an error instead of a result: {}", l.label, e))),
            Ok(enrs) => {
                script.push(format!("{}: {} results", l.label, enrs.len()));
                if enrs.len() > k {
                    fails.push(("C10".into(), format!("{} results, more than the {} requested", enrs.len(), k)));
                }
                let ids: Vec<K32> = enrs.iter().map(|e| e.node_id().raw()).collect();
                for w in ids.windows(2) {
                    if xor(&w[0], &target) >= xor(&w[1], &target) {
                        fails.push(("C10".into(), "result not in strictly increasing distance to the target".into()));
                    }
                }
                for id in &ids {
                    match id_index.get(id) {
                        Some(i) if answered.contains(i) => {}
                        Some(i) if failed_empty.contains(i) => fails.push((
                            "C10".into(),
                            "the result contains a node that did not answer the lookup's request: the request to it FAILED (timeout), all it had sent was the first packet of a longer NODES answer, without a record".into(),
                        )),
                        _ => fails.push(("C10".into(), "the result contains a node that did not answer the lookup's request".into())),
                    }
                }
                // C10: fewer than k results and not cut off by the query timeout: every candidate the
                // lookup learned of was contacted (with several lookups in flight the harness does not
                // know which of them an answer informed)
                if single && enrs.len() < k && !timeout_case {
                    if let Some(j) = reported.iter().find(|j| !asked.contains(j)) {
                        fails.push(("C10".into(), format!("the lookup ended by itself with {} of {} results although a candidate it learned of from an answer was never contacted{}", enrs.len(), k, if removed.contains(j) { " (the candidate had left the routing table in the meantime)" } else { "" }).chars().map(|c| if c.is_ascii_digit() { '#' } else { c }).collect()));
                    }
                }
                if l.predicate && enrs.iter().any(|e| e.tcp4().is_none()) {
                    fails.push(("C10".into(), "a predicate lookup returned a node whose record does not satisfy the predicate".into()));
                }
            }
        }
    }
    if timeout_case {
        script.push("query timeout of 30 ms (real time), every peer silent".into());
    }
    // (the virtual clock is no yardstick for the query timeout: the pool reads the system clock, and silent
    // requests are resolved by the harness one at a time, so the virtual duration grows with the number of
    // peers asked - a lookup over a table whose entries keep leaving asked 108 peers in 95 virtual seconds and
    // made an earlier virtual-time check alarm on the unchanged tree (seed 10, case 144); the cut-off by the
    // query timeout is checked in the real-time cases above)
    let _ = (now, query_timeout);
    let results: Vec<()> = if service_dead.is_none() && lookups.iter().all(|l| !l.done.lock().unwrap().is_empty()) { vec![()] } else { vec![] };
    // C11: a responder that returns records at other distances is banned - also when its answer
    // arrives after the lookup that asked has ended
    if !results.is_empty() {
        for (rid, pi, ds) in silent.iter().take(2) {
            let off = (0..world.len()).find(|j| *j != *pi && !ds.contains(&log2d(&world[*j].id, &world[*pi].id)));
            if let Some(j) = off {
                let na = NodeAddress { socket_addr: world[*pi].enr.udp4_socket().unwrap().into(), node_id: world[*pi].enr.node_id() };
                let _ = svc.inject(HandlerOut::Response(na, Box::new(Response { id: RequestId(rid.clone()), body: ResponseBody::Nodes { total: 1, nodes: vec![world[j].enr.clone()] } })));
                settle().await;
                let _ = svc.drain();
                if !ban_snapshot().1.contains(&world[*pi].enr.node_id()) {
                    fails.push(("C11".into(), "a responder that returned a record at a distance that was not requested was not banned (its answer arrived after the lookup had ended)".into()));
                }
            }
        }
    }
    svc.task.abort();
    fails.dedup();
    Outcome { fails, script: script.snapshot(), nontrivial: asked.len() >= 2, tags }
}

/// A lookup with no traffic but its own (C09, C10): the table holds a few ordinary entries and, mostly, one to three
/// entries whose record has no socket this IPv4 node can use (see `odd_enr`; put there through the table handle, the
/// routing table does not look at addresses). The harness plays a handler that keeps its contract - every request
/// it is handed ends with an answer or a failure, here at once - and does nothing else. When the last request has
/// been resolved and the service task has run until it is idle, nothing is in flight and nothing else will ever
/// wake the service: the lookup must have ended. If it has not, the harness waits (real time, the clocks of the
/// query pool are `std::time::Instant`) for more than the query timeout with no traffic at all before it reports
/// that the lookup neither finished nor was cut off.
async fn run_quiet_case(seed: u64, idx: u64, world: &[Node], script: Script) -> Outcome {
    let mut rng = crate::kb::case_rng(seed ^ 0x7175_6965_7400, idx);
    let mut fails: Vec<(String, String)> = vec![];
    let mut tags: Vec<String> = vec!["quiet:case".into()];
    let par = rng.range(1, 4) as usize;
    let predicate = rng.chance(1, 4);
    let k = if predicate { rng.range(1, 6) as usize } else { 16 };
    let (query_timeout, peer_timeout) = (400u64, 150u64);
    let local_key = CombinedKey::generate_secp256k1();
    let local_enr = {
        let mut b = Enr::builder();
        b.ip4(Ipv4Addr::new(10, 1, 0, 1));
        b.udp4(9000);
        b.build(&local_key).unwrap()
    };
    let mut cb = ConfigBuilder::new(ListenConfig::Ipv4 { ip: Ipv4Addr::new(10, 1, 0, 1), port: 9000 });
    cb.query_parallelism(par)
        .query_timeout(Duration::from_millis(query_timeout))
        .query_peer_timeout(Duration::from_millis(peer_timeout))
        .ping_interval(Duration::from_secs(100_000))
        .disable_report_discovered_peers();
    let mut svc = match scripted_service(local_enr, local_key, cb.build()) {
        Ok(s) => s,
        Err(e) => return Outcome { fails: vec![("C09".into(), format!("cannot build the service: {}", e))], script: script.snapshot(), nontrivial: false, tags },
    };
    settle().await;
    let n_good = *rng.pick(&[0usize, 0, 1, 2, 4, 8, 17]);
    let n_odd = *rng.pick(&[0usize, 1, 1, 1, 2, 3]);
    let mut table: Vec<usize> = vec![];
    let mut odd: Vec<usize> = vec![];
    while table.len() < n_good {
        let i = rng.below(world.len() as u64) as usize;
        if !table.contains(&i) && svc.discv5.add_enr(world[i].enr.clone()).is_ok() {
            table.push(i);
        }
    }
    while odd.len() < n_odd {
        let j = rng.below(world.len() as u64) as usize;
        if table.contains(&j) || odd.contains(&j) {
            continue;
        }
        let enr = odd_enr(j, &world[j].sk, world[j].enr.seq(), rng.below(3));
        let key = discv5::Key::from(enr.node_id());
        let _ = svc.kbuckets.write().insert_or_update(&key, enr, crate::service::status(rng.chance(1, 2), rng.chance(1, 2)));
        odd.push(j);
    }
    script.push(format!(
        "quiet lookup: parallelism {}, {} ordinary table entries, {} entries whose record has no socket usable in IPv4 mode, predicate lookup: {}, query timeout {} ms, peer timeout {} ms (real time)",
        par,
        table.len(),
        odd.len(),
        predicate,
        query_timeout,
        peer_timeout
    ));
    tags.push(format!("quiet:unusable_entries_{}", odd.len()));
    let mut target = [0u8; 32];
    target.copy_from_slice(&rng.bytes(32));
    let mut l = Lookup { label: "the lookup".into(), target, predicate, k, start_step: 0, started: false, done: Arc::new(Mutex::new(vec![])) };
    start_lookup(&svc, &mut l);
    let id_index: HashMap<K32, usize> = world.iter().enumerate().map(|(i, n)| (n.id, i)).collect();
    let mut asked: Vec<usize> = vec![];
    let mut answered: BTreeSet<usize> = BTreeSet::new();
    let mut reported: BTreeSet<usize> = BTreeSet::new();
    let answer_weight = *rng.pick(&[0u64, 1, 3, 8]);
    let mut rounds = 0;
    loop {
        settle().await;
        rounds += 1;
        let reqs: Vec<(NodeContact, Box<Request>)> = svc.drain().into_iter().filter_map(|m| if let HandlerIn::Request(c, r) = m { Some((c, r)) } else { None }).collect();
        if reqs.is_empty() || rounds > 400 || svc.task.is_finished() {
            break;
        }
        for (contact, req) in reqs {
            let distances = match &req.body {
                RequestBody::FindNode { distances } => distances.clone(),
                _ => continue,
            };
            let pid = contact.node_id().raw();
            let pi = match id_index.get(&pid) {
                Some(i) => *i,
                None => continue,
            };
            if odd.contains(&pi) {
                fails.push(("C09".into(), "a lookup request was addressed to a node whose record has no socket usable in the local IP mode".into()));
            }
            if asked.contains(&pi) {
                fails.push(("C09".into(), "the lookup sent its request to the same peer twice".into()));
            }
            asked.push(pi);
            let na = NodeAddress { socket_addr: contact.socket_addr(), node_id: contact.node_id() };
            if rng.below(10) < answer_weight {
                let mut recs: Vec<Enr> = vec![];
                let want = rng.below(4) as usize;
                let mut tries = 0;
                while recs.len() < want && tries < 100 {
                    tries += 1;
                    let j = rng.below(world.len() as u64) as usize;
                    if odd.contains(&j) || !distances.contains(&log2d(&world[j].id, &pid)) || recs.iter().any(|r| r.node_id().raw() == world[j].id) {
                        continue;
                    }
                    recs.push(world[j].enr.clone());
                    if j != pi {
                        reported.insert(j);
                    }
                }
                let _ = svc.inject(HandlerOut::Response(na, Box::new(Response { id: req.id.clone(), body: ResponseBody::Nodes { total: 1, nodes: recs } })));
                answered.insert(pi);
            } else {
                let _ = svc.inject(HandlerOut::RequestFailed(req.id.clone(), discv5::RequestError::Timeout));
            }
        }
    }
    settle().await;
    script.push(format!("{} peers asked, {} answered; every request has been resolved, the service task is idle", asked.len(), answered.len()));
    let done = |l: &Lookup| !l.done.lock().unwrap().is_empty();
    if svc.task.is_finished() {
        let why = service_end(&mut svc).await;
        fails.push(("C09".into(), format!("the service task {} while a lookup was in flight", why)));
    } else if !done(&l) && rounds <= 400 {
        // nothing in flight, nothing else going on: from here on only the passing of (real) time could end the lookup
        tags.push("quiet:lookup_open_when_idle".into());
        let t0 = std::time::Instant::now();
        let limit = Duration::from_millis(query_timeout + peer_timeout + 250);
        while !done(&l) && t0.elapsed() < limit {
            std::thread::sleep(Duration::from_millis(25));
            settle().await;
        }
        if !done(&l) {
            let waited = t0.elapsed().as_millis();
            script.push(format!("{} ms of real time later (query timeout {} ms) the caller still has no result", waited, query_timeout));
            fails.push((
                "C09".into(),
                "a lookup neither finished nor was cut off by the query timeout: every request it had sent was resolved (answer or failure), nothing was in flight, and more than the query timeout of real time later, with no other traffic, the caller had no result".into(),
            ));
            // observation: does an unrelated event (which makes the service loop look at its queries again) end it?
            let _ = svc.inject(HandlerOut::RequestFailed(RequestId(vec![0xfe, 0xfe, 0xfe]), discv5::RequestError::Timeout));
            settle().await;
            script.push(if done(&l) { "an unrelated event handed to the service afterwards made the lookup end".into() } else { "an unrelated event handed to the service afterwards did not end it either".to_string() });
        } else {
            script.push("the lookup ended while nothing but time passed".into());
        }
    }
    let results = l.done.lock().unwrap().clone();
    if results.len() > 1 {
        fails.push(("C09".into(), "the lookup handed its result to the caller more than once".into()));
    }
    match results.first() {
        Some(Err(e)) => fails.push(("C09".into(), format!("the caller of the lookup received an error instead of a result: {}", e))),
        Some(Ok(enrs)) => {
            script.push(format!("the lookup: {} results", enrs.len()));
            if enrs.len() > k {
                fails.push(("C10".into(), format!("{} results, more than the {} requested", enrs.len(), k)));
            }
            let ids: Vec<K32> = enrs.iter().map(|e| e.node_id().raw()).collect();
            for w in ids.windows(2) {
                if xor(&w[0], &target) >= xor(&w[1], &target) {
                    fails.push(("C10".into(), "result not in strictly increasing distance to the target".into()));
                }
            }
            for id in &ids {
                match id_index.get(id) {
                    Some(i) if answered.contains(i) => {}
                    _ => fails.push(("C10".into(), "the result contains a node that did not answer the lookup's request".into())),
                }
            }
            if enrs.len() < k && reported.iter().any(|j| !asked.contains(j)) {
                fails.push(("C10".into(), "the lookup ended by itself with fewer results than requested although a candidate it learned of from an answer was never contacted".into()));
            }
            if predicate && enrs.iter().any(|e| e.tcp4().is_none()) {
                fails.push(("C10".into(), "a predicate lookup returned a node whose record does not satisfy the predicate".into()));
            }
        }
        None => {}
    }
    svc.task.abort();
    fails.dedup();
    Outcome { fails, script: script.snapshot(), nontrivial: asked.len() >= 2, tags }
}

/// real seconds a case may take before it is given up as hung (a case takes milliseconds)
const WATCH_SECS: u64 = 30;

/// `harness svcq --seed S --cases N --out DIR [--only I]`
pub fn main(args: &[String]) {
    let o = parse_opts(args);
    let mut only: Option<u64> = None;
    let mut i = 0;
    while i < o.rest.len() {
        if o.rest[i] == "--only" {
            only = Some(o.rest[i + 1].parse().unwrap());
            i += 1;
        }
        i += 1;
    }
    let world: &'static Vec<Node> = Box::leak(Box::new(make_world(160)));
    let mut sum = Summary::new("svcq");
    let mut seen: BTreeSet<String> = BTreeSet::new();
    std::fs::create_dir_all(&o.out).unwrap();
    let range: Vec<u64> = match only {
        Some(x) => vec![x],
        None => (0..o.cases).collect(),
    };
    let mut hung = 0;
    // the quiet cases (`run_quiet_case`) are numbered from 1_000_000 (`--only 1000003` replays one of them)
    const QUIET_BASE: u64 = 1_000_000;
    let mut range = range;
    if only.is_none() {
        range.extend((0..(o.cases / 4).max(8)).map(|i| QUIET_BASE + i));
    }
    let mut quiet_open = 0;
    for idx in range {
        if hung >= crate::service::MAX_HUNG_CASES {
            break;
        }
        let quiet = idx >= QUIET_BASE;
        if quiet && quiet_open >= 3 {
            // (each such case waits for more than the query timeout in real time; the failure has been reported)
            continue;
        }
        // every case on a thread of its own, watched: a service task that blocks (it holds the only thread
        // of the paused-clock runtime) must not stall the run - and a lookup that can never end is a C09 matter
        let script = Script::default();
        let (seed, thorough, sc) = (o.seed, o.thorough, script.clone());
        let res = crate::service::run_watched(WATCH_SECS, move || {
            let rt = tokio::runtime::Builder::new_current_thread().enable_all().start_paused(true).build().unwrap();
            let out = if quiet { rt.block_on(run_quiet_case(seed, idx - QUIET_BASE, world, sc)) } else { rt.block_on(run_case(seed, idx, world, thorough, sc)) };
            drop(rt);
            out
        });
        let out = match res {
            Some(out) => out,
            None => {
                hung += 1;
                let mut sc = script.snapshot();
                sc.push(format!("the case did not end within {} s of real time", WATCH_SECS));
                Outcome {
                    fails: vec![("C09".into(), "the service stopped responding while lookups were in flight (the task that runs Service::start is blocked or spins): no lookup can finish or be cut off by the query timeout any more".into())],
                    script: sc,
                    nontrivial: false,
                    tags: vec!["lookup:case_hung".into()],
                }
            }
        };
        if out.tags.iter().any(|t| t == "quiet:lookup_open_when_idle") {
            quiet_open += 1;
        }
        sum.evaluations += 1;
        if out.nontrivial {
            sum.distinct_nontrivial += 1;
        }
        sum.hist.add(if out.nontrivial { "lookup:asked_two_or_more_peers" } else { "lookup:asked_fewer_than_two_peers" });
        if out.script.iter().any(|x| x.contains("leaves the table before it is asked")) {
            sum.hist.add("lookup:reported_table_entry_removed_before_it_was_asked");
        }
        for t in &out.tags {
            sum.hist.add(t);
        }
        if out.script.iter().any(|x| x.contains("newer versions of routing-table")) {
            sum.hist.add("lookup:answers_carried_newer_records_of_table_entries");
        }
        if out.script.iter().any(|x| x.contains("query timeout of 30 ms")) {
            sum.hist.add("lookup:cut_off_by_a_real_time_query_timeout_and_result_delivered");
        }
        if sum.samples.len() < 3 {
            sum.samples.push(J::obj(vec![("case", J::I(idx as i64)), ("script", J::A(out.script.iter().map(|x| J::s(x.clone())).collect()))]));
        }
        for (prop, desc) in out.fails {
            let sig: String = format!("{}:{}", prop, desc.chars().map(|c| if c.is_ascii_digit() { '#' } else { c }).collect::<String>());
            if seen.insert(sig.clone()) || only.is_some() {
                let file = o.out.join(format!("failure_{}_{}_{}.json", prop, idx, seen.len()));
                let j = J::obj(vec![("component", J::s("svcq")), ("property", J::s(prop.clone())), ("seed", J::I(o.seed as i64)), ("case", J::I(idx as i64)), ("what", J::s(desc.clone())), ("script", J::A(out.script.iter().map(|x| J::s(x.clone())).collect()))]);
                std::fs::write(&file, j.render()).unwrap();
                sum.monitor_failures.push((sig, desc, file.to_string_lossy().to_string()));
            }
        }
    }
    sum.rule = "real find_node / find_node_predicate lookups through the real Service event loop (paused clock) over tables of 0-40 entries; the harness plays the handler: every FINDNODE is answered with NODES (one or two packets, records at the requested distances; in a third of the cases newer versions of routing-table entries' records now and then), failed, or left silent (late answers/failures now and then); parallelism 1-4, predicate lookups with 1-6 requested results; in a third of the cases 1-3 further lookups are issued next to the first (at once or while it is in flight): plain ones and predicate lookups asking for usize::MAX, usize::MAX/2, 0, 1, 16 or 100 results - each must end with a result and the service task must survive; in a quarter of the cases answers of 17-26 records in 3-4 packets, in a fifth only the first 1-3 requests are answered (so) and all others fail (exhaustion with a handful of results: every reported candidate must have been asked); in a sixth the table also holds 1-2 entries whose record has no socket usable in IPv4 mode (put there through the shared table handle); after the ordinary cases cases/4 QUIET cases (numbered from 1000000): a lookup over a few ordinary and 0-3 unusable entries, every request resolved at once, no other traffic - when the service is idle with nothing in flight the lookup must have ended, else the harness waits more than the (400 ms, real time) query timeout before it reports; in an eighth of the cases the target of the lookup (and of a companion) is the local node id; in a third, requests that fail do so after the first packet (1-3 records at requested distances) of an answer announced as 2-4 packets - the peer must not be banned for it (C11); in a quarter of the cases (peer timeout 150 ms real time, two thirds of them with peers that know nobody and no companions) the last request of an exhausted lookup fails after an EMPTY first packet of a longer answer: that peer has not answered and must not be in the result (C10); non-trivial = at least two peers were asked".into();
    sum.write(&o.out);
    println!("svcq: {} cases, {} non-trivial, {} monitor failure signatures", sum.evaluations, sum.distinct_nontrivial, sum.monitor_failures.len());
}
