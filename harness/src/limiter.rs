//! C18 - inbound rate limiting and ban lists.
//!
//! `verif-harness limiter --part lim|fil --seed S --cases N --out DIR [--only I]`
//!
//! part lim: the real `Limiter<u64>` through its explicit-time entry point; exact comparison with
//!           coq/Model/Limiter.v (verdict incl. waiting time, all TATs) + monitors written from
//!           the property text (window bound, reference token bucket, prune transparency);
//! part fil: the real `Filter` (reads the clock itself) + the process-global PERMIT_BAN_LIST,
//!           driven serially in real time on time-robust histories; decisions, ban/permit lists
//!           and the filter's caches are compared with the model after every call.
use crate::common::*;
use discv5::enr::{CombinedKey, NodeId};
use discv5::verif::filter::{
    permit_ban_reset, permit_ban_snapshot, DatagramKind, Fate, FilterConfig, FilterFacade, LimiterFacade, PermitBanList, RateLimiterBuilder,
    RecvFacade, Verdict,
};
use discv5::verif::handler::VirtualHandler;
use discv5::{ConfigBuilder, Discv5, Enr, ListenConfig, NodeAddress};
use std::collections::{BTreeMap, BTreeSet};
use std::net::{IpAddr, Ipv4Addr, SocketAddr};
use std::time::{Duration, Instant};

pub const HEADER: &str = "From Coq Require Import List NArith.\nImport ListNotations.\nFrom Discv5V Require Import Model.Limiter Run.Common Run.LimiterRun.\nOpen Scope N_scope.";

fn dur_ns(ns: u128) -> Duration {
    Duration::new((ns / 1_000_000_000) as u64, (ns % 1_000_000_000) as u32)
}

// ------------------------------------------------------------------------------------------------
// part lim

#[derive(Clone, Debug)]
pub enum LEv {
    Allows { el: u128, key: u64, tokens: u64 },
    Prune { el: u128 },
}

pub struct LimCase {
    pub period: u128,
    pub max_tokens: u64,
    pub events: Vec<LEv>,
    /// monotone times, no u64 overflow region: the property monitors apply
    pub regular: bool,
    pub kind: &'static str,
}

fn gen_lim(rng: &mut Rng, thorough: bool) -> LimCase {
    let nev = if thorough { rng.range(40, 160) } else { rng.range(20, 70) } as usize;
    if rng.chance(7, 10) {
        // ---- regular: burst 1..12, periods divisible and not divisible by the burst
        let n = *rng.pick(&[1u64, 1, 2, 2, 3, 3, 4, 5, 6, 8, 10, 12]);
        let (period, kind): (u128, &'static str) = match rng.weighted(&[3, 4, 2, 2]) {
            0 => ((n * rng.range(1, 1_000_000_000)) as u128, "period divisible by burst"),
            1 => {
                let mut p = rng.range(n.max(2), 10_000_000_000) as u128;
                if n > 1 && p % n as u128 == 0 {
                    p += 1;
                }
                (p, if p % n as u128 == 0 { "period divisible by burst" } else { "period not divisible by burst" })
            }
            2 => (*rng.pick(&[1_000_000_000u128, 2_000_000_000, 500_000_000]), "round period"),
            _ => {
                // small periods: the integer division tau / n is coarse
                let mut p = rng.range(n, 40 * n) as u128;
                if n > 1 && p % n as u128 == 0 {
                    p += 1;
                }
                (p, "small period not divisible by burst")
            }
        };
        let kind = if period % n as u128 == 0 && kind == "round period" { "period divisible by burst" } else { kind };
        let tau = period as u64;
        let t = tau / n;
        let mut now: u128 = if rng.chance(1, 2) { 0 } else { rng.range(0, 1_000_000_000_000) as u128 };
        let mut events = vec![];
        let multi = rng.chance(1, 5);
        // style of the arrival process: bursts, a steady stream at about the token period, mixed
        let weights: [u64; 10] = match rng.weighted(&[3, 3, 4]) {
            0 => [50, 25, 2, 3, 2, 6, 2, 3, 4, 3],
            1 => [6, 6, 18, 30, 18, 12, 2, 3, 3, 2],
            _ => [20, 14, 8, 10, 8, 10, 4, 6, 6, 3],
        };
        for _ in 0..nev {
            let inc: u64 = match rng.weighted(&weights) {
                0 => 0,
                1 => rng.range(0, (t / 2).max(1)),
                2 => t.saturating_sub(1),
                3 => t,
                4 => t + 1,
                5 => rng.range(0, 2 * t.max(1)),
                6 => tau - 1,
                7 => tau,
                8 => tau + rng.range(0, tau),
                _ => 3 * tau,
            };
            now += inc as u128;
            if rng.chance(3, 20) {
                events.push(LEv::Prune { el: now });
            } else {
                let key = *rng.pick(&[1u64, 1, 1, 1, 1, 2, 2, 3]);
                let tokens = if multi && rng.chance(1, 3) { rng.range(0, n + 1) } else { 1 };
                events.push(LEv::Allows { el: now, key, tokens });
            }
        }
        LimCase { period, max_tokens: n, events, regular: true, kind }
    } else {
        // ---- edge cases: invalid quotas, t = 0, u64 overflow, clock going back, 2^64 truncation
        let (period, n, kind): (u128, u64, &'static str) = match rng.weighted(&[1, 1, 2, 1, 3, 3]) {
            0 => (0, rng.range(1, 5), "edge: zero period"),
            1 => (rng.range(1, 1_000_000) as u128, 0, "edge: zero burst"),
            2 => (rng.range(1, 20) as u128, rng.range(21, 60), "edge: burst larger than period in ns (t = 0)"),
            3 => ((1u128 << 64) + rng.range(0, 1_000_000) as u128, rng.range(1, 8), "edge: period >= 2^64 ns"),
            4 => (rng.range(1, 1u64 << 62) as u128, rng.range(1, 8), "edge: huge period"),
            _ => (rng.range(8, 1_000_000_000) as u128, rng.range(1, 8), "edge: times near 2^64 / going back"),
        };
        let tau = period.min(u64::MAX as u128) as u64;
        let t = if n == 0 { 0 } else { tau / n };
        let base: u128 = match rng.weighted(&[2, 3, 1]) {
            0 => 0,
            1 => (u64::MAX as u128) - rng.range(0, 4 * tau.max(1).min(1 << 40)) as u128,
            _ => (1u128 << 64) + rng.range(0, 1_000_000) as u128, // as_nanos() as u64 truncates
        };
        let mut now = base;
        let mut events = vec![];
        for _ in 0..nev {
            match rng.weighted(&[5, 2, 1]) {
                0 => now += rng.range(0, 2 * t.max(1).min(1 << 40)) as u128,
                1 => now += rng.range(0, tau.max(1).min(1 << 41)) as u128,
                _ => now = now.saturating_sub(rng.range(0, tau.max(1).min(1 << 40)) as u128),
            }
            if rng.chance(1, 8) {
                events.push(LEv::Prune { el: now });
            } else {
                let tokens = match rng.weighted(&[6, 1, 2, 1, 1]) {
                    0 => 1,
                    1 => 0,
                    2 => rng.range(1, n.max(1) + 2),
                    3 => (u64::MAX / t.max(1)).saturating_add(rng.range(0, 2)),
                    _ => rng.next(),
                };
                events.push(LEv::Allows { el: now, key: rng.range(1, 3), tokens });
            }
        }
        LimCase { period, max_tokens: n, events, regular: false, kind }
    }
}

fn enc_lim_state(e: &mut Enc, st: &(u64, u64, Vec<(u64, u64)>)) {
    let mut v = st.2.clone();
    v.sort();
    e.n(st.0).n(st.1).n(v.len() as u64);
    for (k, t) in v {
        e.n(k).n(t);
    }
}

pub struct CaseResult {
    pub coq: String,
    pub failures: Vec<(String, String, usize)>,
    pub nontrivial: bool,
    pub canon: u64,
    pub steps: usize,
    pub hist: Hist,
    pub ambiguous: u64,
}

fn coq_lev(e: &LEv) -> String {
    match e {
        LEv::Allows { el, key, tokens } => format!("LAllows {} {} {}", el, key, tokens),
        LEv::Prune { el } => format!("LPrune {}", el),
    }
}

fn run_lim(id: u64, g: &LimCase) -> CaseResult {
    let mut hist = Hist::default();
    hist.add(&format!("lim:{}", g.kind));
    let mut failures: Vec<(String, String, usize)> = vec![];
    let mut seen = BTreeSet::new();
    let mut fail = |failures: &mut Vec<(String, String, usize)>, sig: &str, d: String, i: usize| {
        if seen.insert(sig.to_string()) {
            failures.push((sig.to_string(), d, i));
        }
    };
    let made = LimiterFacade::from_quota(dur_ns(g.period), g.max_tokens);
    let mut steps = vec![];
    let mut h: u64 = 1469598103934665603;
    let mut accepted_any = false;
    let mut refused_any = false;
    let ok = made.is_ok();
    if let Ok(mut lim) = made {
        // shadow instance: same arrivals, never pruned (prune transparency, property text)
        let mut shadow = LimiterFacade::from_quota(dur_ns(g.period), g.max_tokens).ok().unwrap();
        let (tau, t, _) = lim.state();
        // reference token bucket per key, in nanoseconds of credit: (level, stamp)
        let mut tb: BTreeMap<u64, (u128, u128)> = BTreeMap::new();
        let mut tbx: BTreeMap<u64, (u128, u128)> = BTreeMap::new();
        // accepted arrivals per key: (time, tokens)
        let mut arrivals: BTreeMap<u64, Vec<(u128, u64, bool)>> = BTreeMap::new();
        for (i, ev) in g.events.iter().enumerate() {
            let mut e = Enc::new();
            match ev {
                LEv::Allows { el, key, tokens } => {
                    let r = catch(std::panic::AssertUnwindSafe(|| lim.allows(dur_ns(*el), *key, *tokens)));
                    let v = match &r {
                        Ok(Verdict::Ok) => {
                            e.n(0);
                            hist.add("verdict:ok");
                            accepted_any = true;
                            0
                        }
                        Ok(Verdict::TooLarge) => {
                            e.n(1);
                            hist.add("verdict:too_large");
                            1
                        }
                        Ok(Verdict::TooSoon(w)) => {
                            e.n(2).n(*w as u64);
                            hist.add("verdict:too_soon");
                            refused_any = true;
                            2
                        }
                        Err(_) => {
                            e.n(3);
                            hist.add("verdict:panic(overflow)");
                            3
                        }
                    };
                    if g.regular {
                        if v == 3 {
                            fail(&mut failures, "limiter panicked far from the u64 range", format!("{:?}", ev), i);
                        }
                        let sv = catch(std::panic::AssertUnwindSafe(|| shadow.allows(dur_ns(*el), *key, *tokens)));
                        if sv.as_ref().ok() != r.as_ref().ok() {
                            fail(&mut failures, "pruning changed a limiter decision", format!("{:?}: with prunes {:?}, without {:?}", ev, r, sv), i);
                        }
                        // reference token bucket of capacity tau ns, one token costs t ns
                        let cost = t as u128 * *tokens as u128;
                        let b = tb.entry(*key).or_insert((tau as u128, *el));
                        let level = (b.0 + (*el - b.1)).min(tau as u128);
                        let tb_ok = cost <= level;
                        if tb_ok {
                            *b = (level - cost, *el);
                        }
                        if tb_ok && v != 0 {
                            fail(&mut failures, "limiter refused traffic within the quota", format!("{:?}: bucket level {} ns >= cost {} ns, verdict {:?}", ev, level, cost, r), i);
                        }
                        // the same with the quota itself as the reference (max_tokens per period, exact
                        // rational arithmetic, scaled by max_tokens): the limiter's own per-token time
                        // is not taken on trust - it may round it down, never up
                        {
                            let n = g.max_tokens as u128;
                            let cap = g.period * n;
                            let xb = tbx.entry(*key).or_insert((cap, *el));
                            let lvl = (xb.0 + (*el - xb.1) * n).min(cap);
                            let xcost = g.period * *tokens as u128;
                            let x_ok = xcost <= lvl;
                            if x_ok && v != 0 && v != 3 {
                                fail(&mut failures, "limiter refused traffic within the configured quota", format!("{:?}: {} tokens per {} ns, verdict {:?}", ev, g.max_tokens, g.period, r), i);
                            }
                            if v == 0 {
                                *xb = (lvl.saturating_sub(xcost), *el);
                            } else {
                                *xb = (lvl, *el);
                            }
                        }
                        if !tb_ok && v == 0 {
                            fail(&mut failures, "limiter let through traffic beyond the quota", format!("{:?}: bucket level {} ns < cost {} ns", ev, level, cost), i);
                        }
                        arrivals.entry(*key).or_default().push((*el, *tokens, v == 0));
                    }
                    h = (h ^ (v + 1)).wrapping_mul(1099511628211);
                }
                LEv::Prune { el } => {
                    let before = lim.state().2.len();
                    lim.prune(dur_ns(*el));
                    let after = lim.state().2.len();
                    hist.add(if after < before { "prune:removed_keys" } else { "prune:nothing_removed" });
                    h = (h ^ (17 + (before - after) as u64)).wrapping_mul(1099511628211);
                }
            }
            enc_lim_state(&mut e, &lim.state());
            steps.push(format!("({}, {})", coq_lev(ev), e.coq()));
        }
        if g.regular {
            // the number let through in any window never exceeds burst + rate * window
            let n = g.max_tokens as u128;
            let divisible = g.period % n == 0;
            for (key, arr) in &arrivals {
                for a in 0..arr.len() {
                    let mut count: u128 = 0;
                    for b in a..arr.len() {
                        if arr[b].2 {
                            count += arr[b].1 as u128;
                        }
                        let w = arr[b].0 - arr[a].0;
                        // text: burst + rate * window, rate = max_tokens / period
                        let text_bound = n + (n * w + g.period - 1) / g.period;
                        // with the code's integer token period t = period / max_tokens
                        let coded_bound = if t == 0 { u128::MAX } else { (tau as u128 + w) / t as u128 };
                        if count > coded_bound {
                            fail(&mut failures, "limiter let through more than (period + window) / token period", format!("key {} window [{}, {}]: {} tokens > {}", key, arr[a].0, arr[b].0, count, coded_bound), b);
                        }
                        if count > text_bound {
                            if divisible {
                                fail(&mut failures, "limiter let through more than burst plus rate times window", format!("key {} window [{}, {}]: {} tokens > {}", key, arr[a].0, arr[b].0, count, text_bound), b);
                            } else {
                                hist.add("observation:burst+rate*window exceeded through integer rounding of period/burst");
                            }
                        }
                    }
                }
            }
        }
    } else {
        hist.add("from_quota:rejected");
    }
    let coq = format!(
        "CLim ({}, ({}, {}), {},\n [{}])",
        id,
        g.period,
        g.max_tokens,
        if ok { 1 } else { 0 },
        steps.join(";\n  ")
    );
    CaseResult { coq, failures, nontrivial: accepted_any && refused_any, canon: h, steps: steps.len(), hist, ambiguous: 0 }
}

// ------------------------------------------------------------------------------------------------
// part fil

#[derive(Clone, Copy, Debug, PartialEq)]
pub enum Regime {
    /// the quota does not refill within a case: period >= 60 s, burst n
    Counting(u64, u64),
    /// the bucket is full again before every call: period 200 us
    Open(u64, u64),
}
impl Regime {
    fn quota(&self) -> (u64, u64) {
        match self {
            Regime::Counting(p, n) | Regime::Open(p, n) => (*p, *n),
        }
    }
}

#[derive(Clone, Debug)]
pub enum FEv {
    Initial(u8),
    Final(u8, u8),
    /// one datagram through RecvHandler::handle_inbound: exempt source?, ip, 0 = garbage /
    /// 255 = WHOAREYOU / n = message from node n
    Inbound(bool, u8, u8),
    Prune,
    /// the handler's unban_nodes_check (runs when a handler starts)
    UnbanCheck,
    PermitIp(u8, bool),
    PermitNode(u8, bool),
    BanIp(u8, bool, Option<u64>),
    BanNode(u8, bool, Option<u64>),
}

pub struct FilCase {
    pub enabled: bool,
    pub rate: Option<(Regime, Option<Regime>, Option<Regime>)>, // total, node, ip
    pub ban_ns: Option<u64>,
    pub max_nodes_per_ip: Option<usize>,
    pub max_bans_per_ip: Option<usize>,
    pub events: Vec<FEv>,
}

const HOUR: u64 = 3_600_000_000_000;

fn gen_regime(rng: &mut Rng, big: bool) -> Regime {
    if rng.chance(3, 4) {
        let p = *rng.pick(&[60_000_000_000u64, HOUR, 61_000_000_007]);
        Regime::Counting(p, if big { rng.range(4, 14) } else { rng.range(1, 5) })
    } else {
        Regime::Open(200_000, rng.range(1, 3))
    }
}

fn gen_fil(rng: &mut Rng, thorough: bool, inb: bool) -> FilCase {
    let enabled = !rng.chance(1, 8);
    let rate = if rng.chance(1, 10) {
        None
    } else {
        Some((
            gen_regime(rng, true),
            if rng.chance(3, 4) { Some(gen_regime(rng, false)) } else { None },
            if rng.chance(3, 4) { Some(gen_regime(rng, false)) } else { None },
        ))
    };
    let ban_ns = match rng.weighted(&[5, 2, 2]) {
        0 => Some(HOUR),
        1 => Some(30_000_000_000),
        _ => None,
    };
    let max_nodes_per_ip = if rng.chance(1, 2) { Some(rng.range(2, 4) as usize) } else { None };
    let max_bans_per_ip = if rng.chance(2, 3) { Some(rng.range(1, 3) as usize) } else { None };
    let nev = if thorough { rng.range(30, 80) } else { rng.range(20, 45) } as usize;
    let mut events = vec![];
    for _ in 0..nev {
        let ip = *rng.pick(&[1u8, 1, 1, 2, 2, 3, 4]);
        let node = *rng.pick(&[1u8, 1, 2, 2, 3, 4, 5, 6]);
        let short = |rng: &mut Rng| -> Option<u64> {
            // 0.5 ms bans are over at the next event (2 ms later); the others never end within a case
            match rng.weighted(&[3, 2, 2]) {
                0 => Some(HOUR),
                1 => None,
                _ => Some(500_000),
            }
        };
        let ev = match rng.weighted(&[34, 34, 5, 5, 5, 6, 6, 3]) {
            0 if inb => FEv::Inbound(rng.chance(1, 8), ip, *rng.pick(&[0u8, 255, node, node, node, node])),
            1 if inb => FEv::Inbound(rng.chance(1, 8), ip, node),
            2 if inb => FEv::Inbound(false, ip, 255),
            0 => FEv::Initial(ip),
            1 => FEv::Final(ip, node),
            2 => FEv::Prune,
            7 => FEv::UnbanCheck,
            3 => FEv::PermitIp(ip, rng.chance(2, 3)),
            4 => FEv::PermitNode(node, rng.chance(2, 3)),
            5 => FEv::BanIp(ip, rng.chance(2, 3), short(rng)),
            _ => FEv::BanNode(node, rng.chance(2, 3), short(rng)),
        };
        events.push(ev);
    }
    FilCase { enabled, rate, ban_ns, max_nodes_per_ip, max_bans_per_ip, events }
}

fn ip_of(i: u8) -> IpAddr {
    IpAddr::V4(Ipv4Addr::new(10, 0, 0, i))
}
fn ip_num(ip: &IpAddr) -> u64 {
    match ip {
        IpAddr::V4(a) => u32::from_be_bytes(a.octets()) as u64,
        IpAddr::V6(_) => u64::MAX,
    }
}
fn node_of(i: u8) -> NodeId {
    let mut b = [0u8; 32];
    b[0] = 0xAB;
    b[31] = i;
    NodeId::new(&b)
}
fn node_num(id: &NodeId) -> u64 {
    let r = id.raw();
    u64::from_be_bytes([r[24], r[25], r[26], r[27], r[28], r[29], r[30], r[31]])
}

fn coq_on(x: Option<u64>) -> String {
    coq_opt(x.map(|v| v.to_string()))
}

fn coq_fev(e: &FEv) -> String {
    match e {
        FEv::Initial(ip) => format!("FInitial {}", ip_num(&ip_of(*ip))),
        FEv::Final(ip, n) => format!("FFinal {} {}", ip_num(&ip_of(*ip)), node_num(&node_of(*n))),
        FEv::Inbound(ex, ip, k) => format!(
            "FInbound {} {} {}",
            coq_bool(*ex),
            ip_num(&ip_of(*ip)),
            match k {
                0 => "None".to_string(),
                255 => "(Some None)".to_string(),
                n => format!("(Some (Some {}))", node_num(&node_of(*n))),
            }
        ),
        FEv::Prune => "FPruneLimiter".into(),
        FEv::UnbanCheck => "FUnbanCheck".into(),
        FEv::PermitIp(ip, add) => format!("FPermitIp {} {}", ip_num(&ip_of(*ip)), coq_bool(*add)),
        FEv::PermitNode(n, add) => format!("FPermitNode {} {}", node_num(&node_of(*n)), coq_bool(*add)),
        FEv::BanIp(ip, add, d) => format!("FBanIp {} {} {}", ip_num(&ip_of(*ip)), coq_bool(*add), coq_on(*d)),
        FEv::BanNode(n, add, d) => format!("FBanNode {} {} {}", node_num(&node_of(*n)), coq_bool(*add), coq_on(*d)),
    }
}

fn build_rate(r: &(Regime, Option<Regime>, Option<Regime>)) -> discv5::RateLimiter {
    let mut b = RateLimiterBuilder::new();
    let (p, n) = r.0.quota();
    b = b.total_n_every(n, Duration::from_nanos(p));
    if let Some(q) = r.1 {
        let (p, n) = q.quota();
        b = b.node_n_every(n, Duration::from_nanos(p));
    }
    if let Some(q) = r.2 {
        let (p, n) = q.quota();
        b = b.ip_n_every(n, Duration::from_nanos(p));
    }
    b.build().expect("rate limiter")
}

fn enc_bans<K: Clone>(e: &mut Enc, m: &std::collections::HashMap<K, Option<Instant>>, num: impl Fn(&K) -> u64) {
    let mut v: Vec<(u64, u64)> = m.iter().map(|(k, t)| (num(k), t.is_some() as u64)).collect();
    v.sort();
    e.n(v.len() as u64);
    for (k, f) in v {
        e.n(k).n(f);
    }
}

fn enc_pbl(e: &mut Enc, p: &PermitBanList) {
    let mut v: Vec<u64> = p.permit_ips.iter().map(ip_num).collect();
    v.sort();
    e.n(v.len() as u64);
    for x in v {
        e.n(x);
    }
    enc_bans(e, &p.ban_ips, ip_num);
    let mut v: Vec<u64> = p.permit_nodes.iter().map(node_num).collect();
    v.sort();
    e.n(v.len() as u64);
    for x in v {
        e.n(x);
    }
    enc_bans(e, &p.ban_nodes, node_num);
}

fn enc_filter(e: &mut Enc, f: &FilterFacade) {
    let d = f.dump();
    e.n(d.known_addrs.len() as u64);
    for (ip, ids) in &d.known_addrs {
        let mut v: Vec<u64> = ids.iter().map(node_num).collect();
        v.sort();
        e.n(ip_num(ip)).n(v.len() as u64);
        for x in v {
            e.n(x);
        }
    }
    e.n(d.banned_nodes.len() as u64);
    for (ip, c) in &d.banned_nodes {
        e.n(ip_num(ip)).n(*c as u64);
    }
    match d.init_time {
        None => {
            e.n(0);
        }
        Some(_) => {
            e.n(1).n(d.total.len() as u64);
            match &d.node {
                Some(l) => {
                    let mut v: Vec<u64> = l.iter().map(|(k, _)| node_num(k)).collect();
                    v.sort();
                    e.n(1).n(v.len() as u64);
                    for x in v {
                        e.n(x);
                    }
                }
                None => {
                    e.n(0);
                }
            }
            match &d.ip {
                Some(l) => {
                    let mut v: Vec<u64> = l.iter().map(|(k, _)| ip_num(k)).collect();
                    v.sort();
                    e.n(1).n(v.len() as u64);
                    for x in v {
                        e.n(x);
                    }
                }
                None => {
                    e.n(0);
                }
            }
        }
    }
}

/// quota bookkeeping of the monitor for the time-robust regimes
struct Quota {
    regime: Option<Regime>,
    used: BTreeMap<u64, u64>,
}
impl Quota {
    /// would one more datagram for `key` stay within the quota? (counts it if so)
    fn take(&mut self, key: u64) -> bool {
        match self.regime {
            None | Some(Regime::Open(..)) => true,
            Some(Regime::Counting(_, n)) => {
                let u = self.used.entry(key).or_insert(0);
                if *u < n {
                    *u += 1;
                    true
                } else {
                    false
                }
            }
        }
    }
}

fn run_fil(id: u64, g: &FilCase, api: &Discv5, inb: bool, rt: &tokio::runtime::Runtime) -> CaseResult {
    let mut hist = Hist::default();
    let mut failures: Vec<(String, String, usize)> = vec![];
    let mut seen = BTreeSet::new();
    let mut fail = |failures: &mut Vec<(String, String, usize)>, sig: &str, d: String, i: usize| {
        if seen.insert(sig.to_string()) {
            failures.push((sig.to_string(), d, i));
        }
    };
    permit_ban_reset(PermitBanList::default());
    let base = Instant::now();
    let ns = |t: Instant| t.duration_since(base).as_nanos() as u64;
    let rate = g.rate.as_ref().map(build_rate);
    let init = rate.as_ref().map(|r| ns(r.verif_init_time()));
    let config = FilterConfig { enabled: g.enabled, rate_limiter: rate, max_nodes_per_ip: g.max_nodes_per_ip, max_bans_per_ip: g.max_bans_per_ip };
    let local_id = node_of(200);
    // the filter alone, or the filter inside the receive path (RecvHandler::handle_inbound)
    let (mut f, mut recv): (Option<FilterFacade>, Option<RecvFacade>) = if inb {
        (None, Some(rt.block_on(RecvFacade::new(config, g.ban_ns.map(Duration::from_nanos), local_id)).expect("recv handler")))
    } else {
        (Some(FilterFacade::new(config, g.ban_ns.map(Duration::from_nanos))), None)
    };
    hist.add(if g.enabled { "filter:enabled" } else { "filter:disabled" });
    match &g.rate {
        None => hist.add("rate_limiter:none"),
        Some(r) => {
            for (name, q) in [("total", Some(r.0)), ("node", r.1), ("ip", r.2)] {
                hist.add(&format!(
                    "quota:{}:{}",
                    name,
                    match q {
                        None => "none".to_string(),
                        Some(Regime::Counting(_, n)) => format!("burst {} (no refill within the case)", n.min(9)),
                        Some(Regime::Open(_, _)) => "refilled before every call".to_string(),
                    }
                ));
            }
        }
    }
    let mut q_total = Quota { regime: g.rate.as_ref().map(|r| r.0), used: BTreeMap::new() };
    let mut q_node = Quota { regime: g.rate.as_ref().and_then(|r| r.1), used: BTreeMap::new() };
    let mut q_ip = Quota { regime: g.rate.as_ref().and_then(|r| r.2), used: BTreeMap::new() };
    let limited = g.enabled && g.rate.is_some();
    let mut steps = vec![];
    let mut h: u64 = 1469598103934665603;
    let (mut saw_pass, mut saw_limit_drop, mut saw_ban_drop, mut saw_permit) = (false, false, false, false);
    for (i, ev) in g.events.iter().enumerate() {
        // every bucket of the "open" regime is full again after 2 ms
        std::thread::sleep(Duration::from_millis(2));
        let before = permit_ban_snapshot();
        let lo_i = Instant::now();
        let mut out = Enc::new();
        let r = catch(std::panic::AssertUnwindSafe(|| match ev {
            FEv::Initial(ip) => Some(f.as_mut().unwrap().initial_pass(&SocketAddr::new(ip_of(*ip), 9000)) as u64),
            FEv::Final(ip, n) => {
                Some(f.as_mut().unwrap().final_pass(&NodeAddress { socket_addr: SocketAddr::new(ip_of(*ip), 9000), node_id: node_of(*n) }) as u64)
            }
            FEv::Inbound(ex, ip, k) => {
                let src = SocketAddr::new(ip_of(*ip), 9000);
                let rf = recv.as_mut().unwrap();
                if *ex {
                    rf.expected_responses.write().insert(src, 1);
                }
                // an answer awaited from ANOTHER port of the same IP address exempts nothing here:
                // exemptions are per socket address
                let decoy = SocketAddr::new(ip_of(*ip), 9001);
                if i % 2 == 0 {
                    rf.expected_responses.write().insert(decoy, 1);
                }
                let kind = match k {
                    0 => DatagramKind::Garbage,
                    255 => DatagramKind::WhoAreYou,
                    n => DatagramKind::Message(node_of(*n)),
                };
                let fate = rt.block_on(rf.inbound(src, kind));
                if *ex {
                    rf.expected_responses.write().remove(&src);
                }
                rf.expected_responses.write().remove(&decoy);
                Some(match fate {
                    Fate::Dropped => 0,
                    Fate::Unrecognized => 1,
                    Fate::Delivered => 3,
                })
            }
            FEv::Prune => {
                f.as_mut().unwrap().prune_limiter();
                None
            }
            FEv::UnbanCheck => {
                // a starting handler runs unban_nodes_check at once (first tick of its interval)
                rt.block_on(async {
                    let key = CombinedKey::generate_secp256k1();
                    let enr = Enr::builder().ip4(Ipv4Addr::new(127, 0, 0, 1)).udp4(9009).build(&key).unwrap();
                    let config = ConfigBuilder::new(ListenConfig::default()).build();
                    let mut vh = VirtualHandler::spawn(
                        std::sync::Arc::new(parking_lot::RwLock::new(enr)),
                        std::sync::Arc::new(parking_lot::RwLock::new(key)),
                        config,
                        vec![SocketAddr::new(IpAddr::V4(Ipv4Addr::new(127, 0, 0, 1)), 9009)],
                    )
                    .await
                    .expect("virtual handler");
                    tokio::time::sleep(Duration::from_millis(3)).await;
                    vh.shutdown();
                    tokio::task::yield_now().await;
                });
                None
            }
            FEv::PermitIp(ip, add) => {
                if *add {
                    api.permit_ip(ip_of(*ip))
                } else {
                    api.permit_ip_remove(&ip_of(*ip))
                }
                None
            }
            FEv::PermitNode(n, add) => {
                if *add {
                    api.permit_node(&node_of(*n))
                } else {
                    api.permit_node_remove(&node_of(*n))
                }
                None
            }
            FEv::BanIp(ip, add, d) => {
                if *add {
                    api.ban_ip(ip_of(*ip), d.map(Duration::from_nanos))
                } else {
                    api.ban_ip_remove(&ip_of(*ip))
                }
                None
            }
            FEv::BanNode(n, add, d) => {
                if *add {
                    api.ban_node(&node_of(*n), d.map(Duration::from_nanos))
                } else {
                    api.ban_node_remove(&node_of(*n))
                }
                None
            }
        }));
        let hi_i = Instant::now();
        let decision = match r {
            Ok(d) => d,
            Err(m) => {
                fail(&mut failures, "panic in the packet filter", m, i);
                break;
            }
        };
        let after = permit_ban_snapshot();
        let (lo, hi) = (ns(lo_i), ns(hi_i));
        if let Some(d) = decision {
            out.n(d);
        }
        enc_pbl(&mut out, &after);
        if let Some(f) = f.as_ref() {
            enc_filter(&mut out, f);
        }
        steps.push(format!("({}, {}, {}, {})", coq_fev(ev), lo, hi, out.coq()));
        hist.add(match ev {
            FEv::Initial(_) => "op:initial_pass",
            FEv::Final(..) => "op:final_pass",
            FEv::Prune => "op:prune_limiter",
            FEv::Inbound(true, ..) => "op:handle_inbound (exempt source)",
            FEv::Inbound(false, _, 0) => "op:handle_inbound (undecodable)",
            FEv::Inbound(false, _, 255) => "op:handle_inbound (WHOAREYOU)",
            FEv::Inbound(false, ..) => "op:handle_inbound (message)",
            FEv::UnbanCheck => "op:unban_nodes_check",
            FEv::PermitIp(..) | FEv::PermitNode(..) => "op:permit/unpermit",
            FEv::BanIp(..) | FEv::BanNode(..) => "op:ban/unban",
        });

        // ---- direct monitor, from the property text
        let within = |t: &Option<Instant>| -> bool {
            // a new ban must last at least the configured duration
            match (g.ban_ns, t) {
                (None, None) => true,
                (Some(d), Some(t)) => ns(*t) >= lo + d && ns(*t) <= hi + d,
                _ => false,
            }
        };
        match ev {
            FEv::Initial(ipi) => {
                let ip = ip_of(*ipi);
                let d = decision.unwrap() != 0;
                if before.permit_ips.contains(&ip) {
                    saw_permit = true;
                    hist.add("initial_pass:permit-listed");
                    if !d {
                        fail(&mut failures, "datagram from a permit-listed IP was dropped at the IP stage", format!("{:?}", ev), i);
                    }
                } else if before.ban_ips.contains_key(&ip) {
                    saw_ban_drop = true;
                    hist.add("initial_pass:banned");
                    if d {
                        fail(&mut failures, "datagram from a banned IP was let through", format!("{:?}", ev), i);
                    }
                } else if !limited {
                    if !d {
                        fail(&mut failures, "datagram was refused although no quota applies", format!("{:?}", ev), i);
                    }
                } else {
                    let ip_ok = q_ip.take(ip_num(&ip));
                    if !ip_ok {
                        saw_limit_drop = true;
                        hist.add("initial_pass:over the per-IP quota");
                        if d {
                            fail(&mut failures, "more datagrams than the burst were let through for one IP", format!("{:?}", ev), i);
                        }
                        match after.ban_ips.get(&ip) {
                            Some(t) if within(t) => {}
                            x => fail(&mut failures, "sender over its per-IP quota is not banned for the configured duration", format!("{:?}: ban entry {:?}, call in [{}, {}] ns", ev, x.map(|t| t.map(ns)), lo, hi), i),
                        }
                    } else {
                        let tot_ok = q_total.take(0);
                        if tot_ok {
                            hist.add("initial_pass:within every quota");
                            if !d {
                                fail(&mut failures, "datagram within every applicable quota was refused", format!("{:?}", ev), i);
                            }
                        } else {
                            saw_limit_drop = true;
                            hist.add("initial_pass:over the total quota");
                            if d {
                                fail(&mut failures, "more datagrams than the total burst were let through", format!("{:?}", ev), i);
                            }
                            if after.ban_ips.contains_key(&ip) {
                                fail(&mut failures, "sender was banned although only the total quota was exceeded", format!("{:?}", ev), i);
                            }
                        }
                    }
                }
                saw_pass |= d;
                h = (h ^ (2 + d as u64)).wrapping_mul(1099511628211);
            }
            FEv::Final(ipi, ni) => {
                let ip = ip_of(*ipi);
                let node = node_of(*ni);
                let d = decision.unwrap() != 0;
                if before.permit_nodes.contains(&node) {
                    saw_permit = true;
                    hist.add("final_pass:permit-listed");
                    if !d {
                        fail(&mut failures, "datagram from a permit-listed node id was dropped at the node stage", format!("{:?}", ev), i);
                    }
                } else if before.ban_nodes.contains_key(&node) {
                    saw_ban_drop = true;
                    hist.add("final_pass:banned");
                    if d {
                        fail(&mut failures, "datagram from a banned node id was let through", format!("{:?}", ev), i);
                    }
                } else if !g.enabled {
                    if !d {
                        fail(&mut failures, "datagram was refused although the filter is disabled", format!("{:?}", ev), i);
                    }
                } else {
                    let node_ok = if g.rate.is_some() { q_node.take(node_num(&node)) } else { true };
                    if !node_ok {
                        saw_limit_drop = true;
                        hist.add("final_pass:over the per-node quota");
                        if d {
                            fail(&mut failures, "more datagrams than the burst were let through for one node id", format!("{:?}", ev), i);
                        }
                        match after.ban_nodes.get(&node) {
                            Some(t) if within(t) => {}
                            x => fail(&mut failures, "sender over its per-node quota is not banned for the configured duration", format!("{:?}: ban entry {:?}", ev, x.map(|t| t.map(ns))), i),
                        }
                        if after.ban_ips.len() > before.ban_ips.len() {
                            hist.add("final_pass:IP banned for too many banned nodes");
                        }
                    } else if g.max_nodes_per_ip.is_none() {
                        hist.add("final_pass:within every quota");
                        if !d {
                            fail(&mut failures, "datagram within every applicable quota was refused", format!("{:?}", ev), i);
                        }
                    } else if !d {
                        // only the nodes-per-IP rule can explain this
                        hist.add("final_pass:nodes-per-IP rule");
                        if !after.ban_ips.contains_key(&ip) {
                            fail(&mut failures, "datagram within every applicable quota was refused", format!("{:?} (nodes-per-IP rule did not ban the IP either)", ev), i);
                        }
                    } else {
                        hist.add("final_pass:within every quota");
                    }
                }
                saw_pass |= d;
                h = (h ^ (4 + d as u64)).wrapping_mul(1099511628211);
            }
            FEv::Inbound(ex, ipi, k) => {
                let ip = ip_of(*ipi);
                let fate = decision.unwrap();
                let dropped = fate == 0;
                let node = if *k != 0 && *k != 255 { Some(node_of(*k)) } else { None };
                if *ex {
                    saw_permit = true;
                    hist.add("inbound:exempt");
                    if dropped {
                        fail(&mut failures, "solicited datagram was dropped by the filter", format!("{:?}", ev), i);
                    }
                    if after.ban_ips.len() != before.ban_ips.len() || after.ban_nodes.len() != before.ban_nodes.len() {
                        fail(&mut failures, "solicited datagram changed the ban lists", format!("{:?}", ev), i);
                    }
                } else if !before.permit_ips.contains(&ip) && before.ban_ips.contains_key(&ip) {
                    saw_ban_drop = true;
                    hist.add("inbound:banned IP");
                    if !dropped {
                        fail(&mut failures, "datagram from a banned IP was let through", format!("{:?}", ev), i);
                    }
                } else if let Some(n) = node {
                    if !before.permit_nodes.contains(&n) && before.ban_nodes.contains_key(&n) && !dropped {
                        fail(&mut failures, "datagram from a banned node id was let through", format!("{:?}", ev), i);
                    }
                    if before.permit_ips.contains(&ip) && before.permit_nodes.contains(&n) {
                        saw_permit = true;
                        hist.add("inbound:permit-listed IP and node");
                        if dropped {
                            fail(&mut failures, "datagram from a permit-listed IP and node id was dropped", format!("{:?}", ev), i);
                        }
                    }
                } else if before.permit_ips.contains(&ip) {
                    saw_permit = true;
                    if dropped {
                        fail(&mut failures, "datagram from a permit-listed IP was dropped at the IP stage", format!("{:?}", ev), i);
                    }
                }
                if dropped {
                    saw_limit_drop = true;
                } else {
                    saw_pass = true;
                }
                hist.add(match fate {
                    0 => "inbound:dropped",
                    1 => "inbound:unrecognized frame",
                    _ => "inbound:delivered",
                });
                h = (h ^ (8 + fate)).wrapping_mul(1099511628211);
            }
            FEv::UnbanCheck => {
                // a ban must not be lifted before its expiry (and permanent bans never)
                for (ip, t) in &before.ban_ips {
                    let keep = match t {
                        None => true,
                        Some(t) => ns(*t) > hi,
                    };
                    if keep && !after.ban_ips.contains_key(ip) {
                        fail(&mut failures, "ban was lifted before its expiry", format!("ip {:?} until {:?}, check not after {}", ip, t.map(ns), hi), i);
                    }
                }
                for (n, t) in &before.ban_nodes {
                    let keep = match t {
                        None => true,
                        Some(t) => ns(*t) > hi,
                    };
                    if keep && !after.ban_nodes.contains_key(n) {
                        fail(&mut failures, "ban was lifted before its expiry", format!("node {} until {:?}", node_num(n), t.map(ns)), i);
                    }
                }
                let lifted = before.ban_ips.len() + before.ban_nodes.len() - after.ban_ips.len() - after.ban_nodes.len();
                hist.add(if lifted > 0 { "unban_nodes_check:lifted expired bans" } else { "unban_nodes_check:nothing to lift" });
                h = (h ^ (16 + lifted as u64)).wrapping_mul(1099511628211);
            }
            FEv::Prune => {
                h = (h ^ 6).wrapping_mul(1099511628211);
            }
            _ => {
                h = (h ^ 7).wrapping_mul(1099511628211);
            }
        }
    }
    let q = |x: &Option<Regime>| match x {
        Some(r) => {
            let (p, n) = r.quota();
            format!("(Some ({}, {}))", p, n)
        }
        None => "None".to_string(),
    };
    let rate = match (&g.rate, init) {
        (Some(r), Some(init)) => {
            let (p, n) = r.0.quota();
            format!("(Some ({}, ({}, {}), {}, {}))", init, p, n, q(&r.1), q(&r.2))
        }
        _ => "None".to_string(),
    };
    let coq = format!(
        "{} ({}, {}, {}, {}, {}, {},\n [{}])",
        if inb { "CInb" } else { "CFil" },
        id,
        coq_bool(g.enabled),
        rate,
        coq_on(g.ban_ns),
        coq_on(g.max_nodes_per_ip.map(|x| x as u64)),
        coq_on(g.max_bans_per_ip.map(|x| x as u64)),
        steps.join(";\n  ")
    );
    CaseResult {
        coq,
        failures,
        nontrivial: saw_pass && (saw_limit_drop || saw_ban_drop) && (saw_permit || saw_ban_drop),
        canon: h,
        steps: steps.len(),
        hist,
        ambiguous: 0,
    }
}

pub fn case_rng(seed: u64, idx: u64, part: &str) -> Rng {
    Rng::new(
        seed.wrapping_mul(0x9E3779B97F4A7C15)
            .wrapping_add(idx.wrapping_mul(0xD1B54A32D192ED03))
            .wrapping_add(match part {
                "lim" => 1801,
                "fil" => 1802,
                _ => 1803,
            }),
    )
}

fn api_instance() -> Discv5 {
    let key = CombinedKey::generate_secp256k1();
    let enr = Enr::builder().ip4(Ipv4Addr::new(127, 0, 0, 1)).udp4(9000).build(&key).unwrap();
    let config = ConfigBuilder::new(ListenConfig::default()).build();
    Discv5::new(enr, key, config).expect("discv5")
}

pub fn main(args: &[String]) {
    let o = parse_opts(args);
    let mut only: Option<u64> = None;
    let mut part = "lim".to_string();
    let mut i = 0;
    while i < o.rest.len() {
        match o.rest[i].as_str() {
            "--only" => {
                only = Some(o.rest[i + 1].parse().unwrap());
                i += 1;
            }
            "--part" => {
                part = o.rest[i + 1].clone();
                i += 1;
            }
            _ => {}
        }
        i += 1;
    }
    let mut sum = Summary::new(&format!("limiter/{}", part));
    let per_file = if part == "lim" { 16 } else { 8 };
    let mut w = CaseWriter::new(&o.out, &format!("c18_{}_cases", part), HEADER, "c18case", "check_all", per_file);
    let range: Vec<u64> = match only {
        Some(x) => vec![x],
        None => (0..o.cases).collect(),
    };
    let mut canon: BTreeSet<u64> = BTreeSet::new();
    let mut seen_sig: BTreeSet<String> = BTreeSet::new();
    // Discv5::new needs a tokio runtime for its default executor; the instance is only used for
    // the application-level ban/permit calls on the global list (filter part, run serially).
    let rt = tokio::runtime::Builder::new_current_thread().enable_all().build().unwrap();
    let _guard = rt.enter();
    let api = if part != "lim" { Some(api_instance()) } else { None };
    for idx in range {
        let mut rng = case_rng(o.seed, idx, &part);
        let (r, sample, replay_ops): (CaseResult, J, Vec<J>) = if part == "lim" {
            let g = gen_lim(&mut rng, o.thorough);
            let r = run_lim(idx, &g);
            let ops: Vec<J> = g.events.iter().map(|e| J::s(coq_lev(e))).collect();
            (
                r,
                J::obj(vec![
                    ("case", J::I(idx as i64)),
                    ("seed", J::I(o.seed as i64)),
                    ("kind", J::s(g.kind)),
                    ("period_ns", J::s(g.period.to_string())),
                    ("max_tokens", J::I(g.max_tokens as i64)),
                    ("first_events", J::A(ops.iter().take(8).cloned().collect())),
                ]),
                ops,
            )
        } else {
            let g = gen_fil(&mut rng, o.thorough, part == "inb");
            let r = run_fil(idx, &g, api.as_ref().unwrap(), part == "inb", &rt);
            let ops: Vec<J> = g.events.iter().map(|e| J::s(coq_fev(e))).collect();
            (
                r,
                J::obj(vec![
                    ("case", J::I(idx as i64)),
                    ("seed", J::I(o.seed as i64)),
                    ("enabled", J::B(g.enabled)),
                    ("quotas(total,node,ip)", J::s(format!("{:?}", g.rate))),
                    ("ban_ns", g.ban_ns.map(|x| J::I(x as i64)).unwrap_or(J::Null)),
                    ("max_nodes_per_ip", g.max_nodes_per_ip.map(|x| J::I(x as i64)).unwrap_or(J::Null)),
                    ("max_bans_per_ip", g.max_bans_per_ip.map(|x| J::I(x as i64)).unwrap_or(J::Null)),
                    ("first_events", J::A(ops.iter().take(8).cloned().collect())),
                ]),
                ops,
            )
        };
        sum.evaluations += 1;
        sum.steps += r.steps as u64;
        for (k, v) in &r.hist.0 {
            sum.hist.addn(k, *v);
        }
        if r.nontrivial && canon.insert(r.canon) {
            sum.distinct_nontrivial += 1;
        }
        if sum.samples.len() < 2 {
            sum.samples.push(sample.clone());
        }
        for (sigtext, detail, step) in &r.failures {
            let sig = format!("C18:{}", sigtext);
            if seen_sig.insert(sig.clone()) || only.is_some() {
                let file = o.out.join(format!("failure_C18_{}_{}_{}.json", part, idx, seen_sig.len()));
                let mut kv = vec![
                    ("component", J::s("limiter")),
                    ("part", J::s(part.clone())),
                    ("property", J::s("C18")),
                    ("seed", J::I(o.seed as i64)),
                    ("case", J::I(idx as i64)),
                    ("thorough", J::B(o.thorough)),
                    ("step", J::I(*step as i64)),
                    ("what", J::s(sigtext.clone())),
                    ("detail", J::s(detail.clone())),
                    ("config", sample.clone()),
                ];
                kv.push(("events", J::A(replay_ops.iter().take(step + 1).cloned().collect())));
                std::fs::write(&file, J::obj(kv).render()).unwrap();
                sum.monitor_failures.push((sig, format!("{} ({})", sigtext, detail), file.to_string_lossy().to_string()));
            }
        }
        w.push(r.coq);
    }
    permit_ban_reset(PermitBanList::default());
    w.flush();
    sum.case_files = w.files.clone();
    sum.rule = if part == "lim" {
        "event sequences over a real Limiter<u64> with explicit time: bursts 1-12, periods divisible / not divisible by the burst (large, round and small), arrival gaps around 0, t, tau and multiples, 3 keys, interleaved prunes, occasionally batches of several tokens; plus edge cases (invalid quotas, t = 0, times near 2^64, clock going back, huge batches); a case is non-trivial if the limiter both accepted and refused, distinct if its verdict/prune trace is new in this run".into()
    } else if part == "inb" {
        "histories over a real RecvHandler (handle_inbound: exemption lookup, initial pass, Packet::decode, final pass) + the global PERMIT_BAN_LIST in real time (serial): datagrams built with Packet::encode (message from one of 6 node ids / WHOAREYOU / undecodable) from 4 IPs, 1 in 8 from an exempt (expected-response) source, same quota regimes and list operations as the filter part, unban_nodes_check through a starting real Handler; non-trivial if some datagram was delivered, some dropped, and a permit/ban/exemption decided a call; distinct by fate trace".into()
    } else {
        "histories over a real Filter + the global PERMIT_BAN_LIST in real time (serial): total/node/ip quotas each absent, not refilling within the case (period >= 60 s, burst 1-14) or refilled before every call (period 200 us, 2 ms between calls), 4 IPs x 6 node ids, ban duration 1 h / 30 s / permanent, nodes-per-IP and bans-per-IP rules on/off, interleaved prune_limiter, Discv5::ban_*/permit_* calls (bans of 1 h / permanent / 0.5 ms) and unban_nodes_check through a starting real Handler; non-trivial if some datagram passed, some was dropped by a quota or a ban, and a permit or ban entry decided a call; distinct by decision trace".into()
    };
    sum.write(&o.out);
    println!(
        "limiter/{}: {} cases, {} steps, {} distinct non-trivial, {} monitor failure signatures",
        part,
        sum.evaluations,
        sum.steps,
        sum.distinct_nontrivial,
        sum.monitor_failures.len()
    );
}
