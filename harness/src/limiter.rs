//! C18 - inbound rate limiting and ban lists; the receive task in front of the handler.
//!
//! `verif-harness limiter --part lim|fil|inb [--focus cNN] --seed S --cases N --out DIR [--only I]`
//!
//! part lim: the real `Limiter<u64>` through its explicit-time entry point; exact comparison with
//!           coq/Model/Limiter.v (verdict incl. waiting time, all TATs) + monitors written from
//!           the property text (window bound, reference token bucket, prune transparency);
//! part fil: the real `Filter` (reads the clock itself) + the process-global PERMIT_BAN_LIST,
//!           driven serially in real time on time-robust histories; decisions, ban/permit lists
//!           and the filter's caches are compared with the model after every call;
//! part inb: the real `RecvHandler::handle_inbound` in front of a real `Handler` (hook
//!           `VirtualHandler`): datagrams with a full source socket address (IPv4, IPv6, IPv4-mapped
//!           IPv6, IPv6 with flowinfo / scope id), both ports of an IP, every packet kind, source ids
//!           incl. the local one, bodies of 0..40 bytes, explicit content of expected_responses.
//!           Observed per datagram: delivered / unrecognized / dropped and the source address that
//!           reached the handler; compared with `recv_inbound` of Model/Limiter.v.  Monitors for
//!           C18 (bans, quotas), C13 (exemptions are per socket address), C05 (well-formed packets
//!           reach the handler whatever source id and body length), C03/C12/C14/C02 (the handler
//!           sees the datagram's source address) and C04 (flowinfo/scope normalisation).
//!           `--focus cNN`: only failures of that property are reported (others are counted).
use crate::common::*;
use discv5::enr::{CombinedKey, NodeId};
use discv5::verif::filter::{permit_ban_reset, permit_ban_snapshot, FilterConfig, FilterFacade, LimiterFacade, PermitBanList, RateLimiterBuilder, Verdict};
use discv5::verif::handler::{wire_encode, HandlerOut, PacketKind, VirtualHandler, WirePacket};
use discv5::{ConfigBuilder, Discv5, Enr, ListenConfig, NodeAddress};
use std::collections::{BTreeMap, BTreeSet};
use std::net::{IpAddr, Ipv4Addr, Ipv6Addr, SocketAddr, SocketAddrV6};
use std::time::{Duration, Instant};

pub const HEADER: &str = "From Coq Require Import List NArith.\nImport ListNotations.\nFrom Discv5V Require Import Model.Limiter Run.Common Run.LimiterRun.\nOpen Scope N_scope.";

fn dur_ns(ns: u128) -> Duration {
    Duration::new((ns / 1_000_000_000) as u64, (ns % 1_000_000_000) as u32)
}

// ------------------------------------------------------------------------------------------------
// part lim

#[derive(Clone, Debug)]
pub enum LEv {
    Allows { el: u128, key: u64, tokens: u64 },
    Prune { el: u128 },
}

pub struct LimCase {
    pub period: u128,
    pub max_tokens: u64,
    pub events: Vec<LEv>,
    /// monotone times, no u64 overflow region: the property monitors apply
    pub regular: bool,
    pub kind: &'static str,
}

fn gen_lim(rng: &mut Rng, thorough: bool) -> LimCase {
    let nev = if thorough { rng.range(40, 160) } else { rng.range(20, 70) } as usize;
    if rng.chance(7, 10) {
        // ---- regular: burst 1..12, periods divisible and not divisible by the burst
        let n = *rng.pick(&[1u64, 1, 2, 2, 3, 3, 4, 5, 6, 8, 10, 12]);
        let (period, kind): (u128, &'static str) = match rng.weighted(&[3, 4, 2, 2]) {
            0 => ((n * rng.range(1, 1_000_000_000)) as u128, "period divisible by burst"),
            1 => {
                let mut p = rng.range(n.max(2), 10_000_000_000) as u128;
                if n > 1 && p % n as u128 == 0 {
                    p += 1;
                }
                (p, if p % n as u128 == 0 { "period divisible by burst" } else { "period not divisible by burst" })
            }
            2 => (*rng.pick(&[1_000_000_000u128, 2_000_000_000, 500_000_000]), "round period"),
            _ => {
                // small periods: the integer division tau / n is coarse
                let mut p = rng.range(n, 40 * n) as u128;
                if n > 1 && p % n as u128 == 0 {
                    p += 1;
                }
                (p, "small period not divisible by burst")
            }
        };
        let kind = if period % n as u128 == 0 && kind == "round period" { "period divisible by burst" } else { kind };
        let tau = period as u64;
        let t = tau / n;
        let mut now: u128 = if rng.chance(1, 2) { 0 } else { rng.range(0, 1_000_000_000_000) as u128 };
        let mut events = vec![];
        let multi = rng.chance(1, 5);
        // style of the arrival process: bursts, a steady stream at about the token period, mixed
        let weights: [u64; 10] = match rng.weighted(&[3, 3, 4]) {
            0 => [50, 25, 2, 3, 2, 6, 2, 3, 4, 3],
            1 => [6, 6, 18, 30, 18, 12, 2, 3, 3, 2],
            _ => [20, 14, 8, 10, 8, 10, 4, 6, 6, 3],
        };
        for _ in 0..nev {
            let inc: u64 = match rng.weighted(&weights) {
                0 => 0,
                1 => rng.range(0, (t / 2).max(1)),
                2 => t.saturating_sub(1),
                3 => t,
                4 => t + 1,
                5 => rng.range(0, 2 * t.max(1)),
                6 => tau - 1,
                7 => tau,
                8 => tau + rng.range(0, tau),
                _ => 3 * tau,
            };
            now += inc as u128;
            if rng.chance(3, 20) {
                events.push(LEv::Prune { el: now });
            } else {
                let key = *rng.pick(&[1u64, 1, 1, 1, 1, 2, 2, 3]);
                let tokens = if multi && rng.chance(1, 3) { rng.range(0, n + 1) } else { 1 };
                events.push(LEv::Allows { el: now, key, tokens });
            }
        }
        LimCase { period, max_tokens: n, events, regular: true, kind }
    } else {
        // ---- edge cases: invalid quotas, t = 0, u64 overflow, clock going back, 2^64 truncation
        let (period, n, kind): (u128, u64, &'static str) = match rng.weighted(&[1, 1, 2, 1, 3, 3]) {
            0 => (0, rng.range(1, 5), "edge: zero period"),
            1 => (rng.range(1, 1_000_000) as u128, 0, "edge: zero burst"),
            2 => (rng.range(1, 20) as u128, rng.range(21, 60), "edge: burst larger than period in ns (t = 0)"),
            3 => ((1u128 << 64) + rng.range(0, 1_000_000) as u128, rng.range(1, 8), "edge: period >= 2^64 ns"),
            4 => (rng.range(1, 1u64 << 62) as u128, rng.range(1, 8), "edge: huge period"),
            _ => (rng.range(8, 1_000_000_000) as u128, rng.range(1, 8), "edge: times near 2^64 / going back"),
        };
        let tau = period.min(u64::MAX as u128) as u64;
        let t = if n == 0 { 0 } else { tau / n };
        let base: u128 = match rng.weighted(&[2, 3, 1]) {
            0 => 0,
            1 => (u64::MAX as u128) - rng.range(0, 4 * tau.max(1).min(1 << 40)) as u128,
            _ => (1u128 << 64) + rng.range(0, 1_000_000) as u128, // as_nanos() as u64 truncates
        };
        let mut now = base;
        let mut events = vec![];
        for _ in 0..nev {
            match rng.weighted(&[5, 2, 1]) {
                0 => now += rng.range(0, 2 * t.max(1).min(1 << 40)) as u128,
                1 => now += rng.range(0, tau.max(1).min(1 << 41)) as u128,
                _ => now = now.saturating_sub(rng.range(0, tau.max(1).min(1 << 40)) as u128),
            }
            if rng.chance(1, 8) {
                events.push(LEv::Prune { el: now });
            } else {
                let tokens = match rng.weighted(&[6, 1, 2, 1, 1]) {
                    0 => 1,
                    1 => 0,
                    2 => rng.range(1, n.max(1) + 2),
                    3 => (u64::MAX / t.max(1)).saturating_add(rng.range(0, 2)),
                    _ => rng.next(),
                };
                events.push(LEv::Allows { el: now, key: rng.range(1, 3), tokens });
            }
        }
        LimCase { period, max_tokens: n, events, regular: false, kind }
    }
}

fn enc_lim_state(e: &mut Enc, st: &(u64, u64, Vec<(u64, u64)>)) {
    let mut v = st.2.clone();
    v.sort();
    e.n(st.0).n(st.1).n(v.len() as u64);
    for (k, t) in v {
        e.n(k).n(t);
    }
}

pub struct CaseResult {
    pub coq: String,
    /// (property, what, detail, step)
    pub failures: Vec<(String, String, String, usize)>,
    pub nontrivial: bool,
    pub canon: u64,
    pub steps: usize,
    pub hist: Hist,
    pub ambiguous: u64,
}

fn coq_lev(e: &LEv) -> String {
    match e {
        LEv::Allows { el, key, tokens } => format!("LAllows {} {} {}", el, key, tokens),
        LEv::Prune { el } => format!("LPrune {}", el),
    }
}

fn run_lim(id: u64, g: &LimCase) -> CaseResult {
    let mut hist = Hist::default();
    hist.add(&format!("lim:{}", g.kind));
    let mut failures: Vec<(String, String, usize)> = vec![];
    let mut seen = BTreeSet::new();
    let mut fail = |failures: &mut Vec<(String, String, usize)>, sig: &str, d: String, i: usize| {
        if seen.insert(sig.to_string()) {
            failures.push((sig.to_string(), d, i));
        }
    };
    let made = LimiterFacade::from_quota(dur_ns(g.period), g.max_tokens);
    let mut steps = vec![];
    let mut h: u64 = 1469598103934665603;
    let mut accepted_any = false;
    let mut refused_any = false;
    let ok = made.is_ok();
    if let Ok(mut lim) = made {
        // shadow instance: same arrivals, never pruned (prune transparency, property text)
        let mut shadow = LimiterFacade::from_quota(dur_ns(g.period), g.max_tokens).ok().unwrap();
        let (tau, t, _) = lim.state();
        // reference token bucket per key, in nanoseconds of credit: (level, stamp)
        let mut tb: BTreeMap<u64, (u128, u128)> = BTreeMap::new();
        let mut tbx: BTreeMap<u64, (u128, u128)> = BTreeMap::new();
        // accepted arrivals per key: (time, tokens)
        let mut arrivals: BTreeMap<u64, Vec<(u128, u64, bool)>> = BTreeMap::new();
        for (i, ev) in g.events.iter().enumerate() {
            let mut e = Enc::new();
            match ev {
                LEv::Allows { el, key, tokens } => {
                    let r = catch(std::panic::AssertUnwindSafe(|| lim.allows(dur_ns(*el), *key, *tokens)));
                    let v = match &r {
                        Ok(Verdict::Ok) => {
                            e.n(0);
                            hist.add("verdict:ok");
                            accepted_any = true;
                            0
                        }
                        Ok(Verdict::TooLarge) => {
                            e.n(1);
                            hist.add("verdict:too_large");
                            1
                        }
                        Ok(Verdict::TooSoon(w)) => {
                            e.n(2).n(*w as u64);
                            hist.add("verdict:too_soon");
                            refused_any = true;
                            2
                        }
                        Err(_) => {
                            e.n(3);
                            hist.add("verdict:panic(overflow)");
                            3
                        }
                    };
                    if g.regular {
                        if v == 3 {
                            fail(&mut failures, "limiter panicked far from the u64 range", format!("{:?}", ev), i);
                        }
                        let sv = catch(std::panic::AssertUnwindSafe(|| shadow.allows(dur_ns(*el), *key, *tokens)));
                        if sv.as_ref().ok() != r.as_ref().ok() {
                            fail(&mut failures, "pruning changed a limiter decision", format!("{:?}: with prunes {:?}, without {:?}", ev, r, sv), i);
                        }
                        // reference token bucket of capacity tau ns, one token costs t ns
                        let cost = t as u128 * *tokens as u128;
                        let b = tb.entry(*key).or_insert((tau as u128, *el));
                        let level = (b.0 + (*el - b.1)).min(tau as u128);
                        let tb_ok = cost <= level;
                        if tb_ok {
                            *b = (level - cost, *el);
                        }
                        if tb_ok && v != 0 {
                            fail(&mut failures, "limiter refused traffic within the quota", format!("{:?}: bucket level {} ns >= cost {} ns, verdict {:?}", ev, level, cost, r), i);
                        }
                        // the same with the quota itself as the reference (max_tokens per period, exact
                        // rational arithmetic, scaled by max_tokens): the limiter's own per-token time
                        // is not taken on trust - it may round it down, never up
                        {
                            let n = g.max_tokens as u128;
                            let cap = g.period * n;
                            let xb = tbx.entry(*key).or_insert((cap, *el));
                            let lvl = (xb.0 + (*el - xb.1) * n).min(cap);
                            let xcost = g.period * *tokens as u128;
                            let x_ok = xcost <= lvl;
                            if x_ok && v != 0 && v != 3 {
                                fail(&mut failures, "limiter refused traffic within the configured quota", format!("{:?}: {} tokens per {} ns, verdict {:?}", ev, g.max_tokens, g.period, r), i);
                            }
                            if v == 0 {
                                *xb = (lvl.saturating_sub(xcost), *el);
                            } else {
                                *xb = (lvl, *el);
                            }
                        }
                        if !tb_ok && v == 0 {
                            fail(&mut failures, "limiter let through traffic beyond the quota", format!("{:?}: bucket level {} ns < cost {} ns", ev, level, cost), i);
                        }
                        arrivals.entry(*key).or_default().push((*el, *tokens, v == 0));
                    }
                    h = (h ^ (v + 1)).wrapping_mul(1099511628211);
                }
                LEv::Prune { el } => {
                    let before = lim.state().2.len();
                    lim.prune(dur_ns(*el));
                    let after = lim.state().2.len();
                    hist.add(if after < before { "prune:removed_keys" } else { "prune:nothing_removed" });
                    h = (h ^ (17 + (before - after) as u64)).wrapping_mul(1099511628211);
                }
            }
            enc_lim_state(&mut e, &lim.state());
            steps.push(format!("({}, {})", coq_lev(ev), e.coq()));
        }
        if g.regular {
            // the number let through in any window never exceeds burst + rate * window
            let n = g.max_tokens as u128;
            let divisible = g.period % n == 0;
            for (key, arr) in &arrivals {
                for a in 0..arr.len() {
                    let mut count: u128 = 0;
                    for b in a..arr.len() {
                        if arr[b].2 {
                            count += arr[b].1 as u128;
                        }
                        let w = arr[b].0 - arr[a].0;
                        // text: burst + rate * window, rate = max_tokens / period
                        let text_bound = n + (n * w + g.period - 1) / g.period;
                        // with the code's integer token period t = period / max_tokens
                        let coded_bound = if t == 0 { u128::MAX } else { (tau as u128 + w) / t as u128 };
                        if count > coded_bound {
                            fail(&mut failures, "limiter let through more than (period + window) / token period", format!("key {} window [{}, {}]: {} tokens > {}", key, arr[a].0, arr[b].0, count, coded_bound), b);
                        }
                        if count > text_bound {
                            if divisible {
                                fail(&mut failures, "limiter let through more than burst plus rate times window", format!("key {} window [{}, {}]: {} tokens > {}", key, arr[a].0, arr[b].0, count, text_bound), b);
                            } else {
                                hist.add("observation:burst+rate*window exceeded through integer rounding of period/burst");
                            }
                        }
                    }
                }
            }
        }
    } else {
        hist.add("from_quota:rejected");
    }
    let coq = format!(
        "CLim ({}, ({}, {}), {},\n [{}])",
        id,
        g.period,
        g.max_tokens,
        if ok { 1 } else { 0 },
        steps.join(";\n  ")
    );
    let failures = failures.into_iter().map(|(s, d, i)| ("C18".to_string(), s, d, i)).collect();
    CaseResult { coq, failures, nontrivial: accepted_any && refused_any, canon: h, steps: steps.len(), hist, ambiguous: 0 }
}

// ------------------------------------------------------------------------------------------------
// part fil

#[derive(Clone, Copy, Debug, PartialEq)]
pub enum Regime {
    /// the quota does not refill within a case: period >= 60 s, burst n
    Counting(u64, u64),
    /// the bucket is full again before every call: period 200 us
    Open(u64, u64),
}
impl Regime {
    fn quota(&self) -> (u64, u64) {
        match self {
            Regime::Counting(p, n) | Regime::Open(p, n) => (*p, *n),
        }
    }
}

/// A source socket address: IP code (`ip_of`), port, flowinfo and scope id (IPv6 only).
#[derive(Clone, Copy, Debug, PartialEq, Eq)]
pub struct Src {
    pub ip: u8,
    pub port: u16,
    pub flow: u32,
    pub scope: u32,
}

/// The packet in a datagram: undecodable bytes of the given length, or a well-formed packet
/// (message / handshake from node code n, `LOCAL` = the local node's own id).
#[derive(Clone, Copy, Debug, PartialEq, Eq)]
pub enum PK {
    Garbage(u16),
    WhoAreYou,
    Message(u8),
    Handshake(u8),
}

/// node code of the local node id
pub const LOCAL: u8 = 200;

#[derive(Clone, Debug)]
pub enum FEv {
    Initial(u8),
    Final(u8, u8),
    /// one datagram through RecvHandler::handle_inbound and on to the handler: source socket
    /// address, content of expected_responses, packet kind, body length (message / handshake)
    Recv { src: Src, expected: Vec<Src>, pk: PK, body: u16 },
    Prune,
    /// the handler's unban_nodes_check (runs when a handler starts)
    UnbanCheck,
    PermitIp(u8, bool),
    PermitNode(u8, bool),
    BanIp(u8, bool, Option<u64>),
    BanNode(u8, bool, Option<u64>),
}

pub struct FilCase {
    pub enabled: bool,
    pub rate: Option<(Regime, Option<Regime>, Option<Regime>)>, // total, node, ip
    pub ban_ns: Option<u64>,
    pub max_nodes_per_ip: Option<usize>,
    pub max_bans_per_ip: Option<usize>,
    pub events: Vec<FEv>,
}

const HOUR: u64 = 3_600_000_000_000;

fn gen_regime(rng: &mut Rng, big: bool) -> Regime {
    if rng.chance(3, 4) {
        let p = *rng.pick(&[60_000_000_000u64, HOUR, 61_000_000_007]);
        Regime::Counting(p, if big { rng.range(4, 14) } else { rng.range(1, 5) })
    } else {
        Regime::Open(200_000, rng.range(1, 3))
    }
}

/// The first datagram of a receive-path case (a fresh filter: nothing is banned, every bucket is
/// full): the corners of the datagram space in turn, so that every run holds each of them.
fn opening(rng: &mut Rng, idx: u64) -> FEv {
    let i = *rng.pick(&[1u8, 2, 3, 4]);
    let node = *rng.pick(&[1u8, 2, 3, 4, 5, 6]);
    let v4 = Src { ip: i, port: 9000, flow: 0, scope: 0 };
    let (src, expected, pk, body): (Src, Vec<Src>, PK, u16) = match idx % 8 {
        // the largest legal datagram
        0 => (v4, vec![], PK::Message(node), 1280 - 71),
        // the local node's own id as source id
        1 => (v4, vec![], PK::Message(LOCAL), 24),
        6 => (v4, vec![Src { port: 9001, ..v4 }], PK::Handshake(LOCAL), 15),
        // empty body
        2 => (v4, vec![], PK::Handshake(node), 0),
        // IPv4-mapped source while something is awaited from its IPv4 twin
        3 => (Src { ip: 32 + i, ..v4 }, vec![v4], PK::Message(node), 17),
        7 => (Src { ip: 32 + i, scope: 2, ..v4 }, vec![], PK::Garbage(100), 0),
        // link-local peer: scope id set, no flowinfo; and the reverse
        4 => (Src { ip: 48 + i, scope: *rng.pick(&[1u32, 2, 7]), ..v4 }, vec![], PK::Message(node), 40),
        _ => (Src { ip: 16 + i, flow: 0x12345, ..v4 }, vec![], PK::Message(node), 16),
    };
    FEv::Recv { src, expected, pk, body }
}

fn gen_fil(rng: &mut Rng, thorough: bool, inb: bool, idx: u64) -> FilCase {
    let enabled = !rng.chance(1, 8);
    let rate = if rng.chance(1, 10) {
        None
    } else {
        Some((
            gen_regime(rng, true),
            if rng.chance(3, 4) { Some(gen_regime(rng, false)) } else { None },
            if rng.chance(3, 4) { Some(gen_regime(rng, false)) } else { None },
        ))
    };
    let ban_ns = match rng.weighted(&[5, 2, 2]) {
        0 => Some(HOUR),
        1 => Some(30_000_000_000),
        _ => None,
    };
    let max_nodes_per_ip = if rng.chance(1, 2) { Some(rng.range(2, 4) as usize) } else { None };
    let max_bans_per_ip = if rng.chance(2, 3) { Some(rng.range(1, 3) as usize) } else { None };
    let nev = if thorough { rng.range(30, 80) } else { rng.range(20, 45) } as usize;
    let mut events = vec![];
    for _ in 0..nev {
        let ip = *rng.pick(&[1u8, 1, 1, 2, 2, 3, 4]);
        let node = *rng.pick(&[1u8, 1, 2, 2, 3, 4, 5, 6]);
        let short = |rng: &mut Rng| -> Option<u64> {
            // 0.5 ms bans are over at the next event (2 ms later); the others never end within a case
            match rng.weighted(&[3, 2, 2]) {
                0 => Some(HOUR),
                1 => None,
                _ => Some(500_000),
            }
        };
        // receive-path histories: bans and permits also for the IPv6 forms of the addresses
        let ip = if inb && rng.chance(1, 3) { ip + 16 * rng.range(1, 3) as u8 } else { ip };
        let ev = match rng.weighted(&[34, 34, 5, 5, 5, 6, 6, 3]) {
            0 | 1 | 2 if inb => gen_recv(rng),
            0 => FEv::Initial(ip),
            1 => FEv::Final(ip, node),
            2 => FEv::Prune,
            7 => FEv::UnbanCheck,
            3 => FEv::PermitIp(ip, rng.chance(2, 3)),
            4 => FEv::PermitNode(node, rng.chance(2, 3)),
            5 => FEv::BanIp(ip, rng.chance(2, 3), short(rng)),
            _ => FEv::BanNode(node, rng.chance(2, 3), short(rng)),
        };
        events.push(ev);
    }
    if inb {
        let first = opening(rng, idx);
        events.insert(0, first);
    }
    FilCase { enabled, rate, ban_ns, max_nodes_per_ip, max_bans_per_ip, events }
}

/// One datagram event of the receive-path histories.
fn gen_recv(rng: &mut Rng) -> FEv {
    let i = *rng.pick(&[1u8, 1, 1, 2, 2, 3, 4]);
    // IPv4, global IPv6, IPv4-mapped IPv6, link-local IPv6
    let fam = rng.weighted(&[10, 3, 4, 3]) as u8;
    let port: u16 = if rng.chance(3, 4) { 9000 } else { 9001 };
    let (flow, scope): (u32, u32) = if fam == 0 {
        (0, 0)
    } else {
        match rng.weighted(&[8, 5, 4, 3]) {
            0 => (0, 0),
            1 => (0, *rng.pick(&[1u32, 2, 7])),
            2 => (*rng.pick(&[1u32, 0x12345]), 0),
            _ => (*rng.pick(&[1u32, 0x12345]), *rng.pick(&[1u32, 2, 7])),
        }
    };
    let src = Src { ip: fam * 16 + i, port, flow, scope };
    let norm = Src { flow: 0, scope: 0, ..src };
    // expected_responses: the source itself (solicited), and entries that must exempt nothing here
    let mut expected = vec![];
    if rng.chance(1, 8) {
        expected.push(norm);
    }
    if rng.chance(1, 4) {
        // another port of the same IP
        expected.push(Src { port: port ^ 1, ..norm });
    }
    if (fam == 0 || fam == 2) && rng.chance(1, 4) {
        // the same port of the IPv4 / IPv4-mapped twin of the address
        expected.push(Src { ip: (2 - fam) * 16 + i, ..norm });
    }
    if (flow, scope) != (0, 0) && rng.chance(1, 3) {
        // the address as it came from the socket: the lookup is made with the normalised one
        expected.push(src);
    }
    if rng.chance(1, 8) {
        // the same port of another IP
        expected.push(Src { ip: fam * 16 + (i % 4) + 1, ..norm });
    }
    let node = if rng.chance(1, 10) { LOCAL } else { *rng.pick(&[1u8, 1, 2, 2, 3, 4, 5, 6]) };
    let pk = match rng.weighted(&[10, 5, 2, 3]) {
        0 => PK::Message(node),
        1 => PK::Handshake(node),
        2 => PK::WhoAreYou,
        _ => PK::Garbage(*rng.pick(&[0u16, 20, 62, 63, 100, 700, 1280, 1400])),
    };
    let body: u16 = match rng.below(8) {
        0 => 0,
        1 => 1,
        2 => 15,
        3 => 16,
        4 => 17,
        5 => 24,
        6 => 40,
        _ => rng.range(0, 40) as u16,
    };
    // now and then a message packet that fills the datagram up to the legal maximum of 1280 bytes
    // (16 IV + 23 static header + 32 auth-data + body) or one byte less
    let body = match pk {
        PK::Message(_) if rng.chance(1, 10) => 1280 - 71 - rng.below(2) as u16,
        _ => body,
    };
    FEv::Recv { src, expected, pk, body }
}

/// IP code -> address: low 4 bits i, high bits the family: 0 = 10.0.0.i, 1 = 2001:db8::i,
/// 2 = ::ffff:10.0.0.i (IPv4-mapped), 3 = fe80::i (link-local).
fn ip_of(c: u8) -> IpAddr {
    let i = c % 16;
    match c / 16 {
        0 => IpAddr::V4(Ipv4Addr::new(10, 0, 0, i)),
        1 => IpAddr::V6(Ipv6Addr::new(0x2001, 0xdb8, 0, 0, 0, 0, 0, i as u16)),
        2 => IpAddr::V6(Ipv4Addr::new(10, 0, 0, i).to_ipv6_mapped()),
        _ => IpAddr::V6(Ipv6Addr::new(0xfe80, 0, 0, 0, 0, 0, 0, i as u16)),
    }
}
/// IP addresses as numbers: IPv4 below 2^32, the IPv6 addresses used here above (an IPv4-mapped
/// address and its IPv4 twin are different numbers).
fn ip_num(ip: &IpAddr) -> u128 {
    match ip {
        IpAddr::V4(a) => u32::from_be_bytes(a.octets()) as u128,
        IpAddr::V6(a) => {
            let n = u128::from_be_bytes(a.octets());
            assert!(n >= 1 << 32);
            n
        }
    }
}
fn sock(s: &Src) -> SocketAddr {
    match ip_of(s.ip) {
        IpAddr::V4(a) => SocketAddr::new(IpAddr::V4(a), s.port),
        IpAddr::V6(a) => SocketAddr::V6(SocketAddrV6::new(a, s.port, s.flow, s.scope)),
    }
}
/// The normalisation of source addresses documented in RecvHandler::handle_inbound: flowinfo and
/// scope id of an IPv6 source are zeroed (when either is set); nothing else is touched.
fn doc_normalise(a: SocketAddr) -> SocketAddr {
    match a {
        SocketAddr::V4(_) => a,
        SocketAddr::V6(v6) => SocketAddr::V6(SocketAddrV6::new(*v6.ip(), v6.port(), 0, 0)),
    }
}
fn enc_sock(e: &mut Enc, a: &SocketAddr) {
    let (flow, scope) = match a {
        SocketAddr::V4(_) => (0, 0),
        SocketAddr::V6(v6) => (v6.flowinfo(), v6.scope_id()),
    };
    nn(e, ip_num(&a.ip()));
    e.n(a.port() as u64).n(flow as u64).n(scope as u64);
}
fn nn(e: &mut Enc, x: u128) {
    e.0.push(x.to_string());
}
/// the key of the local node of the receive-path histories (fixed: the local id is part of a case)
fn local_key() -> CombinedKey {
    let mut b = [0x42u8; 32];
    CombinedKey::secp256k1_from_bytes(&mut b).expect("key")
}
fn local_enr(key: &CombinedKey) -> Enr {
    Enr::builder().ip4(Ipv4Addr::new(127, 0, 0, 1)).udp4(9009).build(key).unwrap()
}
fn local_id() -> NodeId {
    static ID: std::sync::OnceLock<[u8; 32]> = std::sync::OnceLock::new();
    NodeId::new(ID.get_or_init(|| local_enr(&local_key()).node_id().raw()))
}
fn node_of(i: u8) -> NodeId {
    if i == LOCAL {
        return local_id();
    }
    let mut b = [0u8; 32];
    b[0] = 0xAB;
    b[31] = i;
    NodeId::new(&b)
}
fn node_num(id: &NodeId) -> u64 {
    let r = id.raw();
    u64::from_be_bytes([r[24], r[25], r[26], r[27], r[28], r[29], r[30], r[31]])
}

fn coq_on(x: Option<u64>) -> String {
    coq_opt(x.map(|v| v.to_string()))
}

fn coq_src(s: &Src) -> String {
    format!("(SA {} {} {} {})", ip_num(&ip_of(s.ip)), s.port, s.flow, s.scope)
}

/// an event of a receive-path case
fn coq_iev(e: &FEv) -> String {
    match e {
        FEv::Recv { .. } => coq_fev(e),
        _ => format!("IFil ({})", coq_fev(e)),
    }
}

/// an event for the replay file: the Coq term plus what the term abstracts from
fn replay_fev(e: &FEv) -> String {
    match e {
        FEv::Recv { src, expected, pk, body } => format!(
            "{}  (* source {}, expected_responses {:?}, {:?}, body of {} bytes *)",
            coq_fev(e),
            sock(src),
            expected.iter().map(sock).collect::<Vec<_>>(),
            pk,
            match pk {
                PK::Message(_) | PK::Handshake(_) => *body,
                _ => 0,
            }
        ),
        _ => coq_fev(e),
    }
}

fn coq_fev(e: &FEv) -> String {
    match e {
        FEv::Initial(ip) => format!("FInitial {}", ip_num(&ip_of(*ip))),
        FEv::Final(ip, n) => format!("FFinal {} {}", ip_num(&ip_of(*ip)), node_num(&node_of(*n))),
        FEv::Recv { src, expected, pk, .. } => format!(
            "IRecv [{}] {} {}",
            expected.iter().map(coq_src).collect::<Vec<_>>().join("; "),
            coq_src(src),
            match pk {
                PK::Garbage(_) => "None".to_string(),
                PK::WhoAreYou => "(Some PWhoAreYou)".to_string(),
                PK::Message(n) => format!("(Some (PMessage {}))", node_num(&node_of(*n))),
                PK::Handshake(n) => format!("(Some (PHandshake {}))", node_num(&node_of(*n))),
            }
        ),
        FEv::Prune => "FPruneLimiter".into(),
        FEv::UnbanCheck => "FUnbanCheck".into(),
        FEv::PermitIp(ip, add) => format!("FPermitIp {} {}", ip_num(&ip_of(*ip)), coq_bool(*add)),
        FEv::PermitNode(n, add) => format!("FPermitNode {} {}", node_num(&node_of(*n)), coq_bool(*add)),
        FEv::BanIp(ip, add, d) => format!("FBanIp {} {} {}", ip_num(&ip_of(*ip)), coq_bool(*add), coq_on(*d)),
        FEv::BanNode(n, add, d) => format!("FBanNode {} {} {}", node_num(&node_of(*n)), coq_bool(*add), coq_on(*d)),
    }
}

fn build_rate(r: &(Regime, Option<Regime>, Option<Regime>)) -> discv5::RateLimiter {
    let mut b = RateLimiterBuilder::new();
    let (p, n) = r.0.quota();
    b = b.total_n_every(n, Duration::from_nanos(p));
    if let Some(q) = r.1 {
        let (p, n) = q.quota();
        b = b.node_n_every(n, Duration::from_nanos(p));
    }
    if let Some(q) = r.2 {
        let (p, n) = q.quota();
        b = b.ip_n_every(n, Duration::from_nanos(p));
    }
    b.build().expect("rate limiter")
}

fn enc_bans<K: Clone>(e: &mut Enc, m: &std::collections::HashMap<K, Option<Instant>>, num: impl Fn(&K) -> u128) {
    let mut v: Vec<(u128, u64)> = m.iter().map(|(k, t)| (num(k), t.is_some() as u64)).collect();
    v.sort();
    e.n(v.len() as u64);
    for (k, f) in v {
        nn(e, k);
        e.n(f);
    }
}

fn enc_pbl(e: &mut Enc, p: &PermitBanList) {
    let mut v: Vec<u128> = p.permit_ips.iter().map(ip_num).collect();
    v.sort();
    e.n(v.len() as u64);
    for x in v {
        nn(e, x);
    }
    enc_bans(e, &p.ban_ips, ip_num);
    let mut v: Vec<u64> = p.permit_nodes.iter().map(node_num).collect();
    v.sort();
    e.n(v.len() as u64);
    for x in v {
        e.n(x);
    }
    enc_bans(e, &p.ban_nodes, |n| node_num(n) as u128);
}

fn enc_filter(e: &mut Enc, f: &FilterFacade) {
    let d = f.dump();
    e.n(d.known_addrs.len() as u64);
    for (ip, ids) in &d.known_addrs {
        let mut v: Vec<u64> = ids.iter().map(node_num).collect();
        v.sort();
        nn(e, ip_num(ip));
        e.n(v.len() as u64);
        for x in v {
            e.n(x);
        }
    }
    e.n(d.banned_nodes.len() as u64);
    for (ip, c) in &d.banned_nodes {
        nn(e, ip_num(ip));
        e.n(*c as u64);
    }
    match d.init_time {
        None => {
            e.n(0);
        }
        Some(_) => {
            e.n(1).n(d.total.len() as u64);
            match &d.node {
                Some(l) => {
                    let mut v: Vec<u64> = l.iter().map(|(k, _)| node_num(k)).collect();
                    v.sort();
                    e.n(1).n(v.len() as u64);
                    for x in v {
                        e.n(x);
                    }
                }
                None => {
                    e.n(0);
                }
            }
            match &d.ip {
                Some(l) => {
                    let mut v: Vec<u128> = l.iter().map(|(k, _)| ip_num(k)).collect();
                    v.sort();
                    e.n(1).n(v.len() as u64);
                    for x in v {
                        nn(e, x);
                    }
                }
                None => {
                    e.n(0);
                }
            }
        }
    }
}

/// quota bookkeeping of the monitor for the time-robust regimes
struct Quota {
    regime: Option<Regime>,
    used: BTreeMap<u128, u64>,
}
impl Quota {
    /// would one more datagram for `key` stay within the quota? (counts it if so)
    fn take(&mut self, key: u128) -> bool {
        match self.regime {
            None | Some(Regime::Open(..)) => true,
            Some(Regime::Counting(_, n)) => {
                let u = self.used.entry(key).or_insert(0);
                if *u < n {
                    *u += 1;
                    true
                } else {
                    false
                }
            }
        }
    }
    /// the same when the bookkeeping may have lost track of the implementation (after a monitor
    /// failure earlier in the case): None = no statement
    fn take_opt(&mut self, key: u128, lost: bool) -> Option<bool> {
        match self.regime {
            None | Some(Regime::Open(..)) => Some(true),
            Some(Regime::Counting(..)) if lost => None,
            Some(Regime::Counting(..)) => Some(self.take(key)),
        }
    }
}

/// monitor failures of one case: (property, what, detail, step); one entry per property and text
#[derive(Default)]
struct Fails {
    seen: BTreeSet<String>,
    list: Vec<(String, String, String, usize)>,
}
impl Fails {
    fn add(&mut self, props: &[&str], what: &str, detail: String, step: usize) {
        for p in props {
            if self.seen.insert(format!("{}:{}", p, what)) {
                self.list.push((p.to_string(), what.to_string(), detail.clone(), step));
            }
        }
    }
}

/// What the reference of the receive-path monitor expects of one filter stage.
#[derive(Clone, Copy, PartialEq, Debug)]
enum Exp {
    Pass,
    /// the stage must drop the datagram; the text of the failure if it does not
    Drop(&'static str),
    Unknown,
}

/// The datagram of a receive-path event, built with the crate's own `Packet::encode`.
fn build_datagram(pk: &PK, body: u16, step: usize, local: &NodeId, pid: discv5::ProtocolIdentity) -> Vec<u8> {
    let t = step as u8;
    let wire = |kind: PacketKind, message: Vec<u8>| {
        wire_encode(&WirePacket { iv: 0x1000 + step as u128, nonce: [t; 12], kind, message }, pid, local)
    };
    match pk {
        PK::Garbage(n) => (0..*n as usize).map(|j| (j as u8).wrapping_mul(31).wrapping_add(t)).collect(),
        PK::WhoAreYou => wire(PacketKind::WhoAreYou { id_nonce: [t ^ 0x55; 16], enr_seq: 1 }, vec![]),
        PK::Message(n) => wire(PacketKind::Message { src_id: node_of(*n) }, vec![0x5a; body as usize]),
        PK::Handshake(n) => wire(
            PacketKind::Handshake { src_id: node_of(*n), id_nonce_sig: vec![0x11; 64], ephem_pubkey: vec![0x22; 33], enr_record: None },
            vec![0xa5; body as usize],
        ),
    }
}

/// One datagram through the real receive task and on to the real handler.  Returns the fate
/// (0 dropped, 1 unrecognized frame, 3 delivered) and the source address the handler got, where it
/// shows it: a message packet without a session makes it ask the application for the sender's
/// record (`HandlerOut::WhoAreYou`, carrying the node address); an unrecognized frame is reported.
async fn recv_one(vh: &mut VirtualHandler, src: SocketAddr, data: &[u8], reaction_expected: bool) -> (u64, Option<SocketAddr>) {
    while vh.from_handler.try_recv().is_ok() {}
    while vh.next_datagram().is_some() {}
    let n = vh.inject(src, data).await;
    if n == 0 {
        return (0, None);
    }
    for round in 0..100 {
        for _ in 0..20 {
            tokio::task::yield_now().await;
            match vh.from_handler.try_recv() {
                Ok(HandlerOut::WhoAreYou(r)) => return (3, Some(r.0.socket_addr)),
                Ok(HandlerOut::UnrecognizedFrame(f)) => return (1, Some(f.src_address)),
                _ => {}
            }
        }
        if !reaction_expected && round >= 1 {
            break;
        }
        tokio::time::sleep(Duration::from_millis(1)).await;
    }
    (3, None)
}

fn run_fil(id: u64, g: &FilCase, api: &Discv5, inb: bool, rt: &tokio::runtime::Runtime) -> CaseResult {
    let mut hist = Hist::default();
    let mut fl = Fails::default();
    permit_ban_reset(PermitBanList::default());
    let base = Instant::now();
    let ns = |t: Instant| t.duration_since(base).as_nanos() as u64;
    let rate = g.rate.as_ref().map(build_rate);
    let init = rate.as_ref().map(|r| ns(r.verif_init_time()));
    let local = local_id();
    let pid = discv5::ProtocolIdentity::default();
    // the filter alone, or the filter inside the receive task (RecvHandler::handle_inbound) in front
    // of a handler; the handler's own unban_nodes_check runs once when it starts (empty lists)
    let (mut f, mut recv): (Option<FilterFacade>, Option<VirtualHandler>) = if inb {
        let mut config = ConfigBuilder::new(ListenConfig::default()).build();
        config.enable_packet_filter = g.enabled;
        config.filter_rate_limiter = rate;
        config.filter_max_nodes_per_ip = g.max_nodes_per_ip;
        config.filter_max_bans_per_ip = g.max_bans_per_ip;
        config.ban_duration = g.ban_ns.map(Duration::from_nanos);
        let vh = rt.block_on(async {
            let key = local_key();
            let enr = local_enr(&key);
            let vh = VirtualHandler::spawn(
                std::sync::Arc::new(parking_lot::RwLock::new(enr)),
                std::sync::Arc::new(parking_lot::RwLock::new(key)),
                config,
                vec![SocketAddr::new(IpAddr::V4(Ipv4Addr::new(127, 0, 0, 1)), 9009)],
            )
            .await
            .expect("virtual handler");
            tokio::time::sleep(Duration::from_millis(3)).await;
            vh
        });
        assert_eq!(vh.local_id(), local);
        (None, Some(vh))
    } else {
        let config = FilterConfig { enabled: g.enabled, rate_limiter: rate, max_nodes_per_ip: g.max_nodes_per_ip, max_bans_per_ip: g.max_bans_per_ip };
        (Some(FilterFacade::new(config, g.ban_ns.map(Duration::from_nanos))), None)
    };
    // the monitor's quota bookkeeping has lost track of the implementation (after a failure)
    let mut lost = false;
    hist.add(if g.enabled { "filter:enabled" } else { "filter:disabled" });
    match &g.rate {
        None => hist.add("rate_limiter:none"),
        Some(r) => {
            for (name, q) in [("total", Some(r.0)), ("node", r.1), ("ip", r.2)] {
                hist.add(&format!(
                    "quota:{}:{}",
                    name,
                    match q {
                        None => "none".to_string(),
                        Some(Regime::Counting(_, n)) => format!("burst {} (no refill within the case)", n.min(9)),
                        Some(Regime::Open(_, _)) => "refilled before every call".to_string(),
                    }
                ));
            }
        }
    }
    let mut q_total = Quota { regime: g.rate.as_ref().map(|r| r.0), used: BTreeMap::new() };
    let mut q_node = Quota { regime: g.rate.as_ref().and_then(|r| r.1), used: BTreeMap::new() };
    let mut q_ip = Quota { regime: g.rate.as_ref().and_then(|r| r.2), used: BTreeMap::new() };
    let limited = g.enabled && g.rate.is_some();
    let mut steps = vec![];
    let mut h: u64 = 1469598103934665603;
    let (mut saw_pass, mut saw_limit_drop, mut saw_ban_drop, mut saw_permit) = (false, false, false, false);
    for (i, ev) in g.events.iter().enumerate() {
        // every bucket of the "open" regime is full again after 2 ms
        std::thread::sleep(Duration::from_millis(2));
        let before = permit_ban_snapshot();
        let lo_i = Instant::now();
        let mut out = Enc::new();
        let mut fwd: Option<SocketAddr> = None;
        let r = catch(std::panic::AssertUnwindSafe(|| match ev {
            FEv::Initial(ip) => Some(f.as_mut().unwrap().initial_pass(&SocketAddr::new(ip_of(*ip), 9000)) as u64),
            FEv::Final(ip, n) => {
                Some(f.as_mut().unwrap().final_pass(&NodeAddress { socket_addr: SocketAddr::new(ip_of(*ip), 9000), node_id: node_of(*n) }) as u64)
            }
            FEv::Recv { src, expected, pk, body } => {
                let vh = recv.as_mut().unwrap();
                {
                    let mut m = vh.exemptions.write();
                    m.clear();
                    for e in expected {
                        *m.entry(sock(e)).or_insert(0) += 1;
                    }
                }
                let data = build_datagram(pk, *body, i, &local, pid);
                let reaction = matches!(pk, PK::Message(_) | PK::Garbage(_));
                let (fate, seen_src) = rt.block_on(recv_one(vh, sock(src), &data, reaction));
                vh.exemptions.write().clear();
                fwd = seen_src;
                Some(fate)
            }
            FEv::Prune => {
                f.as_mut().unwrap().prune_limiter();
                None
            }
            FEv::UnbanCheck => {
                // a starting handler runs unban_nodes_check at once (first tick of its interval)
                rt.block_on(async {
                    let key = CombinedKey::generate_secp256k1();
                    let enr = Enr::builder().ip4(Ipv4Addr::new(127, 0, 0, 1)).udp4(9009).build(&key).unwrap();
                    let config = ConfigBuilder::new(ListenConfig::default()).build();
                    let mut vh = VirtualHandler::spawn(
                        std::sync::Arc::new(parking_lot::RwLock::new(enr)),
                        std::sync::Arc::new(parking_lot::RwLock::new(key)),
                        config,
                        vec![SocketAddr::new(IpAddr::V4(Ipv4Addr::new(127, 0, 0, 1)), 9009)],
                    )
                    .await
                    .expect("virtual handler");
                    tokio::time::sleep(Duration::from_millis(3)).await;
                    vh.shutdown();
                    tokio::task::yield_now().await;
                });
                None
            }
            FEv::PermitIp(ip, add) => {
                if *add {
                    api.permit_ip(ip_of(*ip))
                } else {
                    api.permit_ip_remove(&ip_of(*ip))
                }
                None
            }
            FEv::PermitNode(n, add) => {
                if *add {
                    api.permit_node(&node_of(*n))
                } else {
                    api.permit_node_remove(&node_of(*n))
                }
                None
            }
            FEv::BanIp(ip, add, d) => {
                if *add {
                    api.ban_ip(ip_of(*ip), d.map(Duration::from_nanos))
                } else {
                    api.ban_ip_remove(&ip_of(*ip))
                }
                None
            }
            FEv::BanNode(n, add, d) => {
                if *add {
                    api.ban_node(&node_of(*n), d.map(Duration::from_nanos))
                } else {
                    api.ban_node_remove(&node_of(*n))
                }
                None
            }
        }));
        let hi_i = Instant::now();
        let decision = match r {
            Ok(d) => d,
            Err(m) => {
                fl.add(&["C18"], "panic in the packet filter", m, i);
                break;
            }
        };
        let after = permit_ban_snapshot();
        let (lo, hi) = (ns(lo_i), ns(hi_i));
        if let Some(d) = decision {
            out.n(d);
        }
        if let FEv::Recv { .. } = ev {
            match &fwd {
                Some(a) => {
                    out.n(1);
                    enc_sock(&mut out, a);
                }
                None => {
                    out.n(0);
                }
            }
        }
        enc_pbl(&mut out, &after);
        if let Some(f) = f.as_ref() {
            enc_filter(&mut out, f);
        }
        steps.push(format!("({}, {}, {}, {})", if inb { coq_iev(ev) } else { coq_fev(ev) }, lo, hi, out.coq()));
        hist.add(match ev {
            FEv::Initial(_) => "op:initial_pass",
            FEv::Final(..) => "op:final_pass",
            FEv::Prune => "op:prune_limiter",
            FEv::Recv { pk: PK::Garbage(_), .. } => "op:handle_inbound (undecodable)",
            FEv::Recv { pk: PK::WhoAreYou, .. } => "op:handle_inbound (WHOAREYOU)",
            FEv::Recv { pk: PK::Message(_), .. } => "op:handle_inbound (message)",
            FEv::Recv { pk: PK::Handshake(_), .. } => "op:handle_inbound (handshake)",
            FEv::UnbanCheck => "op:unban_nodes_check",
            FEv::PermitIp(..) | FEv::PermitNode(..) => "op:permit/unpermit",
            FEv::BanIp(..) | FEv::BanNode(..) => "op:ban/unban",
        });

        // ---- direct monitor, from the property text
        let within = |t: &Option<Instant>| -> bool {
            // a new ban must last at least the configured duration
            match (g.ban_ns, t) {
                (None, None) => true,
                (Some(d), Some(t)) => ns(*t) >= lo + d && ns(*t) <= hi + d,
                _ => false,
            }
        };
        match ev {
            FEv::Initial(ipi) => {
                let ip = ip_of(*ipi);
                let d = decision.unwrap() != 0;
                if before.permit_ips.contains(&ip) {
                    saw_permit = true;
                    hist.add("initial_pass:permit-listed");
                    if !d {
                        fl.add(&["C18"], "datagram from a permit-listed IP was dropped at the IP stage", format!("{:?}", ev), i);
                    }
                } else if before.ban_ips.contains_key(&ip) {
                    saw_ban_drop = true;
                    hist.add("initial_pass:banned");
                    if d {
                        fl.add(&["C18", "C11"], "datagram from a banned IP was let through", format!("{:?}", ev), i);
                    }
                } else if !limited {
                    if !d {
                        fl.add(&["C18"], "datagram was refused although no quota applies", format!("{:?}", ev), i);
                    }
                } else {
                    let ip_ok = q_ip.take(ip_num(&ip));
                    if !ip_ok {
                        saw_limit_drop = true;
                        hist.add("initial_pass:over the per-IP quota");
                        if d {
                            fl.add(&["C18"], "more datagrams than the burst were let through for one IP", format!("{:?}", ev), i);
                        }
                        match after.ban_ips.get(&ip) {
                            Some(t) if within(t) => {}
                            x => fl.add(&["C18"], "sender over its per-IP quota is not banned for the configured duration", format!("{:?}: ban entry {:?}, call in [{}, {}] ns", ev, x.map(|t| t.map(ns)), lo, hi), i),
                        }
                    } else {
                        let tot_ok = q_total.take(0);
                        if tot_ok {
                            hist.add("initial_pass:within every quota");
                            if !d {
                                fl.add(&["C18"], "datagram within every applicable quota was refused", format!("{:?}", ev), i);
                            }
                        } else {
                            saw_limit_drop = true;
                            hist.add("initial_pass:over the total quota");
                            if d {
                                fl.add(&["C18"], "more datagrams than the total burst were let through", format!("{:?}", ev), i);
                            }
                            if after.ban_ips.contains_key(&ip) {
                                fl.add(&["C18"], "sender was banned although only the total quota was exceeded", format!("{:?}", ev), i);
                            }
                        }
                    }
                }
                saw_pass |= d;
                h = (h ^ (2 + d as u64)).wrapping_mul(1099511628211);
            }
            FEv::Final(ipi, ni) => {
                let ip = ip_of(*ipi);
                let node = node_of(*ni);
                let d = decision.unwrap() != 0;
                if before.permit_nodes.contains(&node) {
                    saw_permit = true;
                    hist.add("final_pass:permit-listed");
                    if !d {
                        fl.add(&["C18"], "datagram from a permit-listed node id was dropped at the node stage", format!("{:?}", ev), i);
                    }
                } else if before.ban_nodes.contains_key(&node) {
                    saw_ban_drop = true;
                    hist.add("final_pass:banned");
                    if d {
                        fl.add(&["C18", "C11"], "datagram from a banned node id was let through", format!("{:?}", ev), i);
                    }
                } else if !g.enabled {
                    if !d {
                        fl.add(&["C18"], "datagram was refused although the filter is disabled", format!("{:?}", ev), i);
                    }
                } else {
                    let node_ok = if g.rate.is_some() { q_node.take(node_num(&node) as u128) } else { true };
                    if !node_ok {
                        saw_limit_drop = true;
                        hist.add("final_pass:over the per-node quota");
                        if d {
                            fl.add(&["C18"], "more datagrams than the burst were let through for one node id", format!("{:?}", ev), i);
                        }
                        match after.ban_nodes.get(&node) {
                            Some(t) if within(t) => {}
                            x => fl.add(&["C18"], "sender over its per-node quota is not banned for the configured duration", format!("{:?}: ban entry {:?}", ev, x.map(|t| t.map(ns))), i),
                        }
                        if after.ban_ips.len() > before.ban_ips.len() {
                            hist.add("final_pass:IP banned for too many banned nodes");
                        }
                    } else if g.max_nodes_per_ip.is_none() {
                        hist.add("final_pass:within every quota");
                        if !d {
                            fl.add(&["C18"], "datagram within every applicable quota was refused", format!("{:?}", ev), i);
                        }
                    } else if !d {
                        // only the nodes-per-IP rule can explain this
                        hist.add("final_pass:nodes-per-IP rule");
                        if !after.ban_ips.contains_key(&ip) {
                            fl.add(&["C18"], "datagram within every applicable quota was refused", format!("{:?} (nodes-per-IP rule did not ban the IP either)", ev), i);
                        }
                    } else {
                        hist.add("final_pass:within every quota");
                    }
                }
                saw_pass |= d;
                h = (h ^ (4 + d as u64)).wrapping_mul(1099511628211);
            }
            FEv::Recv { src, expected, pk, body } => {
                let raw = sock(src);
                let ip = raw.ip();
                let norm = doc_normalise(raw);
                let fate = decision.unwrap();
                let dropped = fate == 0;
                // solicited: something is awaited from exactly this socket address
                let exempt = expected.iter().any(|e| sock(e) == norm);
                // entries for other socket addresses of the same host: another port, the IPv4 /
                // IPv4-mapped twin, the address with its scope id
                let twin = |a: &IpAddr, b: &IpAddr| match (a, b) {
                    (IpAddr::V4(x), IpAddr::V6(y)) | (IpAddr::V6(y), IpAddr::V4(x)) => x.to_ipv6_mapped() == *y,
                    _ => false,
                };
                let related = expected.iter().any(|e| {
                    let a = sock(e);
                    a != norm && (a.ip() == ip || twin(&a.ip(), &ip))
                });
                let node = match pk {
                    PK::Message(n) | PK::Handshake(n) => Some(node_of(*n)),
                    _ => None,
                };
                let well_formed = !matches!(pk, PK::Garbage(_));
                let is_local = matches!(pk, PK::Message(LOCAL) | PK::Handshake(LOCAL));
                let short_body = node.is_some() && *body < 16;
                let full_size = matches!(pk, PK::Message(_)) && *body >= 1208;
                if full_size {
                    hist.add(&format!("recv:message packet in a datagram of {} bytes", 71 + *body));
                }
                hist.add(match src.ip / 16 {
                    0 => "recv:source:IPv4",
                    1 => "recv:source:IPv6",
                    2 => "recv:source:IPv4-mapped IPv6",
                    _ => "recv:source:IPv6 link-local",
                });
                if src.ip / 16 != 0 {
                    hist.add(match (src.flow != 0, src.scope != 0) {
                        (false, false) => "recv:source:v6 plain",
                        (false, true) => "recv:source:v6 scope id only",
                        (true, false) => "recv:source:v6 flowinfo only",
                        (true, true) => "recv:source:v6 flowinfo and scope id",
                    });
                }
                if is_local {
                    hist.add("recv:src-id is the local node id");
                }
                if short_body {
                    hist.add("recv:body shorter than 16 bytes");
                }
                if related {
                    hist.add("recv:something awaited from another socket address of the host");
                }
                let detail = format!(
                    "datagram {} from {} ({:?}, body {} bytes) with expected_responses {:?}: {}, handler saw source {:?}",
                    i,
                    raw,
                    pk,
                    if node.is_some() { *body } else { 0 },
                    expected.iter().map(sock).collect::<Vec<_>>(),
                    match fate {
                        0 => "dropped",
                        1 => "unrecognized frame",
                        _ => "delivered",
                    },
                    fwd
                );

                // ---- the source address that reaches the handler (C03 / C12 / C14 / C02: challenges,
                // sessions, admission and PONGs are all keyed by / filled with this address; C04: an
                // answer is matched by comparing it with the address in the peer's record)
                match fwd {
                    Some(fw) => {
                        hist.add("recv:forwarded source observed");
                        if fw.ip() != raw.ip() || fw.port() != raw.port() {
                            fl.add(
                                &["C03", "C12", "C14", "C02"],
                                "the source address handed to the handler is not the address the datagram came from",
                                detail.clone(),
                                i,
                            );
                        } else if fw != norm {
                            fl.add(
                                &["C04"],
                                "flowinfo and scope id of an IPv6 source were not both zeroed before the address was handed to the handler (it never equals the address in the peer's record)",
                                detail.clone(),
                                i,
                            );
                        }
                    }
                    None if !dropped && matches!(pk, PK::Message(_) | PK::Garbage(_)) => hist.add("recv:forwarded source NOT observed (no reaction of the handler)"),
                    None => {}
                }

                // ---- the fate of the datagram
                let lists_changed = after.ban_ips.len() != before.ban_ips.len() || after.ban_nodes.len() != before.ban_nodes.len();
                let mut failed = false;
                if exempt {
                    saw_permit = true;
                    hist.add("inbound:exempt");
                    if dropped {
                        failed = true;
                        fl.add(&["C18", "C13"], "solicited datagram was dropped by the filter", detail.clone(), i);
                        if well_formed {
                            fl.add(&["C05"], "a well-formed packet from an address an answer is awaited from was not delivered to the handler", detail.clone(), i);
                        }
                    }
                    if lists_changed {
                        failed = true;
                        fl.add(&["C18", "C13"], "solicited datagram changed the ban lists", detail.clone(), i);
                    }
                } else {
                    // reference, stage 1: permit list, ban list, per-IP quota, total quota
                    let mut ip_ban_due = false;
                    let s1 = if before.permit_ips.contains(&ip) {
                        Exp::Pass
                    } else if before.ban_ips.contains_key(&ip) {
                        Exp::Drop("datagram from a banned IP was let through")
                    } else if !limited {
                        Exp::Pass
                    } else {
                        match q_ip.take_opt(ip_num(&ip), lost) {
                            None => Exp::Unknown,
                            Some(false) => {
                                ip_ban_due = true;
                                Exp::Drop("more datagrams than the burst were let through for one IP")
                            }
                            Some(true) => match q_total.take_opt(0, lost) {
                                None => Exp::Unknown,
                                Some(false) => Exp::Drop("more datagrams than the total burst were let through"),
                                Some(true) => Exp::Pass,
                            },
                        }
                    };
                    // stage 2 (packets that carry a source id: message and handshake packets alike):
                    // permit list, ban list, per-node quota
                    let mut node_ban_due = false;
                    let s2 = match (&s1, &node) {
                        (Exp::Drop(_), _) | (_, None) => Exp::Pass,
                        (_, Some(n)) => {
                            if before.permit_nodes.contains(n) {
                                Exp::Pass
                            } else if before.ban_nodes.contains_key(n) {
                                Exp::Drop("datagram from a banned node id was let through")
                            } else if !g.enabled || g.rate.is_none() {
                                Exp::Pass
                            } else if s1 == Exp::Unknown {
                                Exp::Unknown
                            } else {
                                match q_node.take_opt(node_num(n) as u128, lost) {
                                    None => Exp::Unknown,
                                    Some(false) => {
                                        node_ban_due = true;
                                        Exp::Drop("more datagrams than the burst were let through for one node id")
                                    }
                                    Some(true) => Exp::Pass,
                                }
                            }
                        }
                    };
                    match (s1, s2) {
                        (Exp::Drop(text), _) | (_, Exp::Drop(text)) => {
                            let at_ip_stage = matches!(s1, Exp::Drop(_));
                            saw_ban_drop |= text.contains("banned");
                            saw_limit_drop |= !text.contains("banned");
                            hist.add(&format!("inbound:must be dropped ({})", text.replace(" was let through", "").replace(" were let through", "")));
                            if !dropped {
                                failed = true;
                                fl.add(&["C18"], text, detail.clone(), i);
                                // nothing is awaited from this socket address, yet it was treated like
                                // an address that is exempt (the handshake kind alone is no excuse:
                                // C18 covers that)
                                if related && (at_ip_stage || matches!(pk, PK::Message(_))) {
                                    fl.add(
                                        &["C13"],
                                        "a datagram from a socket address nothing is awaited from bypassed the filter while something was awaited from another address of that host",
                                        detail.clone(),
                                        i,
                                    );
                                }
                            } else if ip_ban_due && at_ip_stage {
                                match after.ban_ips.get(&ip) {
                                    Some(t) if within(t) => {}
                                    x => fl.add(&["C18"], "sender over its per-IP quota is not banned for the configured duration", format!("{}: ban entry {:?}, call in [{}, {}] ns", detail, x.map(|t| t.map(ns)), lo, hi), i),
                                }
                            } else if node_ban_due && !at_ip_stage {
                                match node.as_ref().and_then(|n| after.ban_nodes.get(n)) {
                                    Some(t) if within(t) => {}
                                    x => fl.add(&["C18"], "sender over its per-node quota is not banned for the configured duration", format!("{}: ban entry {:?}", detail, x.map(|t| t.map(ns))), i),
                                }
                            }
                        }
                        (Exp::Pass, Exp::Pass) => {
                            let ip_listed = before.permit_ips.contains(&ip);
                            let node_listed = node.as_ref().map(|n| before.permit_nodes.contains(n)).unwrap_or(true);
                            if ip_listed && node_listed {
                                saw_permit = true;
                                hist.add("inbound:permit-listed");
                            }
                            // the nodes-per-IP rule (not a quota of the property) may still ban the IP (a
                            // permit-listed IP that is banned as well gets here, and is banned again)
                            let nodes_per_ip_rule = node.is_some() && !node_listed && g.enabled && g.max_nodes_per_ip.is_some() && after.ban_ips.contains_key(&ip);
                            if dropped && nodes_per_ip_rule {
                                hist.add("inbound:nodes-per-IP rule");
                            } else if dropped {
                                failed = true;
                                let text = match (ip_listed, node.is_some(), node_listed) {
                                    (true, true, true) => "datagram from a permit-listed IP and node id was dropped",
                                    (true, false, _) => "datagram from a permit-listed IP was dropped at the IP stage",
                                    _ => "datagram within every applicable quota was refused",
                                };
                                fl.add(&["C18"], text, detail.clone(), i);
                                if well_formed {
                                    fl.add(
                                        &["C05"],
                                        "a well-formed packet addressed to this node, from a source that is neither banned nor over a quota, was not delivered to the handler",
                                        detail.clone(),
                                        i,
                                    );
                                }
                            } else {
                                hist.add("inbound:within every quota");
                                if is_local {
                                    hist.add("recv:packet with the local id as source id passed");
                                }
                                if short_body {
                                    hist.add("recv:packet with a body shorter than 16 bytes passed");
                                }
                            }
                        }
                        _ => hist.add("inbound:no statement (bookkeeping lost after a failure)"),
                    }
                }
                // decoding: a well-formed datagram of legal size is a packet, other bytes are not
                if !dropped {
                    if well_formed && fate != 3 {
                        failed = true;
                        fl.add(&["C05"], "a well-formed datagram addressed to this node was not decoded (reported as an unrecognized frame)", detail.clone(), i);
                        if full_size {
                            // requests up to the datagram limit are served (C14 quantifies over request
                            // sizes up to the limit): this one never reaches the handler
                            fl.add(&["C14"], "a message packet in a datagram of legal size (at most 1280 bytes) was not decoded: a request of that size is never answered", detail.clone(), i);
                        }
                    }
                    if !well_formed && fate == 3 {
                        failed = true;
                        fl.add(&["C05"], "an undecodable datagram was delivered as a packet", detail.clone(), i);
                    }
                }
                if failed {
                    lost = true;
                }
                if dropped {
                    saw_limit_drop = true;
                } else {
                    saw_pass = true;
                }
                hist.add(match fate {
                    0 => "inbound:dropped",
                    1 => "inbound:unrecognized frame",
                    _ => "inbound:delivered",
                });
                h = (h ^ (8 + fate)).wrapping_mul(1099511628211);
            }
            FEv::UnbanCheck => {
                // a ban must not be lifted before its expiry (and permanent bans never)
                for (ip, t) in &before.ban_ips {
                    let keep = match t {
                        None => true,
                        Some(t) => ns(*t) > hi,
                    };
                    if keep && !after.ban_ips.contains_key(ip) {
                        fl.add(&["C18", "C11"], "ban was lifted before its expiry", format!("ip {:?} until {:?}, check not after {}", ip, t.map(ns), hi), i);
                    }
                }
                for (n, t) in &before.ban_nodes {
                    let keep = match t {
                        None => true,
                        Some(t) => ns(*t) > hi,
                    };
                    if keep && !after.ban_nodes.contains_key(n) {
                        fl.add(&["C18", "C11"], "ban was lifted before its expiry", format!("node {} until {:?}", node_num(n), t.map(ns)), i);
                    }
                }
                let lifted = before.ban_ips.len() + before.ban_nodes.len() - after.ban_ips.len() - after.ban_nodes.len();
                hist.add(if lifted > 0 { "unban_nodes_check:lifted expired bans" } else { "unban_nodes_check:nothing to lift" });
                h = (h ^ (16 + lifted as u64)).wrapping_mul(1099511628211);
            }
            FEv::Prune => {
                h = (h ^ 6).wrapping_mul(1099511628211);
            }
            _ => {
                h = (h ^ 7).wrapping_mul(1099511628211);
            }
        }
    }
    let q = |x: &Option<Regime>| match x {
        Some(r) => {
            let (p, n) = r.quota();
            format!("(Some ({}, {}))", p, n)
        }
        None => "None".to_string(),
    };
    let rate = match (&g.rate, init) {
        (Some(r), Some(init)) => {
            let (p, n) = r.0.quota();
            format!("(Some ({}, ({}, {}), {}, {}))", init, p, n, q(&r.1), q(&r.2))
        }
        _ => "None".to_string(),
    };
    let coq = format!(
        "{} ({}, {}, {}, {}, {}, {},\n [{}])",
        if inb { "CRcv" } else { "CFil" },
        id,
        coq_bool(g.enabled),
        rate,
        coq_on(g.ban_ns),
        coq_on(g.max_nodes_per_ip.map(|x| x as u64)),
        coq_on(g.max_bans_per_ip.map(|x| x as u64)),
        steps.join(";\n  ")
    );
    if let Some(vh) = recv.as_mut() {
        vh.shutdown();
        rt.block_on(async { tokio::task::yield_now().await });
    }
    CaseResult {
        coq,
        failures: fl.list,
        nontrivial: saw_pass && (saw_limit_drop || saw_ban_drop) && (saw_permit || saw_ban_drop),
        canon: h,
        steps: steps.len(),
        hist,
        ambiguous: 0,
    }
}

pub fn case_rng(seed: u64, idx: u64, part: &str) -> Rng {
    Rng::new(
        seed.wrapping_mul(0x9E3779B97F4A7C15)
            .wrapping_add(idx.wrapping_mul(0xD1B54A32D192ED03))
            .wrapping_add(match part {
                "lim" => 1801,
                "fil" => 1802,
                _ => 1803,
            }),
    )
}

fn api_instance() -> Discv5 {
    let key = CombinedKey::generate_secp256k1();
    let enr = Enr::builder().ip4(Ipv4Addr::new(127, 0, 0, 1)).udp4(9000).build(&key).unwrap();
    let config = ConfigBuilder::new(ListenConfig::default()).build();
    Discv5::new(enr, key, config).expect("discv5")
}

pub fn main(args: &[String]) {
    let o = parse_opts(args);
    let mut only: Option<u64> = None;
    let mut part = "lim".to_string();
    // property in focus: only its monitor failures are reported (the others are counted)
    let mut focus: Option<String> = None;
    let mut i = 0;
    while i < o.rest.len() {
        match o.rest[i].as_str() {
            "--only" => {
                only = Some(o.rest[i + 1].parse().unwrap());
                i += 1;
            }
            "--part" => {
                part = o.rest[i + 1].clone();
                i += 1;
            }
            "--focus" => {
                focus = Some(o.rest[i + 1].to_uppercase());
                i += 1;
            }
            _ => {}
        }
        i += 1;
    }
    let mut sum = Summary::new(&format!("limiter/{}{}", part, focus.as_ref().map(|f| format!("/{}", f)).unwrap_or_default()));
    let per_file = if part == "lim" { 16 } else { 8 };
    let mut w = CaseWriter::new(&o.out, &format!("c18_{}_cases", part), HEADER, "c18case", "check_all", per_file);
    let range: Vec<u64> = match only {
        Some(x) => vec![x],
        None => (0..o.cases).collect(),
    };
    let mut canon: BTreeSet<u64> = BTreeSet::new();
    let mut seen_sig: BTreeSet<String> = BTreeSet::new();
    // Discv5::new needs a tokio runtime for its default executor; the instance is only used for
    // the application-level ban/permit calls on the global list (filter part, run serially).
    let rt = tokio::runtime::Builder::new_current_thread().enable_all().build().unwrap();
    let _guard = rt.enter();
    let api = if part != "lim" { Some(api_instance()) } else { None };
    for idx in range {
        let mut rng = case_rng(o.seed, idx, &part);
        let (r, sample, replay_ops): (CaseResult, J, Vec<J>) = if part == "lim" {
            let g = gen_lim(&mut rng, o.thorough);
            let r = run_lim(idx, &g);
            let ops: Vec<J> = g.events.iter().map(|e| J::s(coq_lev(e))).collect();
            (
                r,
                J::obj(vec![
                    ("case", J::I(idx as i64)),
                    ("seed", J::I(o.seed as i64)),
                    ("kind", J::s(g.kind)),
                    ("period_ns", J::s(g.period.to_string())),
                    ("max_tokens", J::I(g.max_tokens as i64)),
                    ("first_events", J::A(ops.iter().take(8).cloned().collect())),
                ]),
                ops,
            )
        } else {
            let g = gen_fil(&mut rng, o.thorough, part == "inb", idx);
            let r = run_fil(idx, &g, api.as_ref().unwrap(), part == "inb", &rt);
            let ops: Vec<J> = g.events.iter().map(|e| J::s(replay_fev(e))).collect();
            (
                r,
                J::obj(vec![
                    ("case", J::I(idx as i64)),
                    ("seed", J::I(o.seed as i64)),
                    ("enabled", J::B(g.enabled)),
                    ("quotas(total,node,ip)", J::s(format!("{:?}", g.rate))),
                    ("ban_ns", g.ban_ns.map(|x| J::I(x as i64)).unwrap_or(J::Null)),
                    ("max_nodes_per_ip", g.max_nodes_per_ip.map(|x| J::I(x as i64)).unwrap_or(J::Null)),
                    ("max_bans_per_ip", g.max_bans_per_ip.map(|x| J::I(x as i64)).unwrap_or(J::Null)),
                    ("first_events", J::A(ops.iter().take(8).cloned().collect())),
                ]),
                ops,
            )
        };
        sum.evaluations += 1;
        sum.steps += r.steps as u64;
        for (k, v) in &r.hist.0 {
            sum.hist.addn(k, *v);
        }
        if r.nontrivial && canon.insert(r.canon) {
            sum.distinct_nontrivial += 1;
        }
        if sum.samples.len() < 2 {
            sum.samples.push(sample.clone());
        }
        for (prop, sigtext, detail, step) in &r.failures {
            if let Some(f) = &focus {
                if f != prop {
                    sum.hist.add(&format!("monitor_failure_of_another_property_{}", prop));
                    continue;
                }
            }
            let sig = format!("{}:{}", prop, sigtext);
            if seen_sig.insert(sig.clone()) || only.is_some() {
                let file = o.out.join(format!("failure_{}_{}_{}_{}.json", prop, part, idx, seen_sig.len()));
                let mut kv = vec![
                    ("component", J::s("limiter")),
                    ("part", J::s(part.clone())),
                    ("property", J::s(prop.clone())),
                    ("seed", J::I(o.seed as i64)),
                    ("case", J::I(idx as i64)),
                    ("thorough", J::B(o.thorough)),
                    ("step", J::I(*step as i64)),
                    ("what", J::s(sigtext.clone())),
                    ("detail", J::s(detail.clone())),
                    ("config", sample.clone()),
                ];
                kv.push(("events", J::A(replay_ops.iter().take(step + 1).cloned().collect())));
                std::fs::write(&file, J::obj(kv).render()).unwrap();
                sum.monitor_failures.push((sig, format!("{} ({})", sigtext, detail), file.to_string_lossy().to_string()));
            }
        }
        w.push(r.coq);
    }
    permit_ban_reset(PermitBanList::default());
    w.flush();
    sum.case_files = w.files.clone();
    sum.rule = if part == "lim" {
        "event sequences over a real Limiter<u64> with explicit time: bursts 1-12, periods divisible / not divisible by the burst (large, round and small), arrival gaps around 0, t, tau and multiples, 3 keys, interleaved prunes, occasionally batches of several tokens; plus edge cases (invalid quotas, t = 0, times near 2^64, clock going back, huge batches); a case is non-trivial if the limiter both accepted and refused, distinct if its verdict/prune trace is new in this run".into()
    } else if part == "inb" {
        "histories over a real RecvHandler (handle_inbound: source normalisation, exemption lookup, initial pass, Packet::decode, Packet::src_id, final pass) in front of a real Handler (hook VirtualHandler) + the global PERMIT_BAN_LIST in real time (serial): datagrams built with Packet::encode - message / handshake packets from one of 6 node ids or the local node's own id with bodies of 0..40 bytes (0, 1, 15, 16, 17, 24, 40 emphasised; 1 message packet in 10 fills the datagram to 1279 or 1280 bytes), WHOAREYOU, undecodable bytes of 0..1400 bytes - from 4 hosts in four address forms (IPv4, IPv6, IPv4-mapped IPv6, link-local IPv6), two ports, IPv6 sources with flowinfo and/or scope id set; every case opens with one of eight corner datagrams in turn (1280-byte message packet, local id as source id, empty body, IPv4-mapped source, scope id only, flowinfo only) through the fresh filter; expected_responses holds per datagram any of: the source itself (1 in 8), another port of its IP, its IPv4 / IPv4-mapped twin, the address with its scope id, another IP; same quota regimes and list operations (also on the IPv6 forms) as the filter part, unban_nodes_check through a starting real Handler; observed: dropped / unrecognized / delivered and the source address the handler reports (WHOAREYOU query for a message packet, unrecognized-frame report); non-trivial if some datagram was delivered, some dropped, and a permit/ban/exemption decided a call; distinct by fate trace".into()
    } else {
        "histories over a real Filter + the global PERMIT_BAN_LIST in real time (serial): total/node/ip quotas each absent, not refilling within the case (period >= 60 s, burst 1-14) or refilled before every call (period 200 us, 2 ms between calls), 4 IPs x 6 node ids, ban duration 1 h / 30 s / permanent, nodes-per-IP and bans-per-IP rules on/off, interleaved prune_limiter, Discv5::ban_*/permit_* calls (bans of 1 h / permanent / 0.5 ms) and unban_nodes_check through a starting real Handler; non-trivial if some datagram passed, some was dropped by a quota or a ban, and a permit or ban entry decided a call; distinct by decision trace".into()
    };
    sum.write(&o.out);
    println!(
        "limiter/{}: {} cases, {} steps, {} distinct non-trivial, {} monitor failure signatures",
        part,
        sum.evaluations,
        sum.steps,
        sum.distinct_nontrivial,
        sum.monitor_failures.len()
    );
}
