//! Scripted service (C11, C12, C14): the real `Service` event loop with the handler's channel ends
//! held by the harness (hook `discv5::verif::service`). Generators, implementation drivers, direct
//! property monitors and the Coq case files for the correspondence with Model/Nodes.v,
//! Model/Serve.v and Model/Admission.v (runner: Run/ServiceRun.v).
//!
//! Determinism: one current-thread tokio runtime per case with paused time; the harness never awaits
//! a pending future (it yields until the service task is idle and drains the channels with try_recv),
//! so the clock only moves when a case advances it explicitly. Identities are derived from a fixed
//! seed (node ids are hashes of public keys and cannot be chosen), everything else from `--seed`.
use crate::common::*;
use discv5::enr::{CombinedKey, EnrKey, NodeId};
use discv5::kbucket::{ConnectionState, KBucketsTable, NodeStatus};
use discv5::verif::service::*;
use discv5::{ConfigBuilder, Enr, Event, IpMode, ListenConfig};
use std::collections::{BTreeSet, HashMap};
use std::net::{IpAddr, Ipv4Addr, Ipv6Addr, SocketAddr, SocketAddrV4, SocketAddrV6};
use tokio::sync::mpsc;

mod c11;
mod c12;
mod c14;

pub type K32 = [u8; 32];

// ------------------------------------------------------------------------------------------------
// identities

pub struct Ident {
    pub sk: [u8; 32],
    pub id: K32,
}

impl Ident {
    pub fn key(&self) -> CombinedKey {
        let mut b = self.sk;
        CombinedKey::secp256k1_from_bytes(&mut b).expect("valid key")
    }
    pub fn node_id(&self) -> NodeId {
        NodeId::new(&self.id)
    }
}

/// `n` identities from a fixed seed (independent of `--seed`: every case of every run draws from the
/// same pool, so that a case index names the same case in every run).
pub fn make_idents(n: usize) -> Vec<Ident> {
    let mut rng = Rng::new(0x5eed_0c11_0c12_0c14);
    let mut v = Vec::with_capacity(n);
    while v.len() < n {
        let b = rng.bytes(32);
        let mut sk = [0u8; 32];
        sk.copy_from_slice(&b);
        let mut tmp = sk;
        if let Ok(k) = CombinedKey::secp256k1_from_bytes(&mut tmp) {
            let id = NodeId::from(k.public()).raw();
            v.push(Ident { sk, id });
        }
    }
    v
}

pub fn xor(a: &K32, b: &K32) -> K32 {
    let mut r = [0u8; 32];
    for i in 0..32 {
        r[i] = a[i] ^ b[i];
    }
    r
}

/// log2 distance as in the protocol: 0 for identical ids, otherwise 1..=256.
pub fn log2dist(a: &K32, b: &K32) -> u64 {
    let x = xor(a, b);
    for (i, byte) in x.iter().enumerate() {
        if *byte != 0 {
            return (256 - 8 * i as u64) - byte.leading_zeros() as u64;
        }
    }
    0
}

/// An id at log2 distance `d` (1..=256) from `base`, or `base` itself for d = 0.
pub fn id_at(rng: &mut Rng, base: &K32, d: u64) -> K32 {
    if d == 0 {
        return *base;
    }
    let mut delta = [0u8; 32];
    let r = rng.bytes(32);
    let top = (d - 1) as usize; // index of the highest differing bit
    for bit in 0..top {
        let byte = 31 - bit / 8;
        if (r[byte] >> (bit % 8)) & 1 == 1 {
            delta[byte] |= 1 << (bit % 8);
        }
    }
    delta[31 - top / 8] |= 1 << (top % 8);
    xor(base, &delta)
}

// ------------------------------------------------------------------------------------------------
// records

#[derive(Clone, Debug, PartialEq, Eq, Hash)]
pub struct RecSpec {
    pub ident: usize,
    pub seq: u64,
    pub udp4: Option<([u8; 4], u16)>,
    pub udp6: Option<([u8; 16], u16)>,
    /// exact encoded size to pad the record to (0: no padding)
    pub size: usize,
}

pub struct RecInfo {
    pub spec: RecSpec,
    pub enr: Enr,
    pub vid: u64,
    pub size: usize,
}

/// Per-case interning of records: equal content <-> equal vid.
pub struct Recs<'a> {
    pub idents: &'a [Ident],
    pub list: Vec<RecInfo>,
    by_spec: HashMap<RecSpec, usize>,
    by_rlp: HashMap<Vec<u8>, usize>,
}

fn build_enr(id: &Ident, s: &RecSpec) -> Enr {
    let key = id.key();
    let base = |pad: Option<usize>| -> Result<Enr, String> {
        let mut b = Enr::builder();
        b.seq(s.seq);
        if let Some((ip, port)) = s.udp4 {
            b.ip4(Ipv4Addr::from(ip));
            b.udp4(port);
        }
        if let Some((ip, port)) = s.udp6 {
            b.ip6(Ipv6Addr::from(ip));
            b.udp6(port);
        }
        let mut e = b.build(&key).map_err(|e| format!("{:?}", e))?;
        if let Some(n) = pad {
            // the key sorts after "udp6"; inserting bumps the sequence number, which is restored
            e.insert("zpad", &alloy_rlp::Bytes::from(vec![0xabu8; n]), &key).map_err(|e| format!("{:?}", e))?;
            e.set_seq(s.seq, &key).map_err(|e| format!("{:?}", e))?;
        }
        Ok(e)
    };
    if s.size == 0 {
        return base(None).expect("record");
    }
    // search the padding length that gives exactly the requested size
    let plain = base(None).expect("record");
    let cur = alloy_rlp::encode(&plain).len();
    if cur + 8 > s.size {
        return plain;
    }
    let mut guess = s.size - cur - 7;
    let mut best = plain;
    for _ in 0..16 {
        if guess == 0 {
            break;
        }
        match base(Some(guess)) {
            Ok(e) => {
                let n = alloy_rlp::encode(&e).len();
                if n == s.size {
                    return e;
                }
                if n < s.size {
                    best = e;
                    guess += s.size - n;
                } else {
                    guess -= (n - s.size).min(guess);
                }
            }
            Err(_) => guess -= 1,
        }
    }
    best
}

impl<'a> Recs<'a> {
    pub fn new(idents: &'a [Ident]) -> Self {
        Recs { idents, list: vec![], by_spec: HashMap::new(), by_rlp: HashMap::new() }
    }
    /// index into `list`
    pub fn get(&mut self, spec: &RecSpec) -> usize {
        if let Some(i) = self.by_spec.get(spec) {
            return *i;
        }
        let enr = build_enr(&self.idents[spec.ident], spec);
        let rlp = alloy_rlp::encode(&enr);
        let i = match self.by_rlp.get(&rlp) {
            Some(i) => *i,
            None => {
                let i = self.list.len();
                self.list.push(RecInfo { spec: spec.clone(), enr, vid: i as u64 + 1, size: rlp.len() });
                self.by_rlp.insert(rlp, i);
                i
            }
        };
        self.by_spec.insert(spec.clone(), i);
        i
    }
    /// registers a record that was built elsewhere (e.g. the local ENR)
    pub fn adopt(&mut self, ident: usize, enr: &Enr) -> usize {
        let rlp = alloy_rlp::encode(enr);
        if let Some(i) = self.by_rlp.get(&rlp) {
            return *i;
        }
        let i = self.list.len();
        let spec = RecSpec {
            ident,
            seq: enr.seq(),
            udp4: enr.udp4_socket().map(|s| (s.ip().octets(), s.port())),
            udp6: enr.udp6_socket().map(|s| (s.ip().octets(), s.port())),
            size: 0,
        };
        self.list.push(RecInfo { spec, enr: enr.clone(), vid: i as u64 + 1, size: rlp.len() });
        self.by_rlp.insert(rlp, i);
        i
    }
    pub fn vid_of(&self, enr: &Enr) -> u64 {
        self.by_rlp.get(&alloy_rlp::encode(enr)).map(|i| self.list[*i].vid).unwrap_or(0)
    }
    pub fn id_of(&self, i: usize) -> K32 {
        self.idents[self.list[i].spec.ident].id
    }
    /// the Coq literal of the record table
    pub fn coq(&self) -> String {
        let items: Vec<String> = self
            .list
            .iter()
            .map(|r| {
                let e = &r.enr;
                let u4 = e.udp4_socket().map(|s| format!("({}, {})", u32::from(*s.ip()), s.port()));
                let u6 = e.udp6_socket().map(|s| format!("({}, {})", coq_hex_raw(&s.ip().octets()), s.port()));
                let sub = e.ip4().map(|ip| {
                    let o = ip.octets();
                    (((o[0] as u64) << 16) | ((o[1] as u64) << 8) | (o[2] as u64)).to_string()
                });
                format!(
                    "E {} {} {} {} {} {} {}",
                    r.vid,
                    coq_hex(&e.node_id().raw()),
                    e.seq(),
                    coq_opt(u4),
                    coq_opt(u6),
                    coq_opt(sub),
                    r.size
                )
            })
            .collect();
        coq_list(&items)
    }
}

// ------------------------------------------------------------------------------------------------
// the scripted service

pub struct Svc {
    pub s: ScriptedService,
    pub events: mpsc::Receiver<Event>,
}

/// Lets the service task run until it is idle. The harness task only yields (it never parks), so
/// the paused clock does not advance.
pub async fn settle() {
    for _ in 0..12 {
        tokio::task::yield_now().await;
    }
}

impl Svc {
    pub async fn new(local_enr: Enr, key: CombinedKey, config: discv5::Config) -> Svc {
        let s = scripted_service(local_enr, key, config).expect("scripted service");
        let h = tokio::spawn(s.discv5.event_stream());
        settle().await;
        assert!(h.is_finished(), "event stream not delivered");
        let events = h.await.expect("join").expect("event stream");
        Svc { s, events }
    }
    pub async fn inject(&mut self, ev: HandlerOut) {
        progress(&event_label(&ev));
        assert!(self.s.inject(ev), "service queue full or closed");
        settle().await;
    }
    pub fn drain(&mut self) -> Vec<HandlerIn> {
        self.s.drain()
    }
    pub fn events(&mut self) -> Vec<Event> {
        let mut v = vec![];
        while let Ok(e) = self.events.try_recv() {
            v.push(e);
        }
        v
    }
    pub fn alive(&self) -> bool {
        !self.s.task.is_finished()
    }
}

pub fn runtime() -> tokio::runtime::Runtime {
    tokio::runtime::Builder::new_current_thread().enable_all().start_paused(true).build().expect("runtime")
}

pub fn sock4(ip: [u8; 4], port: u16) -> SocketAddr {
    SocketAddr::V4(SocketAddrV4::new(Ipv4Addr::from(ip), port))
}
pub fn sock6(ip: [u8; 16], port: u16) -> SocketAddr {
    SocketAddr::V6(SocketAddrV6::new(Ipv6Addr::from(ip), port, 0, 0))
}

/// `IpMode::get_contactable_addr`, re-stated from the documentation of `IpMode`: IPv4 mode uses the
/// IPv4 UDP socket of the record, IPv6 mode its IPv6 UDP socket unless that is an IPv4-mapped
/// address, dual stack prefers the (canonical) IPv6 socket.
pub fn contactable(mode: IpMode, e: &Enr) -> Option<SocketAddr> {
    let v4 = e.udp4_socket().map(SocketAddr::V4);
    let v6 = e.udp6_socket().and_then(|s| {
        let o = s.ip().octets();
        let mapped = o[..10].iter().all(|b| *b == 0) && o[10] == 0xff && o[11] == 0xff;
        if mapped {
            None
        } else {
            Some(SocketAddr::V6(s))
        }
    });
    match mode {
        IpMode::Ip4 => v4,
        IpMode::Ip6 => v6,
        IpMode::DualStack => v6.or(v4),
    }
}

// ------------------------------------------------------------------------------------------------
// table dumps (same canonical form and hash as kb.rs / Run/KBucketRun.v `dump`)

pub struct NodeD {
    pub key: K32,
    pub enr: Enr,
    pub conn: bool,
    pub inc: bool,
}
pub struct BucketD {
    pub idx: usize,
    pub fcp: Option<usize>,
    pub nodes: Vec<NodeD>,
    pub pending: Option<NodeD>,
}

pub fn dump_table(t: &KBucketsTable<NodeId, Enr>) -> (Vec<BucketD>, Vec<(K32, Option<K32>)>) {
    let mut buckets = vec![];
    for (idx, b) in t.buckets_iter().enumerate() {
        let nodes: Vec<NodeD> = b
            .iter()
            .map(|n| NodeD {
                key: n.key.preimage().raw(),
                enr: n.value.clone(),
                conn: n.status.is_connected(),
                inc: n.status.is_incoming(),
            })
            .collect();
        let pending = b.pending().map(|p| NodeD {
            key: b.verif_pending_key().unwrap().preimage().raw(),
            enr: p.value().clone(),
            conn: p.status().is_connected(),
            inc: p.status().is_incoming(),
        });
        if nodes.is_empty() && pending.is_none() {
            continue;
        }
        buckets.push(BucketD { idx, fcp: b.verif_first_connected_pos(), nodes, pending });
    }
    let mut c = t.clone();
    let mut applied = vec![];
    while let Some(a) = c.take_applied_pending() {
        applied.push((a.inserted.preimage().raw(), a.evicted.map(|n| n.key.preimage().raw())));
    }
    (buckets, applied)
}

pub fn hash_table(recs: &Recs, t: &KBucketsTable<NodeId, Enr>) -> u64 {
    let (buckets, applied) = dump_table(t);
    let mut e = HashEnc::new();
    let node = |e: &mut HashEnc, n: &NodeD| {
        e.big(&n.key).n(recs.vid_of(&n.enr)).b(n.conn).b(n.inc);
    };
    e.n(buckets.len() as u64);
    for b in &buckets {
        e.n(b.idx as u64);
        e.n(b.fcp.map(|p| p as u64 + 1).unwrap_or(0));
        e.n(b.nodes.len() as u64);
        for n in &b.nodes {
            node(&mut e, n);
        }
        match &b.pending {
            Some(p) => {
                e.n(1);
                node(&mut e, p);
            }
            None => {
                e.n(0);
            }
        }
    }
    e.n(applied.len() as u64);
    for (i, ev) in &applied {
        e.big(i);
        match ev {
            Some(k) => {
                e.n(1).big(k);
            }
            None => {
                e.n(0);
            }
        }
    }
    e.value()
}

pub fn status(conn: bool, inc: bool) -> NodeStatus {
    NodeStatus {
        state: if conn { ConnectionState::Connected } else { ConnectionState::Disconnected },
        direction: if inc { ConnectionDirection::Incoming } else { ConnectionDirection::Outgoing },
    }
}

// ------------------------------------------------------------------------------------------------
// C14 monitor on one served answer (also used on the honest responder of the C11 cases)

pub struct Served {
    pub packets: Vec<(Vec<u8>, u64, Vec<Enr>, usize)>, // (id, total, records, wire length)
}

/// Collects the NODES responses addressed to `to` among `msgs` and measures each on the wire.
pub fn collect_served(msgs: &[HandlerIn], to: &NodeAddress, src: &K32, rng: &mut Rng) -> Served {
    let mut packets = vec![];
    for m in msgs {
        if let HandlerIn::Response(addr, resp) = m {
            if addr != to {
                continue;
            }
            if let ResponseBody::Nodes { total, nodes } = &resp.body {
                let mut key = [0u8; 16];
                key.copy_from_slice(&rng.bytes(16));
                let mut nonce = [0u8; 12];
                nonce.copy_from_slice(&rng.bytes(12));
                let iv = ((rng.next() as u128) << 64) | rng.next() as u128;
                let wire = response_datagram((**resp).clone(), NodeId::new(src), to.node_id, &key, iv, nonce)
                    .map(|d| d.len())
                    .unwrap_or(usize::MAX);
                packets.push((resp.id.0.clone(), *total, nodes.clone(), wire));
            }
        }
    }
    Served { packets }
}

/// The direct C14 monitor for one FINDNODE answer, written from the property text. `table` is the
/// responder's table content (key, record) before the request, `local` its own record.
#[allow(clippy::too_many_arguments)]
pub fn check_served(
    served: &Served,
    req_id: &[u8],
    distances: &[u64],
    requester: &K32,
    local: &Enr,
    table: &[(K32, Enr)],
    max_nodes: usize,
    max_packet: usize,
) -> Option<String> {
    if served.packets.is_empty() {
        return Some("FINDNODE request not answered".into());
    }
    let n = served.packets.len() as u64;
    for (id, total, _, wire) in &served.packets {
        if id.as_slice() != req_id {
            return Some("NODES packet carries another request id".into());
        }
        if *total != n {
            return Some(format!("NODES total {} differs from the number of packets {}", total, n));
        }
        if *wire > max_packet {
            return Some(format!("NODES packet of {} bytes on the wire exceeds {}", wire, max_packet));
        }
    }
    let local_id = local.node_id().raw();
    let all: Vec<&Enr> = served.packets.iter().flat_map(|p| p.2.iter()).collect();
    if served.packets.len() > 1 && served.packets.iter().any(|p| p.2.is_empty()) {
        return Some("empty NODES packet in a multi-packet answer".into());
    }
    let zero = distances.contains(&0);
    let own: Vec<&&Enr> = all.iter().filter(|e| e.node_id().raw() == local_id).collect();
    if zero && !(own.len() == 1 && *own[0] == local) {
        return Some("distance 0 requested but the local record is not served exactly once".into());
    }
    if !zero && !own.is_empty() {
        return Some("local record served although distance 0 was not requested".into());
    }
    let rest: Vec<&Enr> = all.iter().filter(|e| e.node_id().raw() != local_id).cloned().collect();
    if rest.iter().any(|e| &e.node_id().raw() == requester) {
        return Some("the requester's own record was served back to it".into());
    }
    // candidates: table entries at the requested distances
    let cand: Vec<&(K32, Enr)> = table
        .iter()
        .filter(|(k, _)| {
            let d = log2dist(&local_id, k);
            d >= 1 && distances.contains(&d)
        })
        .collect();
    for e in &rest {
        if !cand.iter().any(|(k, v)| *k == e.node_id().raw() && v == *e) {
            return Some("served record is not a table entry at a requested distance".into());
        }
    }
    let mut seen = BTreeSet::new();
    for e in &rest {
        if !seen.insert(e.node_id().raw()) {
            return Some("record served twice".into());
        }
    }
    let limit = max_nodes.max(1); // the collection loop pushes before it tests the limit
    if rest.len() > limit {
        return Some(format!("{} table records served, configured maximum {}", rest.len(), max_nodes));
    }
    if cand.len() <= max_nodes {
        let expect = cand.iter().filter(|(k, _)| k != requester).count();
        if rest.len() != expect {
            return Some(format!("{} of {} table entries at the requested distances served", rest.len(), expect));
        }
    } else if rest.len() + 1 < limit {
        return Some(format!("only {} records served although {} entries match (maximum {})", rest.len(), cand.len(), max_nodes));
    }
    None
}

pub fn table_content(t: &KBucketsTable<NodeId, Enr>) -> Vec<(K32, Enr)> {
    let (b, _) = dump_table(t);
    b.into_iter().flat_map(|b| b.nodes.into_iter().map(|n| (n.key, n.enr))).collect()
}

// ------------------------------------------------------------------------------------------------
// table filters the configuration can carry (`fn(&Enr) -> bool`), mirrored by `tf_of` in
// Run/ServiceRun.v

pub fn tf_all(_: &Enr) -> bool {
    true
}
pub fn tf_none(_: &Enr) -> bool {
    false
}
pub fn tf_subnet(e: &Enr) -> bool {
    match e.ip4() {
        Some(ip) => {
            let o = ip.octets();
            !(o[0] == 10 && o[1] == 0 && o[2] == 1)
        }
        None => true,
    }
}
pub fn tf_seq(e: &Enr) -> bool {
    e.seq() < 100
}
pub fn table_filter(n: u64) -> fn(&Enr) -> bool {
    match n {
        0 => tf_all,
        1 => tf_none,
        2 => tf_subnet,
        _ => tf_seq,
    }
}

pub fn listen_config(mode: u64) -> ListenConfig {
    match mode {
        0 => ListenConfig::Ipv4 { ip: Ipv4Addr::new(127, 0, 0, 1), port: 9000 },
        1 => ListenConfig::Ipv6 { ip: Ipv6Addr::LOCALHOST, port: 9000 },
        // the same three modes through sockets the application has created itself (must be called
        // inside a runtime; the sockets are bound to ephemeral loopback ports and never used)
        3 | 4 | 5 => {
            let mk = |addr: &str| -> Option<std::sync::Arc<tokio::net::UdpSocket>> {
                let s = std::net::UdpSocket::bind(addr).ok()?;
                s.set_nonblocking(true).ok()?;
                tokio::net::UdpSocket::from_std(s).ok().map(std::sync::Arc::new)
            };
            let v4 = if mode != 4 { mk("127.0.0.1:0") } else { None };
            let v6 = if mode != 3 { mk("[::1]:0") } else { None };
            if (mode != 4 && v4.is_none()) || (mode != 3 && v6.is_none()) {
                // no such loopback address in this sandbox: fall back to the plain form of the mode
                return listen_config(mode - 3);
            }
            ListenConfig::FromSockets { ipv4: v4, ipv6: v6 }
        }
        _ => ListenConfig::DualStack {
            ipv4: Ipv4Addr::new(127, 0, 0, 1),
            ipv4_port: 9000,
            ipv6: Ipv6Addr::LOCALHOST,
            ipv6_port: 9001,
        },
    }
}

// ------------------------------------------------------------------------------------------------
// watchdog: a case runs on an OS thread of its own. The service task runs on a current-thread runtime:
// if it blocks (a parking_lot lock taken twice, an endless loop) nothing on that thread ever runs
// again, the harness task included, so the wait for a case is bounded in REAL time from outside.

/// real-time bound for one case (a case takes well below a second)
pub const WATCHDOG_SECS: u64 = 20;
/// after this many hung cases the rest of the run is skipped
pub const MAX_HUNG_CASES: u32 = 2;

/// Runs `f` on a fresh thread and waits at most `secs` seconds of real time for its result. `None`:
/// the thread did not finish (it is left behind, still blocked).
pub fn run_watched<T: Send + 'static>(secs: u64, f: impl FnOnce() -> T + Send + 'static) -> Option<T> {
    let (tx, rx) = std::sync::mpsc::channel();
    let th = std::thread::Builder::new()
        .name("case".into())
        .stack_size(64 << 20)
        .spawn(move || {
            let _ = tx.send(f());
        })
        .expect("spawn case thread");
    match rx.recv_timeout(std::time::Duration::from_secs(secs)) {
        Ok(v) => {
            let _ = th.join();
            Some(v)
        }
        Err(std::sync::mpsc::RecvTimeoutError::Disconnected) => {
            // the closure panicked outside `catch` (never expected): treat like a hang, nothing is stuck
            let _ = th.join();
            None
        }
        Err(std::sync::mpsc::RecvTimeoutError::Timeout) => None,
    }
}

/// What the running case has done so far (read by the watchdog when the case hangs).
static PROGRESS: std::sync::Mutex<Vec<String>> = std::sync::Mutex::new(Vec::new());
static IN_LOOKUP: std::sync::atomic::AtomicBool = std::sync::atomic::AtomicBool::new(false);

pub fn progress_reset() {
    PROGRESS.lock().unwrap_or_else(|e| e.into_inner()).clear();
    IN_LOOKUP.store(false, std::sync::atomic::Ordering::SeqCst);
}
pub fn progress(what: &str) {
    PROGRESS.lock().unwrap_or_else(|e| e.into_inner()).push(what.to_string());
}
/// a lookup (find_node) of the local node is running / has ended
pub fn progress_lookup(running: bool) {
    IN_LOOKUP.store(running, std::sync::atomic::Ordering::SeqCst);
}
pub fn progress_snapshot() -> (Vec<String>, bool) {
    (PROGRESS.lock().unwrap_or_else(|e| e.into_inner()).clone(), IN_LOOKUP.load(std::sync::atomic::Ordering::SeqCst))
}

fn body_kind_req(b: &RequestBody) -> &'static str {
    match b {
        RequestBody::Ping { .. } => "PING",
        RequestBody::FindNode { .. } => "FINDNODE",
        RequestBody::Talk { .. } => "TALKREQ",
    }
}
fn body_kind_resp(b: &ResponseBody) -> &'static str {
    match b {
        ResponseBody::Pong { .. } => "PONG",
        ResponseBody::Nodes { .. } => "NODES",
        ResponseBody::Talk { .. } => "TALKRESP",
    }
}
fn event_label(ev: &HandlerOut) -> String {
    match ev {
        HandlerOut::Established(e, s, d) => format!("inject Established(node {}, seq {}, {}, {:?})", hex::encode(&e.node_id().raw()[..4]), e.seq(), s, d),
        HandlerOut::Request(a, r) => format!("inject Request {}: from {}: {}", body_kind_req(&r.body), a, r.body),
        HandlerOut::Response(a, r) => format!("inject Response {}: from {}: {}", body_kind_resp(&r.body), a, r.body),
        HandlerOut::WhoAreYou(r) => format!("inject WhoAreYou({})", r.0),
        HandlerOut::RequestFailed(id, e) => format!("inject RequestFailed({}, {:?})", id, e),
        HandlerOut::UnverifiableEnr { node_id, .. } => format!("inject UnverifiableEnr(node {})", hex::encode(&node_id.raw()[..4])),
        _ => "inject (other event)".to_string(),
    }
}

pub static FORCE_IP_LIMIT: std::sync::atomic::AtomicBool = std::sync::atomic::AtomicBool::new(false);

pub fn base_config(mode: u64) -> ConfigBuilder {
    ConfigBuilder::new(listen_config(mode))
}

pub const HEADER: &str = "From Coq Require Import List NArith.\nImport ListNotations.\nFrom Discv5V Require Import Model.KBucket Model.Nodes Model.Serve Model.Admission Run.Common Run.KBucketRun Run.ServiceRun.\nOpen Scope N_scope.";

pub struct CaseResult {
    pub coq: Option<String>,
    pub failures: Vec<(String, String)>, // (property, description)
    pub nontrivial: bool,
    pub canon: u64,
    pub steps: usize,
    pub sample: J,
}

pub fn case_rng(seed: u64, idx: u64) -> Rng {
    Rng::new(seed.wrapping_mul(0x9E3779B97F4A7C15).wrapping_add(idx.wrapping_mul(0xD1B54A32D192ED03)).wrapping_add(0x5e51ce))
}

pub fn fnv(h: &mut u64, s: &str) {
    for c in s.bytes() {
        *h = (*h ^ c as u64).wrapping_mul(1099511628211);
    }
}

/// `harness service --focus c11|c12|c14 --seed S --cases N --out DIR [--only I]`
pub fn main(args: &[String]) {
    let o = parse_opts(args);
    let mut focus = "c11".to_string();
    let mut only: Option<u64> = None;
    let mut i = 0;
    while i < o.rest.len() {
        match o.rest[i].as_str() {
            "--focus" => {
                focus = o.rest[i + 1].clone();
                i += 1;
            }
            "--only" => {
                only = Some(o.rest[i + 1].parse().unwrap());
                i += 1;
            }
            _ => {}
        }
        i += 1;
    }
    // "c12ip": the histories of c12 with IP limiting always configured (monitor-only run of C16)
    if focus == "c12ip" {
        FORCE_IP_LIMIT.store(true, std::sync::atomic::Ordering::SeqCst);
        focus = "c12".to_string();
    }
    // the identities live as long as the process: each case runs on a thread of its own (see `run_watched`)
    let idents: &'static [Ident] = Box::leak(make_idents(if focus == "c12" { 96 } else { 640 }).into_boxed_slice());
    if focus == "c14margin" {
        // experiment, not a check: see c14::margin_experiment
        c14::margin_experiment(idents);
        return;
    }
    let mut sum = Summary::new(&format!("service/{}", focus));
    let (ty, check, per_file) = match focus.as_str() {
        "c11" => ("c11case", "check_c11", 24),
        "c12" => ("c12case", "check_c12", 6),
        _ => ("c14case", "check_c14", 6),
    };
    let mut w = CaseWriter::new(&o.out, &format!("svc_{}_cases", focus), HEADER, ty, check, per_file);
    let mut canon: BTreeSet<u64> = BTreeSet::new();
    let mut seen_sig: BTreeSet<String> = BTreeSet::new();
    let range: Vec<u64> = match only {
        Some(x) => vec![x],
        None => (0..o.cases).collect(),
    };
    let mut hung = 0u32;
    for idx in range {
        if hung >= MAX_HUNG_CASES {
            // every hung case costs WATCHDOG_SECS of real time and leaks a thread: the failure has been
            // reported, the rest of the run is skipped
            sum.hist.add("watchdog:case_skipped_after_hangs");
            continue;
        }
        progress_reset();
        let (seed, thorough, fc) = (o.seed, o.thorough, focus.clone());
        let watched = run_watched(WATCHDOG_SECS, move || {
            let mut rng = case_rng(seed, idx);
            let mut hist = Hist::default();
            let res = catch(std::panic::AssertUnwindSafe(|| match fc.as_str() {
                "c11" => c11::run_case(idents, idx, &mut rng, thorough, &mut hist),
                "c12" => c12::run_case(idents, idx, &mut rng, thorough, &mut hist),
                _ => c14::run_case(idents, idx, &mut rng, thorough, &mut hist),
            }));
            (res, hist)
        });
        let r = match watched {
            Some((res, hist)) => {
                for (k, v) in hist.0 {
                    sum.hist.addn(&k, v);
                }
                match res {
                    Ok(r) => r,
                    Err(m) => CaseResult {
                        coq: None,
                        failures: vec![(focus.to_uppercase(), format!("panic while running the case: {}", m))],
                        nontrivial: false,
                        canon: 0,
                        steps: 0,
                        sample: J::Null,
                    },
                }
            }
            None => {
                // the case did not come back: the service task blocks the only thread of its runtime
                // (e.g. it waits for a lock it holds itself); the stuck thread is left behind
                hung += 1;
                sum.hist.add("watchdog:case_hung");
                let (log, in_lookup) = progress_snapshot();
                // (the text names the kind of the last event only: one signature per kind; the events
                // themselves are in the replay file)
                let last = log.iter().rev().find(|l| l.starts_with("inject ")).map(|l| l.split(|c| c == '(' || c == ':').next().unwrap_or("").trim().to_string());
                let what = format!(
                    "the service task hung: the event loop did not return within {} s of real time (a deadlock blocks the only thread of its runtime); last event handed to it: {}",
                    WATCHDOG_SECS,
                    last.unwrap_or_else(|| "none (service start)".into())
                );
                let mut failures = vec![(focus.to_uppercase(), what.clone())];
                if in_lookup {
                    // C09: every lookup terminates and hands its result to the caller
                    failures.push(("C09".into(), format!("a lookup never terminates: {}", what)));
                }
                CaseResult {
                    coq: None,
                    failures,
                    nontrivial: false,
                    canon: 0,
                    steps: log.len(),
                    sample: J::obj(vec![("case", J::I(idx as i64)), ("steps_and_events_before_the_hang", J::A(log.into_iter().map(J::s).collect()))]),
                }
            }
        };
        sum.evaluations += 1;
        sum.steps += r.steps as u64;
        if r.nontrivial && canon.insert(r.canon) {
            sum.distinct_nontrivial += 1;
        }
        if sum.samples.len() < 3 {
            sum.samples.push(r.sample.clone());
        }
        for (prop, desc) in &r.failures {
            let sig: String = desc.chars().map(|c| if c.is_ascii_digit() { '#' } else { c }).collect();
            let sig = format!("{}:{}", prop, sig);
            if seen_sig.insert(sig.clone()) || only.is_some() {
                let file = o.out.join(format!("failure_{}_{}_{}.json", prop, idx, seen_sig.len()));
                let j = J::obj(vec![
                    ("component", J::s("service")),
                    ("focus", J::s(focus.clone())),
                    ("property", J::s(prop.clone())),
                    ("seed", J::I(o.seed as i64)),
                    ("case", J::I(idx as i64)),
                    ("thorough", J::B(o.thorough)),
                    ("what", J::s(desc.clone())),
                    ("input", r.sample.clone()),
                ]);
                std::fs::write(&file, j.render()).unwrap();
                sum.monitor_failures.push((sig, desc.clone(), file.to_string_lossy().to_string()));
            }
        }
        if let Some(c) = r.coq {
            w.push(c);
        }
    }
    w.flush();
    sum.case_files = w.files.clone();
    sum.rule = match focus.as_str() {
        "c11" => "scripted service A (real Service event loop) issues a FINDNODE (lookup for a target in a chosen log2-distance class from the peer, user-designated distance list, or internal ENR request) and receives NODES packets that are either produced by a second real service B (the honest responder, table filled from 640 fixed identities) or scripted (off-distance records, requester's own record, duplicates, arbitrary totals, packets after completion); in two thirds of the lookup / ENR-request cases the same peer is then asked again (the lookup is repeated, the peer announces a newer record again) and answers with or without an off-distance record - after every first packet with an off-distance record the responder's node id and IP must be on the ban list until at least the configured ban duration after that packet (for ever, 10 min, 1 h, or 25 ms with a real sleep past the end of the first ban: an expired entry stays listed until the handler's sweep); non-trivial = at least one record reached the distance filter; distinct = new hash of (distance list shape, per-packet outcome)".to_string(),
        "c12" => "sequences of session reports, NODES answers to lookups (discovered records), pings, pongs, request failures, unverifiable-record reports and user calls (add_enr, remove_node, disconnect_node) against a scripted service in a random IP mode with a random table filter; record shapes: no address, v4, v6, both, mapped v6, lower/equal/higher seq; scripted openings (idx mod 4 = 1: full bucket + pending candidate / IP-limit scenario, mod 4 = 3: who-are-you queries around a lookup, mod 8 = 2: the PONG of a pending candidate - admitted after a removed entry's or a refused session's ping is still in flight - while a running lookup holds an older record of it from a NODES answer, then the pending timeout); the monitor looks at entries and pending slots after every step; non-trivial = the table changed at least 3 times; distinct = new hash of the op/result trace".to_string(),
        _ => "FINDNODE requests (distance lists: empty, duplicates, unsorted, out of range, long) with request ids of 0..8 bytes and PINGs from random addresses (port 0 included), each request first passed through the real message codec as the handler does (a request whose distances are all <= 256 must decode to itself; lists with larger values are refused by the decoder and handed over behind it), against a scripted service whose table holds records of 100..300 bytes; every emitted NODES response is encoded, sealed with AES-GCM and packet-encoded by the real codec; non-trivial = some answer had at least one record; distinct = new hash of the answer shapes".to_string(),
    };
    sum.write(&o.out);
    println!(
        "service/{}: {} cases, {} steps, {} distinct non-trivial, {} monitor failure signatures",
        focus,
        sum.evaluations,
        sum.steps,
        sum.distinct_nontrivial,
        sum.monitor_failures.len()
    );
}
