//! C14: served FINDNODE and PING answers.
use super::*;

fn gen_distances(rng: &mut Rng, populated: &[u64]) -> Vec<u64> {
    let pick_pop = |rng: &mut Rng| -> u64 {
        if populated.is_empty() || rng.chance(1, 5) {
            rng.range(1, 256)
        } else {
            *rng.pick(populated)
        }
    };
    match rng.below(12) {
        0 => vec![],
        1 => vec![0],
        2 => {
            // the triple of a lookup
            let d = pick_pop(rng);
            let mut v = vec![d];
            if d < 256 {
                v.push(d + 1);
            }
            v.push(d - 1);
            v
        }
        3 => {
            // duplicates, unsorted, with 0
            let a = pick_pop(rng);
            let b = pick_pop(rng);
            vec![b, a, 0, a, b, 0, a]
        }
        4 => {
            // out of range values mixed in
            vec![257, pick_pop(rng), 300, 1u64 << 40, u64::MAX, 0, pick_pop(rng)]
        }
        5 => {
            // every distance, descending
            (0..=256u64).rev().collect()
        }
        6 => {
            // hundreds of entries with repetitions
            let n = rng.range(100, 400);
            (0..n).map(|_| if rng.chance(1, 3) { pick_pop(rng) } else { rng.below(300) }).collect()
        }
        7 => {
            let n = rng.range(1, 6);
            (0..n).map(|_| pick_pop(rng)).collect()
        }
        8 => {
            let mut v: Vec<u64> = populated.to_vec();
            v.push(0);
            v.reverse();
            v
        }
        9 => vec![pick_pop(rng), 0],
        10 => {
            // a value repeated with other values in between (largest first, smallest first, with 0 or an
            // out-of-range value in between)
            let a = pick_pop(rng);
            let b = loop {
                let b = pick_pop(rng);
                if b != a || populated.len() < 2 {
                    break b;
                }
            };
            match rng.below(5) {
                0 => vec![a, b, a],
                1 => vec![a.max(b), a.min(b), a.max(b)],
                2 => vec![a.min(b), a.max(b), a.min(b), a.max(b)],
                3 => vec![a, 0, a, b, 300, b],
                _ => vec![a, b, b, a, 257, a],
            }
        }
        _ => {
            // a few values in random order, every one of them twice
            let n = rng.range(2, 5);
            let mut v: Vec<u64> = (0..n).map(|_| pick_pop(rng)).collect();
            let w = v.clone();
            v.extend(w);
            for i in (1..v.len()).rev() {
                let j = rng.below(i as u64 + 1) as usize;
                v.swap(i, j);
            }
            v
        }
    }
}

/// C08 (third sentence) on the result of one lookup by log2 distances - `Discv5::nodes_by_distance`
/// or the table records of a served FINDNODE answer: only nodes stored at the requested distances
/// (so nothing for distances outside 1..256), no node twice, all of them up to the cap. `table` is
/// the table content, `excluded` the requester whose own record a served answer leaves out (after
/// the cap has been applied, so an answer may be one short of the cap).
pub fn check_by_distance(what: &str, nodes: &[&Enr], distances: &[u64], local_id: &K32, table: &[(K32, Enr)], cap: usize, excluded: Option<&K32>) -> Option<String> {
    let cand: Vec<&(K32, Enr)> = table
        .iter()
        .filter(|(k, _)| {
            let d = log2dist(local_id, k);
            (1..=256).contains(&d) && distances.contains(&d)
        })
        .collect();
    let mut seen = BTreeSet::new();
    for e in nodes {
        let id = e.node_id().raw();
        if !cand.iter().any(|(k, v)| *k == id && v == *e) {
            return Some(format!("{} returned a record that is not stored at one of the requested distances", what));
        }
        if !seen.insert(id) {
            return Some(format!("{} returned the same node twice", what));
        }
    }
    let limit = cap.max(1); // the collection loop pushes before it tests the cap
    if nodes.len() > limit {
        return Some(format!("{} returned {} nodes, the cap is {}", what, nodes.len(), cap));
    }
    match excluded {
        None => {
            if nodes.len() != cand.len().min(limit) {
                return Some(format!("{} returned {} of the {} nodes stored at the requested distances (cap {})", what, nodes.len(), cand.len(), cap));
            }
        }
        Some(x) => {
            if cand.len() <= cap {
                let expect = cand.iter().filter(|(k, _)| k != x).count();
                if nodes.len() != expect {
                    return Some(format!("{} returned {} of the {} nodes stored at the requested distances (cap {})", what, nodes.len(), expect, cap));
                }
            } else if nodes.len() + 1 < limit {
                return Some(format!("{} returned {} of the {} nodes stored at the requested distances (cap {})", what, nodes.len(), cand.len(), cap));
            }
        }
    }
    None
}

/// What the handler hands to the service for a request message: `Message::decode` of the bytes on the wire
/// (`None`: the decoder refuses the message, the handler drops it).
fn wire_request(r: &Request) -> Option<Request> {
    match Message::decode(&Message::Request(r.clone()).encode()) {
        Ok(Message::Request(d)) => Some(d),
        _ => None,
    }
}

fn gen_req_id(rng: &mut Rng) -> Vec<u8> {
    match rng.below(6) {
        0 => vec![],
        1 => vec![rng.below(128) as u8],
        2 => vec![128 + rng.below(128) as u8],
        3 => rng.bytes(8),
        _ => {
            let n = rng.range(2, 8) as usize;
            rng.bytes(n)
        }
    }
}

pub fn run_case(idents: &[Ident], idx: u64, rng: &mut Rng, _thorough: bool, hist: &mut Hist) -> CaseResult {
    let rt = runtime();
    rt.block_on(async {
        intern_begin();
        // the choices added later draw from a stream of their own (the older choices of a case stay what they were)
        let mut rng2 = Rng::new(rng.0 ^ 0x0c14_a44f_6d69_7865);
        // "every table content ... every requester address": in a third of the cases the node listens on both
        // address families and its table holds a mix of IPv4-only, IPv6-only and dual records; requests arrive from
        // IPv4 and IPv6 source addresses alike (which records are served does not depend on the requester's address)
        let family_mix = rng2.chance(1, 3);
        let mut recs = Recs::new(idents);
        let p = rng.below(idents.len() as u64) as usize;
        let max_nodes = *rng.pick(&[0usize, 1, 3, 16, 16, 16, 16, 20, 40, 200]);
        // record sizes: mixed, or uniform at a value whose multiples straddle the splitting limit
        // (5 * 235 = 1175 < 1176 = 4 * 294 = 6 * 196)
        // one case in twelve is about long answers: a large configured maximum, a full table of large
        // records and requests for many distances (more than fifteen NODES packets)
        let long_answers = rng.chance(1, 12);
        let max_nodes = if long_answers { *rng.pick(&[64usize, 100, 200]) } else { max_nodes };
        let uniform: Option<usize> = if long_answers { Some(*rng.pick(&[294usize, 300])) } else if rng.chance(2, 5) { Some(*rng.pick(&[235usize, 236, 293, 294, 195, 196, 300])) } else { None };
        let local_spec = RecSpec {
            ident: p,
            seq: rng.range(1, 1000),
            udp4: Some(([10, 0, 0, 1], 9000)),
            udp6: None,
            size: uniform.unwrap_or(*rng.pick(&[0usize, 0, 300, 250])),
        };
        let li = recs.get(&local_spec);
        let local_enr = recs.list[li].enr.clone();
        let mut cb = base_config(if family_mix { 2 } else { 0 });
        cb.max_nodes_response(max_nodes);
        let mut b = Svc::new(local_enr.clone(), idents[p].key(), cb.build()).await;
        let local_id = idents[p].id;
        if family_mix {
            hist.add("c14:dual_stack_table_of_mixed_address_families");
        }

        // ---- table content
        let n_entries = if long_answers { 140 } else { *rng.pick(&[0u64, 3, 10, 30, 60, 100, 140]) };
        let requester = loop {
            let r = rng.below(idents.len() as u64) as usize;
            if r != p {
                break r;
            }
        };
        let requester_in_table = rng.chance(1, 2);
        let mut build: Vec<String> = vec![];
        let mut chosen: BTreeSet<usize> = BTreeSet::new();
        if requester_in_table {
            chosen.insert(requester);
        }
        while (chosen.len() as u64) < n_entries.min(idents.len() as u64 - 2) {
            let i = rng.below(idents.len() as u64) as usize;
            if i != p {
                chosen.insert(i);
            }
        }
        // close identities first would bias nothing: insertion order is random
        let mut order: Vec<usize> = chosen.iter().cloned().collect();
        for i in (1..order.len()).rev() {
            let j = rng.below(i as u64 + 1) as usize;
            order.swap(i, j);
        }
        for i in order {
            let mut spec = RecSpec {
                ident: i,
                seq: rng.range(1, 50),
                udp4: Some(([10, (i / 250) as u8, (i % 7) as u8, (i % 250) as u8 + 1], 30303)),
                udp6: if rng.chance(1, 4) { Some(([0x20, 1, 0xd, 0xb8, 0, 0, 0, 0, 0, 0, 0, 0, 0, 0, (i >> 8) as u8, i as u8], 9001)) } else { None },
                size: uniform.unwrap_or(*rng.pick(&[0usize, 0, 300, 300, 220, 150])),
            };
            if family_mix {
                match rng2.below(3) {
                    0 => {
                        // an IPv6-only record
                        spec.udp4 = None;
                        spec.udp6 = Some(([0x20, 1, 0xd, 0xb8, 0, 0, 0, 0, 0, 0, 0, 0, 0, 1, (i >> 8) as u8, i as u8], 9001));
                    }
                    1 => {
                        // an IPv4-only record
                        spec.udp6 = None;
                    }
                    _ => {}
                }
            }
            let ri = recs.get(&spec);
            let (conn, inc) = (rng.chance(2, 3), rng.chance(1, 3));
            let key = discv5::Key::from(idents[i].node_id());
            let enr = recs.list[ri].enr.clone();
            let _ = b.s.kbuckets.write().insert_or_update(&key, enr.clone(), status(conn, inc));
            let sub = enr.ip4().map(|ip| {
                let o = ip.octets();
                (((o[0] as u64) << 16) | ((o[1] as u64) << 8) | (o[2] as u64)).to_string()
            });
            build.push(format!(
                "({}, V {} {}, {}, {})",
                coq_hex(&idents[i].id),
                recs.list[ri].vid,
                coq_opt(sub),
                coq_bool(conn),
                coq_bool(inc)
            ));
        }
        let bhash = hash_table(&recs, &b.s.kbuckets.read());
        let content = table_content(&b.s.kbuckets.read());
        let mut populated: Vec<u64> = content.iter().map(|(k, _)| log2dist(&local_id, k)).collect();
        populated.sort_unstable();
        populated.dedup();
        hist.add(&format!("c14:table_entries_{}", match content.len() { 0 => "0", 1..=9 => "1-9", 10..=39 => "10-39", _ => "40+" }));
        hist.add(&format!("c14:max_nodes_response_{}", max_nodes));
        hist.add(&format!("c14:record_sizes_{}", uniform.map(|u| format!("uniform_{}", u)).unwrap_or_else(|| "mixed".into())));

        // ---- steps
        let (max_packet, _, _) = constants();
        let mut failures = vec![];
        let mut steps = vec![];
        let mut h: u64 = 1469598103934665603;
        let mut nontrivial = false;
        let mut descr: Vec<J> = vec![];
        let nsteps = rng.range(4, 9);
        let mut last_pinger: Option<usize> = None;
        let mut force_ping: Option<usize> = None;
        for _ in 0..nsteps {
            if !b.alive() {
                failures.push(("C14".to_string(), "the service task ended (panic)".to_string()));
                break;
            }
            let _ = b.drain();
            let with_pending: Vec<usize> = dump_table(&b.s.kbuckets.read()).0.iter().filter(|x| x.pending.is_some()).map(|x| x.idx).collect();
            let mut forced: Option<u64> = None;
            if !with_pending.is_empty() && rng.chance(1, 2) {
                // the timeout of a pending node elapses (hook: 60 s of real time otherwise)
                let i = *rng.pick(&with_pending);
                b.s.kbuckets.write().verif_force_pending_ready(i);
                let mut e = Enc::new();
                e.n(hash_table(&recs, &b.s.kbuckets.read()));
                steps.push(format!("(SReady {}, {})", i, e.coq()));
                hist.add("c14:pending_timeout_elapses");
                descr.push(J::s(format!("the pending node of bucket {} becomes ready", i)));
                forced = Some(i as u64 + 1);
            }
            let forced_ping = force_ping.take();
            if forced_ping.is_none() && (forced.is_some() || rng.chance(3, 4)) {
                // FINDNODE
                let mut ds = gen_distances(rng, &populated);
                if long_answers && rng.chance(2, 3) {
                    ds = (0..=256u64).rev().collect();
                }
                if let Some(d) = forced {
                    // mostly ask for that distance (alone, last of several, or first)
                    match rng.below(4) {
                        0 => {}
                        1 => ds = vec![d],
                        2 => ds.push(d),
                        _ => ds.insert(0, d),
                    }
                }
                let id = gen_req_id(rng);
                let from_requester = rng.chance(2, 3);
                let rq = if from_requester { requester } else { rng.below(idents.len() as u64) as usize };
                if rq == p {
                    continue;
                }
                let mut addr = NodeAddress { socket_addr: sock4([192, 168, rng.below(256) as u8, 7], rng.range(1, 65535) as u16), node_id: idents[rq].node_id() };
                if rng2.chance(1, if family_mix { 2 } else { 4 }) {
                    // the request is observed from an IPv6 source address
                    let mut ip = [0x20u8, 1, 0xd, 0xb8, 0, 0, 0, 0, 0, 0, 0, 0, 0, 2, 0, 0];
                    ip[14] = rng2.below(256) as u8;
                    ip[15] = rng2.below(256) as u8;
                    addr.socket_addr = sock6(ip, addr.socket_addr.port());
                    hist.add("c14:findnode_from_an_ipv6_source");
                } else if family_mix {
                    hist.add("c14:findnode_from_an_ipv4_source_table_with_ipv6_only_records");
                }
                let before = table_content(&b.s.kbuckets.read());
                // the application asks its own node the same question at the same moment (same table,
                // same cap; like the answer, the call puts the due pending nodes of the buckets it
                // visits in their place)
                let api: Vec<Enr> = b.s.discv5.nodes_by_distance(ds.clone());
                // the request as the handler obtains it: decoded from the bytes on the wire. The decoder refuses
                // lists with a distance above 256 (those requests are handed to the service behind the decoder,
                // as before); every other list - the empty one included - is a request this node answers
                let on_wire = Request { id: RequestId(id.clone()), body: RequestBody::FindNode { distances: ds.clone() } };
                let delivered = wire_request(&on_wire);
                if ds.iter().all(|d| *d <= 256) {
                    match &delivered {
                        None => failures.push((
                            "C14".to_string(),
                            format!("a FINDNODE request for {} distances, none above 256, is refused by the message decoder: it never reaches the service and is never answered", match ds.len() { 0 => "no", 1 => "one", _ => "several" }),
                        )),
                        Some(r) if *r != on_wire => failures.push(("C14".to_string(), "the FINDNODE request decoded from the wire is not the request that was sent".to_string())),
                        _ => {}
                    }
                    hist.add("c14:request_through_the_message_decoder");
                } else {
                    hist.add(if delivered.is_none() { "c14:out_of_range_list_refused_by_the_decoder_handed_over_behind_it" } else { "c14:out_of_range_list_decoded" });
                }
                b.inject(HandlerOut::Request(addr.clone(), Box::new(on_wire))).await;
                let msgs = b.drain();
                let served = collect_served(&msgs, &addr, &local_id, rng);
                let cur_local = b.s.local_enr.read().clone();
                // (the service loop turns applied pending nodes into NodeInserted events; take what it
                // has not taken yet so that the dump does not depend on how far it got)
                while b.s.kbuckets.write().take_applied_pending().is_some() {}
                let after_hash = hash_table(&recs, &b.s.kbuckets.read());
                // "its table entries": the entries once every pending node whose time has come is
                // in its place - a plain iteration over the table applies them all (the answer itself
                // applies those of the buckets it visits)
                let _ = b.s.kbuckets.write().iter().count();
                while b.s.kbuckets.write().take_applied_pending().is_some() {}
                let settled = table_content(&b.s.kbuckets.read());
                let _ = before;
                if let Some(m) = check_served(&served, &id, &ds, &idents[rq].id, &cur_local, &settled, max_nodes, max_packet) {
                    failures.push(("C14".to_string(), m));
                }
                // C08: both lookups by distance, each against the table; and against each other
                {
                    let served_all: Vec<&Enr> = served.packets.iter().flat_map(|p| p.2.iter()).collect();
                    let served_rest: Vec<&Enr> = served_all.iter().filter(|e| e.node_id().raw() != local_id).cloned().collect();
                    let api_rest: Vec<&Enr> = api.iter().filter(|e| e.node_id().raw() != local_id).collect();
                    if let Some(m) = check_by_distance("Discv5::nodes_by_distance", &api_rest, &ds, &local_id, &settled, max_nodes, None) {
                        failures.push(("C08".to_string(), m));
                    }
                    if let Some(m) = check_by_distance("the lookup by distances behind a FINDNODE answer", &served_rest, &ds, &local_id, &settled, max_nodes, Some(&idents[rq].id)) {
                        failures.push(("C08".to_string(), m));
                    }
                    let api_for_requester: Vec<&Enr> = api.iter().filter(|e| e.node_id().raw() != idents[rq].id).collect();
                    if api_for_requester != served_all {
                        failures.push((
                            "C08".to_string(),
                            "Discv5::nodes_by_distance and the FINDNODE answer for the same distance list over the same table differ (the requester's own record left out of both)".to_string(),
                        ));
                    }
                    if forced.is_some() {
                        hist.add("c14:nodes_by_distance_compared_right_after_a_pending_timeout");
                    }
                    hist.add("c14:nodes_by_distance_compared_with_the_answer");
                }
                let total_recs: usize = served.packets.iter().map(|p| p.2.len()).sum();
                if total_recs > 0 {
                    nontrivial = true;
                }
                hist.add(&format!("c14:packets_{}", match served.packets.len() { 0 => "0", 1 => "1", 2..=4 => "2-4", _ => "5+" }));
                hist.add(&format!("c14:id_len_{}", id.len()));
                let maxw = served.packets.iter().map(|p| p.3).max().unwrap_or(0);
                hist.add(&format!("c14:max_wire_{}", match maxw { 0..=199 => "<200", 200..=999 => "200-999", 1000..=1199 => "1000-1199", 1200..=1270 => "1200-1270", 1271..=1280 => "1271-1280", _ => ">1280" }));
                let mut e = Enc::new();
                e.n(served.packets.len() as u64);
                for (pid, total, nodes, wire) in &served.packets {
                    e.n(*total).n(pid.len() as u64);
                    for byte in pid {
                        e.n(*byte as u64);
                    }
                    e.n(nodes.len() as u64);
                    for n in nodes {
                        e.big(&n.node_id().raw()).n(recs.vid_of(n));
                    }
                    e.n(*wire as u64);
                }
                e.n(after_hash);
                fnv(&mut h, &format!("f{}:{}:{}", served.packets.len(), total_recs, ds.len().min(9)));
                descr.push(J::s(format!("FINDNODE id={} distances={:?} from ident {} at {}", hex::encode(&id), &ds[..ds.len().min(12)], rq, addr.socket_addr)));
                steps.push(format!(
                    "(SFind {} {} {}, {})",
                    coq_hex(&idents[rq].id),
                    coq_list(&id.iter().map(|b| b.to_string()).collect::<Vec<_>>()),
                    coq_list(&ds.iter().map(|d| d.to_string()).collect::<Vec<_>>()),
                    e.coq()
                ));
                let mut e2 = Enc::new();
                e2.n(hash_table(&recs, &b.s.kbuckets.read()));
                steps.push(format!("(SIter, {})", e2.coq()));
            } else {
                // PING
                let v6 = rng.chance(1, 3);
                let port = if rng.chance(1, 4) { 0 } else { rng.range(1, 65535) as u16 };
                let sa = if v6 {
                    let mut ip = [0u8; 16];
                    ip.copy_from_slice(&rng.bytes(16));
                    sock6(ip, port)
                } else {
                    let r = rng.bytes(4);
                    sock4([r[0], r[1], r[2], r[3]], port)
                };
                // the sender: anybody, a table entry, or the sender of the previous PING again (a peer
                // that announces a newer record makes the service ask for it; its next PING, while
                // that request is pending, is answered like any other)
                let members: Vec<usize> = chosen.iter().cloned().collect();
                let rq = match (forced_ping, rng.below(3), last_pinger) {
                    (Some(q), _, _) => q,
                    (None, 0, Some(q)) => q,
                    (None, 1, _) if !members.is_empty() => *rng.pick(&members),
                    _ => rng.below(idents.len() as u64) as usize,
                };
                let ping_seq = if forced_ping.is_some() { 1u64 << 41 } else { *rng.pick(&[0u64, 1, 2, 3, 4, 60, 70, 1 << 40]) };
                // a table entry that announces a newer record pings again straight away
                if forced_ping.is_none() && ping_seq >= 60 && members.contains(&rq) && rq != p && rng.chance(2, 3) {
                    force_ping = Some(rq);
                    hist.add("c14:second_ping_while_record_request_pending");
                }
                if rq == p {
                    continue;
                }
                last_pinger = Some(rq);
                let addr = NodeAddress { socket_addr: sa, node_id: idents[rq].node_id() };
                let rid = gen_req_id(rng);
                let seq_now = b.s.local_enr.read().seq();
                let on_wire = Request { id: RequestId(rid.clone()), body: RequestBody::Ping { enr_seq: ping_seq } };
                if wire_request(&on_wire).as_ref() != Some(&on_wire) {
                    failures.push(("C14".to_string(), "a PING is refused (or altered) by the message decoder: it never reaches the service as sent and is not answered".to_string()));
                }
                b.inject(HandlerOut::Request(addr.clone(), Box::new(on_wire))).await;
                let msgs = b.drain();
                let pongs: Vec<(Vec<u8>, u64, IpAddr, u16)> = msgs
                    .iter()
                    .filter_map(|m| match m {
                        HandlerIn::Response(a, r) if a == &addr => match &r.body {
                            ResponseBody::Pong { enr_seq, ip, port } => Some((r.id.0.clone(), *enr_seq, *ip, port.get())),
                            _ => None,
                        },
                        _ => None,
                    })
                    .collect();
                // monitor: non-zero source port <=> exactly one PONG with the local seq and the observed source
                let ok = if port == 0 {
                    pongs.is_empty()
                } else {
                    pongs.len() == 1 && pongs[0] == (rid.clone(), seq_now, sa.ip(), port)
                };
                if !ok {
                    failures.push(("C14".to_string(), format!("PING from port {}: PONG does not carry the request id, local seq and observed source (got {} PONGs)", if port == 0 { "0" } else { "non-zero" }, pongs.len())));
                }
                hist.add(if port == 0 { "c14:ping_port_zero" } else { "c14:ping" });
                let ipn = |ip: &IpAddr| match ip {
                    IpAddr::V4(a) => a.octets().to_vec(),
                    IpAddr::V6(a) => a.octets().to_vec(),
                };
                let mut e = Enc::new();
                match pongs.first() {
                    Some((_, s, ip, pt)) => {
                        e.n(1).n(*s).0.push(coq_hex_raw(&ipn(ip)));
                        e.n(*pt as u64);
                    }
                    None => {
                        e.n(0);
                    }
                }
                while b.s.kbuckets.write().take_applied_pending().is_some() {}
                e.n(hash_table(&recs, &b.s.kbuckets.read()));
                fnv(&mut h, &format!("p{}", pongs.len()));
                descr.push(J::s(format!("PING from {}", sa)));
                steps.push(format!("(SPing {} {} {}, {})", coq_hex(&idents[rq].id), coq_hex_raw(&ipn(&sa.ip())), port, e.coq()));
            }
        }
        let sizes: Vec<String> = recs.list.iter().map(|r| format!("({}, {})", r.vid, r.size)).collect();
        let ktable = intern_end();
        let coq = format!(
            "(let K := fun i : N => nth (N.to_nat i) {} 0 in\n ({}, {}, ({}, {}), {}, {},\n ({}, {}),\n [{}]))",
            ktable,
            idx,
            coq_hex_raw(&local_id),
            recs.list[li].vid,
            local_enr.seq(),
            max_nodes,
            coq_list(&sizes),
            coq_list(&build),
            bhash,
            steps.join(";\n  ")
        );
        let sample = J::obj(vec![
            ("case", J::I(idx as i64)),
            ("local_ident", J::I(p as i64)),
            ("max_nodes_response", J::I(max_nodes as i64)),
            ("table_entries", J::I(content.len() as i64)),
            ("dual_stack_node_with_ipv4_only_ipv6_only_and_dual_records_in_its_table", J::B(family_mix)),
            ("populated_distances", J::A(populated.iter().map(|d| J::I(*d as i64)).collect())),
            ("steps", J::A(descr)),
        ]);
        CaseResult { coq: Some(coq), failures, nontrivial, canon: h, steps: steps.len(), sample }
    })
}

/// One-off experiment (not part of any check): `max_nodes_response` large enough for an answer of
/// 256 packets. The table is filled through the raw table API with arbitrary keys (as in kb.rs),
/// because 1280 node ids at 81 chosen distances cannot be produced from real keys.
/// Prints the largest datagram; see C14_packet_total_256_too_long.
pub fn margin_experiment(idents: &[Ident]) {
    let rt = runtime();
    rt.block_on(async {
        let mut rng = Rng::new(77);
        let mut recs = Recs::new(idents);
        let li = recs.get(&RecSpec { ident: 0, seq: 1, udp4: Some(([10, 0, 0, 1], 9000)), udp6: None, size: 0 });
        let mut cb = base_config(0);
        cb.max_nodes_response(5000);
        let mut b = Svc::new(recs.list[li].enr.clone(), idents[0].key(), cb.build()).await;
        let local_id = idents[0].id;
        let mut n = 0usize;
        for d in (170..=256u64).rev() {
            for j in 0..16usize {
                let key = id_at(&mut rng, &local_id, d);
                let ri = recs.get(&RecSpec { ident: 1 + (n % 600), seq: 1 + (n / 600) as u64, udp4: Some(([10, 1, (j % 200) as u8, (n % 250) as u8 + 1], 30303)), udp6: None, size: 235 });
                let _ = b.s.kbuckets.write().insert_or_update(&discv5::Key::from(NodeId::new(&key)), recs.list[ri].enr.clone(), status(true, false));
                n += 1;
            }
        }
        let ds: Vec<u64> = (170..=256u64).collect();
        let addr = NodeAddress { socket_addr: sock4([192, 168, 1, 7], 30303), node_id: idents[5].node_id() };
        let id = vec![0xc8, 1, 2, 3, 4, 5, 6, 7];
        b.inject(HandlerOut::Request(addr.clone(), Box::new(Request { id: RequestId(id), body: RequestBody::FindNode { distances: ds } }))).await;
        let msgs = b.drain();
        let served = collect_served(&msgs, &addr, &local_id, &mut rng);
        let maxw = served.packets.iter().map(|p| p.3).max().unwrap_or(0);
        let total = served.packets.first().map(|p| p.1).unwrap_or(0);
        let sizes: BTreeSet<usize> = recs.list.iter().map(|r| r.size).collect();
        println!(
            "c14margin: {} table entries of sizes {:?}, answer of {} packets (total field {}), largest datagram {} bytes (MAX_PACKET_SIZE {})",
            n,
            sizes,
            served.packets.len(),
            total,
            maxw,
            constants().0
        );
    });
}
