//! C12: routing-table admission and update policy.
use super::*;
use discv5::RequestError;
use std::num::NonZeroU16;

#[derive(Clone, Copy, PartialEq, Eq, Debug)]
enum ReqKind {
    Ping,
    FindNode,
    EnrRequest,
}

struct Outstanding {
    id: RequestId,
    ident: usize,
    addr: NodeAddress,
    kind: ReqKind,
    distances: Vec<u64>,
}

fn shape(rng: &mut Rng, ident: usize) -> RecSpec {
    let host = (ident % 250) as u8 + 1;
    let v4 = ([10, 0, 0, host], 30303u16);
    let v4_filtered = ([10, 0, 1, host], 30303u16);
    let v6 = ([0x20, 1, 0xd, 0xb8, 0, 0, 0, 0, 0, 0, 0, 0, 0, 0, 0, host], 9001u16);
    let mapped = ([0, 0, 0, 0, 0, 0, 0, 0, 0, 0, 0xff, 0xff, 10, 0, 0, host], 9001u16);
    let (udp4, udp6) = match rng.below(12) {
        0 => (None, None),
        1..=4 => (Some(v4), None),
        5 | 6 => (None, Some(v6)),
        7 | 8 => (Some(v4), Some(v6)),
        9 => (None, Some(mapped)),
        10 => (Some(v4_filtered), None),
        _ => (Some(v4), Some(mapped)),
    };
    RecSpec { ident, seq: *rng.pick(&[1u64, 2, 2, 3, 5, 100, 101]), udp4, udp6, size: 0 }
}

struct Ctx<'a, 'b> {
    a: Svc,
    recs: Recs<'a>,
    idents: &'a [Ident],
    mode: IpMode,
    filter: fn(&Enr) -> bool,
    local: usize,
    ip_limit: bool,
    outstanding: Vec<Outstanding>,
    steps: Vec<String>,
    failures: Vec<(String, String)>,
    now: u64,
    changes: usize,
    h: u64,
    descr: Vec<String>,
    hist: &'b mut Hist,
}

type Snapshot = Vec<(K32, Enr, bool)>; // key, record, is_pending

fn snapshot(t: &KBucketsTable<NodeId, Enr>) -> Snapshot {
    let (b, _) = dump_table(t);
    let mut v = vec![];
    for b in b {
        for n in b.nodes {
            v.push((n.key, n.enr, false));
        }
        if let Some(p) = b.pending {
            v.push((p.key, p.enr, true));
        }
    }
    v
}

impl<'a, 'b> Ctx<'a, 'b> {
    fn ident_of(&self, id: &NodeId) -> usize {
        self.idents.iter().position(|x| x.id == id.raw()).unwrap_or(usize::MAX)
    }

    /// Reads what the service sent to the handler; requests become outstanding. Returns the new
    /// outstanding requests' indices.
    fn absorb(&mut self) -> Vec<usize> {
        let mut new = vec![];
        for m in self.a.drain() {
            if let HandlerIn::Request(contact, r) = m {
                let ident = self.ident_of(&contact.node_id());
                let (kind, distances) = match &r.body {
                    RequestBody::Ping { .. } => (ReqKind::Ping, vec![]),
                    RequestBody::FindNode { distances } if distances == &vec![0] => (ReqKind::EnrRequest, distances.clone()),
                    RequestBody::FindNode { distances } => (ReqKind::FindNode, distances.clone()),
                    _ => continue,
                };
                new.push(self.outstanding.len());
                self.outstanding.push(Outstanding { id: r.id.clone(), ident, addr: contact.node_address(), kind, distances });
            }
        }
        new
    }

    /// The pending timeout of a bucket's candidate elapses (hook; `None`: no timeout elapses) and the
    /// table is accessed: a plain iteration applies every ready pending node. The queue of applied
    /// pending nodes is emptied before the table is hashed (the service loop takes from it whenever
    /// it runs, turning each entry into a NodeInserted event).
    fn pending_timeout_and_iteration(&mut self, force: Option<usize>) {
        if let Some(bucket) = force {
            let before = snapshot(&self.a.s.kbuckets.read());
            self.a.s.kbuckets.write().verif_force_pending_ready(bucket);
            self.hist.add("c12:op_pending_timeout");
            self.record(&before, format!("XReady {}", bucket), vec![], "pending_timeout", None, &[]);
        }
        let before = snapshot(&self.a.s.kbuckets.read());
        let _ = self.a.s.kbuckets.write().iter().count();
        while self.a.s.kbuckets.write().take_applied_pending().is_some() {}
        self.hist.add("c12:op_iteration");
        self.record(&before, "XIter".to_string(), vec![], "iteration", None, &[]);
        let after = snapshot(&self.a.s.kbuckets.read());
        if before.iter().filter(|x| x.2).count() > after.iter().filter(|x| x.2).count() {
            self.hist.add("c12:iteration_applied_or_dropped_a_pending_node");
        }
    }

    /// Records one model step: the operation, the observable part of its result and the table.
    fn record(&mut self, before: &Snapshot, op: String, obs: Vec<u64>, what: &str, allowed_new: Option<K32>, offered: &[usize]) {
        self.now += 1;
        let table = self.a.s.kbuckets.read().clone();
        let after = snapshot(&table);
        let mut e = Enc::new();
        for o in &obs {
            e.n(*o);
        }
        e.n(hash_table(&self.recs, &table));
        self.descr.push(format!("{}: {}", what, op));
        self.steps.push(format!("({}, {}, {})", op, self.now, e.coq()));
        fnv(&mut self.h, &format!("{}:{:?}:{}|", what.split(' ').next().unwrap_or(""), obs, after.len()));
        if before.len() != after.len() || before.iter().zip(after.iter()).any(|(x, y)| x.0 != y.0 || x.1 != y.1) {
            self.changes += 1;
        }
        self.monitor(before, &after, what, allowed_new, offered);
    }

    /// The direct C12 monitor, written from the property text.
    fn monitor(&mut self, before: &Snapshot, after: &Snapshot, what: &str, allowed_new: Option<K32>, offered: &[usize]) {
        let local_id = self.idents[self.local].id;
        // C16 (the service was configured with ip_limit, whatever its IP mode): at no time more than 10
        // nodes of one /24 in the table, nor more than 2 in a bucket
        if self.ip_limit {
            let mut per_table: std::collections::BTreeMap<[u8; 3], usize> = Default::default();
            let mut per_bucket: std::collections::BTreeMap<(u64, [u8; 3]), usize> = Default::default();
            for (k, e, pending) in after {
                if *pending {
                    continue;
                }
                if let Some(ip) = e.ip4() {
                    let o = ip.octets();
                    let sub = [o[0], o[1], o[2]];
                    *per_table.entry(sub).or_insert(0) += 1;
                    *per_bucket.entry((log2dist(&local_id, k), sub)).or_insert(0) += 1;
                }
            }
            if let Some((sub, n)) = per_table.iter().find(|(_, n)| **n > 10) {
                self.failures.push(("C16".into(), format!("with IP limiting configured the table holds {} nodes of {}.{}.{}.0/24 (after {})", n, sub[0], sub[1], sub[2], what.split(' ').next().unwrap_or("")).chars().map(|c| if c.is_ascii_digit() { '#' } else { c }).collect()));
            }
            if let Some(((_, sub), n)) = per_bucket.iter().find(|(_, n)| **n > 2) {
                self.failures.push(("C16".into(), format!("with IP limiting configured a bucket holds {} nodes of {}.{}.{}.0/24 (after {})", n, sub[0], sub[1], sub[2], what.split(' ').next().unwrap_or("")).chars().map(|c| if c.is_ascii_digit() { '#' } else { c }).collect()));
            }
        }
        let kind = what.split(' ').next().unwrap_or("").to_string();
        for (k, e, _) in after {
            // every entry is checked in the step in which it appears or changes
            if before.iter().any(|(k0, e0, _)| k0 == k && e0 == e) {
                continue;
            }
            if contactable(self.mode, e).is_none() {
                self.failures.push(("C12".into(), format!("table entry is not contactable in IP mode {:?} (after {})", self.mode, kind)));
            }
            if !(self.filter)(e) {
                self.failures.push(("C12".into(), format!("table entry is rejected by the configured table filter (after {})", kind)));
            }
            if *k == local_id || e.node_id().raw() == local_id {
                self.failures.push(("C12".into(), format!("the local node is a table entry (after {})", kind)));
            }
            if e.node_id().raw() != *k {
                self.failures.push(("C12".into(), format!("table entry stored under a key that is not its record's node id (after {})", kind)));
            }
            match before.iter().find(|(k0, _, _)| k0 == k) {
                None => {
                    // a new key: only through a session or an explicit add of that node
                    if allowed_new != Some(*k) {
                        self.failures.push(("C12".into(), format!("a node became a table entry in a step that is neither a session report nor an add by the user ({})", kind)));
                    }
                }
                Some((_, old, _)) => {
                    if old != e {
                        if kind == "discovered" {
                            // replaced by a record learnt from the network
                            if !(e.node_id() == old.node_id() && e.seq() > old.seq()) {
                                self.failures.push(("C12".into(), format!("a discovered record replaced a stored one without a strictly higher sequence number ({} over {})", e.seq(), old.seq())));
                            }
                            if !offered.iter().any(|i| &self.recs.list[*i].enr == e) {
                                self.failures.push(("C12".into(), "a stored record was replaced by one that was not in the answer".into()));
                            }
                        } else if kind == "established" || kind == "add_enr" {
                            if e.seq() < old.seq() {
                                self.hist.add("c12:observation_session_or_add_replaced_record_by_lower_seq");
                            }
                        } else {
                            self.failures.push(("C12".into(), format!("a stored record changed in a {} step", kind)));
                        }
                    }
                }
            }
        }
        if kind == "discovered" {
            // removal only when a newer record of that node fails the conditions
            for (k, old, pending) in before {
                if !after.iter().any(|(k1, _, _)| k1 == k) && !*pending {
                    let justified = offered.iter().any(|i| {
                        let r = &self.recs.list[*i].enr;
                        // (with ip_limit the routing table's own /24 filters may reject the newer
                        // record, in which case update_node drops the entry: C16's territory)
                        r.node_id().raw() == *k && r.seq() > old.seq() && (contactable(self.mode, r).is_none() || !(self.filter)(r) || self.ip_limit)
                    });
                    if !justified {
                        self.failures.push(("C12".into(), "an entry was removed by a discovered record that is not a newer, inadmissible record of that node".into()));
                    }
                }
            }
        }
    }
}

fn v4_host(ident: usize) -> ([u8; 4], u16) {
    ([10, 0, 0, (ident % 250) as u8 + 1], 30303)
}
fn v6_host(ident: usize) -> ([u8; 16], u16) {
    ([0x20, 1, 0xd, 0xb8, 0, 0, 0, 0, 0, 0, 0, 0, 0, 0, 0, (ident % 250) as u8 + 1], 9001)
}

/// Scripted opening of some cases with IP limiting (dual stack, accept-all table filter): every step is
/// a real service operation, recorded as a model step like the random operations are.
///  1. the bucket with the most identities is filled (add_enr) with 15 records that have only an IPv6
///     address and one record of 10.0.0.0/24 (not the bucket's head);
///  2. 9 nodes of other buckets (at most 2 per bucket) with records of 10.0.0.0/24 are added: the table
///     holds 10 nodes of that /24, the full bucket one of them;
///  3. a session with a 17th node of the full bucket (IPv6-only record): it becomes the pending candidate;
///  4. a lookup for the candidate's id; the first queried peer answers with a newer record of the
///     candidate that has an address in 10.0.0.0/24;
///  5. the candidate's pending timeout elapses (hook) and the table is iterated.
/// A step that cannot be set up ends the opening (never a failure).
async fn ip_limit_opening(c: &mut Ctx<'_, '_>) {
    let idents = c.idents;
    let local_id = idents[c.local].id;
    c.hist.add("c12:opening_attempted");
    let mut by_d: std::collections::BTreeMap<u64, Vec<usize>> = Default::default();
    for (i, x) in idents.iter().enumerate() {
        if i != c.local && x.id != local_id {
            by_d.entry(log2dist(&local_id, &x.id)).or_default().push(i);
        }
    }
    let (dmax, big) = match by_d.iter().max_by_key(|(d, v)| (v.len(), **d)) {
        Some((d, v)) => (*d, v.clone()),
        None => return,
    };
    let mut others: Vec<usize> = vec![];
    for (d, v) in by_d.iter().rev() {
        if *d != dmax {
            others.extend(v.iter().take(2));
        }
    }
    if big.len() < 17 || others.len() < 9 {
        c.hist.add("c12:opening_skipped_too_few_identities");
        return;
    }
    let bucket = (dmax - 1) as usize;
    // 1. + 2.: the user adds 16 + 9 nodes
    let mut adds: Vec<RecSpec> = vec![];
    for (n, i) in big.iter().take(16).enumerate() {
        adds.push(RecSpec { ident: *i, seq: 1, udp4: if n == 9 { Some(v4_host(*i)) } else { None }, udp6: Some(v6_host(*i)), size: 0 });
    }
    for i in others.iter().take(9) {
        adds.push(RecSpec { ident: *i, seq: 1, udp4: Some(v4_host(*i)), udp6: None, size: 0 });
    }
    for spec in &adds {
        let before = snapshot(&c.a.s.kbuckets.read());
        let ri = c.recs.get(spec);
        let enr = c.recs.list[ri].enr.clone();
        let code = add_code(c.a.s.discv5.add_enr(enr));
        let vid = c.recs.list[ri].vid;
        c.hist.add(&format!("c12:op_add_enr_{}", code));
        c.record(&before, format!("XAdd {}", vid), vec![code], "add_enr", Some(idents[spec.ident].id), &[ri]);
        if code != 0 {
            c.hist.add("c12:opening_ended_add_refused");
            return;
        }
    }
    {
        let (b, _) = dump_table(&c.a.s.kbuckets.read());
        let full = b.iter().any(|x| x.idx == bucket && x.nodes.len() == 16 && x.pending.is_none());
        let in24 = b.iter().flat_map(|x| x.nodes.iter()).filter(|n| n.enr.ip4().map(|ip| ip.octets()[..3] == [10, 0, 0]).unwrap_or(false)).count();
        if !full || in24 != 10 {
            c.hist.add("c12:opening_ended_table_not_as_planned");
            return;
        }
    }
    // 3. a session with the 17th node of the full bucket
    let cand = big[16];
    let cand_id = idents[cand].id;
    {
        let before = snapshot(&c.a.s.kbuckets.read());
        let ri = c.recs.get(&RecSpec { ident: cand, seq: 1, udp4: None, udp6: Some(v6_host(cand)), size: 0 });
        let enr = c.recs.list[ri].enr.clone();
        let sock = contactable(c.mode, &enr).unwrap_or(sock4([10, 0, 0, 99], 1));
        c.a.inject(HandlerOut::Established(enr, sock, ConnectionDirection::Outgoing)).await;
        let evs = c.a.events();
        let inserted = evs.iter().any(|e| matches!(e, Event::NodeInserted { node_id, replaced: None } if node_id.raw() == cand_id));
        c.absorb();
        let vid = c.recs.list[ri].vid;
        c.hist.add("c12:op_established");
        c.record(&before, format!("XEst {} {}", vid, coq_bool(false)), vec![inserted as u64], "established", Some(cand_id), &[ri]);
    }
    if !snapshot(&c.a.s.kbuckets.read()).iter().any(|(k, _, pending)| *k == cand_id && *pending) {
        c.hist.add("c12:opening_ended_candidate_not_pending");
        return;
    }
    // 4. a lookup for the candidate's id: the first queried peer answers with a newer record of the
    // candidate (the first distance a lookup requests from a peer is the peer's distance to the target)
    let handle = tokio::spawn(c.a.s.discv5.find_node(NodeId::new(&cand_id)));
    settle().await;
    let mut queue = c.absorb();
    let first = queue.iter().cloned().find(|oi| c.outstanding[*oi].kind == ReqKind::FindNode && c.outstanding[*oi].ident != usize::MAX);
    let mut answered = false;
    if let Some(oi) = first {
        let before = snapshot(&c.a.s.kbuckets.read());
        let o = &c.outstanding[oi];
        let (rid, src, addr, ds) = (o.id.clone(), o.ident, o.addr.clone(), o.distances.clone());
        let src_id = idents[src].id;
        if ds.contains(&log2dist(&src_id, &cand_id)) {
            let ri = c.recs.get(&RecSpec { ident: cand, seq: 2, udp4: Some(v4_host(cand)), udp6: Some(v6_host(cand)), size: 0 });
            let enr = c.recs.list[ri].enr.clone();
            c.a.inject(HandlerOut::Response(addr, Box::new(Response { id: rid, body: ResponseBody::Nodes { total: 1, nodes: vec![enr.clone()] } }))).await;
            let _ = c.a.events();
            c.outstanding[oi].kind = ReqKind::Ping; // consumed (never used again)
            c.outstanding[oi].id = RequestId(vec![]);
            queue.extend(c.absorb());
            let vid = c.recs.list[ri].vid;
            c.hist.add("c12:op_discovered");
            c.record(&before, format!("XDisc {} [{}]", coq_hex(&src_id), vid), vec![], "discovered", None, &[ri]);
            answered = true;
            // what became of the candidate (observation, not a check)
            let after = snapshot(&c.a.s.kbuckets.read());
            c.hist.add(match after.iter().find(|(k, _, _)| *k == cand_id) {
                None => "c12:opening_newer_record_of_pending_candidate_candidate_removed",
                Some((_, e, true)) if *e == enr => "c12:opening_newer_record_of_pending_candidate_stored",
                Some((_, _, true)) => "c12:opening_newer_record_of_pending_candidate_refused_candidate_kept_with_old_record",
                Some((_, _, false)) => "c12:opening_newer_record_of_pending_candidate_candidate_promoted",
            });
        }
    }
    // the lookup is brought to its end: its other requests fail (a running lookup keeps the records of
    // the table entries it started from, which the service consults besides the table); the candidate
    // itself, should it be asked, answers with no records
    let mut guard = 0;
    while let Some(oi) = queue.first().cloned() {
        queue.remove(0);
        guard += 1;
        if guard > 80 {
            break;
        }
        if c.outstanding[oi].kind != ReqKind::FindNode || c.outstanding[oi].id.0.is_empty() || c.outstanding[oi].ident == usize::MAX {
            continue;
        }
        let before = snapshot(&c.a.s.kbuckets.read());
        let o = &c.outstanding[oi];
        let (rid, src, addr) = (o.id.clone(), o.ident, o.addr.clone());
        let src_id = idents[src].id;
        if src == cand {
            c.a.inject(HandlerOut::Response(addr, Box::new(Response { id: rid, body: ResponseBody::Nodes { total: 1, nodes: vec![] } }))).await;
            c.outstanding[oi].kind = ReqKind::Ping;
            c.outstanding[oi].id = RequestId(vec![]);
            queue.extend(c.absorb());
            c.hist.add("c12:op_discovered");
            c.record(&before, format!("XDisc {} []", coq_hex(&src_id)), vec![], "discovered", None, &[]);
        } else {
            c.a.inject(HandlerOut::RequestFailed(rid, RequestError::Timeout)).await;
            c.outstanding[oi].id = RequestId(vec![]);
            queue.extend(c.absorb());
            c.hist.add("c12:op_failure");
            c.record(&before, format!("XFailure {}", coq_hex(&src_id)), vec![], "failure", None, &[]);
        }
    }
    settle().await;
    if !handle.is_finished() {
        c.hist.add("c12:opening_lookup_left_running");
        handle.abort();
    }
    c.outstanding.retain(|o| !o.id.0.is_empty());
    if !answered {
        c.hist.add("c12:opening_ended_no_lookup_request");
        return;
    }
    // 5. the pending timeout elapses and the table is accessed
    c.pending_timeout_and_iteration(Some(bucket));
    c.hist.add("c12:opening_full_scenario");
    let after = snapshot(&c.a.s.kbuckets.read());
    c.hist.add(match after.iter().find(|(k, _, _)| *k == cand_id) {
        Some((_, e, false)) if e.seq() == 2 => "c12:opening_candidate_promoted_with_newer_record",
        Some((_, _, false)) => "c12:opening_candidate_promoted_with_old_record",
        Some((_, _, true)) => "c12:opening_candidate_still_pending",
        None => "c12:opening_candidate_dropped",
    });
}

fn add_code(r: Result<(), &'static str>) -> u64 {
    match r {
        Ok(()) => 0,
        Err("ENR has no compatible UDP socket to connect to") => 1,
        Err("ENR banned by table filter") => 2,
        Err("Table full") => 3,
        Err("Failed bucket filter") => 4,
        Err("Failed table filter") => 5,
        Err("Invalid self update") => 6,
        Err(_) => 7,
    }
}

pub fn run_case(idents: &[Ident], idx: u64, rng: &mut Rng, thorough: bool, hist: &mut Hist) -> CaseResult {
    let rt = runtime();
    rt.block_on(async {
        intern_begin();
        let mode_n = rng.below(3);
        let filter_n = *rng.pick(&[0u64, 0, 1, 2, 2, 3, 3]);
        let ip_limit = rng.chance(1, 6) || FORCE_IP_LIMIT.load(std::sync::atomic::Ordering::SeqCst);
        // with IP limiting forced ("c12ip") one case out of four starts with a scripted opening, in dual
        // stack mode (records with only an IPv6 address are contactable and outside the /24 rules)
        // with the accept-all table filter
        let scripted = FORCE_IP_LIMIT.load(std::sync::atomic::Ordering::SeqCst) && idx % 4 == 1;
        let (mode_n, filter_n) = if scripted { (2, 0) } else { (mode_n, filter_n) };
        let mode = [IpMode::Ip4, IpMode::Ip6, IpMode::DualStack][mode_n as usize];
        let mut recs = Recs::new(idents);
        // the actors of this case
        let mut actors: Vec<usize> = vec![];
        while actors.len() < 12 {
            let i = rng.below(idents.len() as u64) as usize;
            if !actors.contains(&i) {
                actors.push(i);
            }
        }
        let local = actors[0];
        let local_spec = RecSpec {
            ident: local,
            seq: 1,
            udp4: if mode_n != 1 { Some(([127, 0, 0, 1], 9000)) } else { None },
            udp6: if mode_n != 0 { Some(([0, 0, 0, 0, 0, 0, 0, 0, 0, 0, 0, 0, 0, 0, 0, 1], if mode_n == 1 { 9000 } else { 9001 })) } else { None },
            size: 0,
        };
        let li = recs.get(&local_spec);
        // a third of the cases hand the service sockets the application created itself (same modes)
        let from_sockets = rng.chance(1, 3);
        let mut cb = base_config(if from_sockets { mode_n + 3 } else { mode_n });
        cb.table_filter(table_filter(filter_n));
        if ip_limit {
            cb.ip_limit();
        }
        let a = Svc::new(recs.list[li].enr.clone(), idents[local].key(), cb.build()).await;
        ban_clear();
        let mut c = Ctx {
            a,
            recs,
            idents,
            mode,
            filter: table_filter(filter_n),
            local,
            ip_limit,
            outstanding: vec![],
            steps: vec![],
            failures: vec![],
            now: 0,
            changes: 0,
            h: 1469598103934665603,
            descr: vec![],
            hist,
        };
        if c.a.s.ip_mode != mode {
            c.failures.push(("C12".into(), "the service does not run in the configured IP mode".into()));
        }
        c.hist.add(&format!("c12:mode_{:?}{}", mode, if from_sockets { "_from_sockets" } else { "" }));
        c.hist.add(&format!("c12:filter_{}", ["accept_all", "reject_all", "reject_subnet", "reject_seq_ge_100"][filter_n as usize]));
        let nsteps = if thorough { rng.range(30, 70) } else { rng.range(18, 40) };
        if scripted && c.a.alive() {
            ip_limit_opening(&mut c).await;
        }
        for _ in 0..nsteps {
            if !c.a.alive() {
                c.failures.push(("C12".into(), "the service task ended (panic)".into()));
                break;
            }
            let before = snapshot(&c.a.s.kbuckets.read());
            let pick_actor = |rng: &mut Rng| -> usize {
                // the local identity itself now and then
                if rng.chance(1, 25) {
                    local
                } else {
                    actors[1 + rng.below(actors.len() as u64 - 1) as usize]
                }
            };
            match rng.weighted(&[30, 12, 12, 10, 10, 8, 4, 6, 8, 3]) {
                0 => {
                    // session established
                    let i = pick_actor(rng);
                    let ri = c.recs.get(&shape(rng, i));
                    let enr = c.recs.list[ri].enr.clone();
                    let incoming = rng.chance(1, 2);
                    let sock = contactable(mode, &enr).unwrap_or(sock4([10, 0, 0, 99], 1));
                    let dir = if incoming { ConnectionDirection::Incoming } else { ConnectionDirection::Outgoing };
                    c.a.inject(HandlerOut::Established(enr.clone(), sock, dir)).await;
                    let evs = c.a.events();
                    let inserted = evs.iter().any(|e| matches!(e, Event::NodeInserted { node_id, replaced: None } if node_id.raw() == idents[i].id));
                    c.absorb();
                    let vid = c.recs.list[ri].vid;
                    c.hist.add("c12:op_established");
                    c.record(&before, format!("XEst {} {}", vid, coq_bool(incoming)), vec![inserted as u64], "established", Some(idents[i].id), &[ri]);
                }
                1 => {
                    // add_enr by the user
                    let i = pick_actor(rng);
                    let ri = c.recs.get(&shape(rng, i));
                    let enr = c.recs.list[ri].enr.clone();
                    let code = add_code(c.a.s.discv5.add_enr(enr));
                    let vid = c.recs.list[ri].vid;
                    c.hist.add(&format!("c12:op_add_enr_{}", code));
                    c.record(&before, format!("XAdd {}", vid), vec![code], "add_enr", Some(idents[i].id), &[ri]);
                }
                2 => {
                    // a lookup: NODES answers reach discovered(), the other requests fail
                    if before.is_empty() {
                        continue;
                    }
                    let target = {
                        let b = rng.bytes(32);
                        let mut t = [0u8; 32];
                        t.copy_from_slice(&b);
                        t
                    };
                    let handle = tokio::spawn(c.a.s.discv5.find_node(NodeId::new(&target)));
                    settle().await;
                    let mut queue: Vec<usize> = c.absorb();
                    let mut answered = 0;
                    let mut guard = 0;
                    while let Some(oi) = queue.first().cloned() {
                        queue.remove(0);
                        guard += 1;
                        if guard > 80 {
                            break;
                        }
                        if c.outstanding[oi].kind != ReqKind::FindNode {
                            continue;
                        }
                        let before = snapshot(&c.a.s.kbuckets.read());
                        let o = &c.outstanding[oi];
                        let (rid, src, addr, ds) = (o.id.clone(), o.ident, o.addr.clone(), o.distances.clone());
                        if src == usize::MAX {
                            continue;
                        }
                        let src_id = idents[src].id;
                        if answered < 2 && rng.chance(2, 3) {
                            answered += 1;
                            // records at the requested distances from the responder, all shapes
                            let mut offered: Vec<usize> = vec![];
                            for _ in 0..rng.range(1, 6) {
                                let i = pick_actor(rng);
                                if ds.contains(&log2dist(&src_id, &idents[i].id)) {
                                    offered.push(c.recs.get(&shape(rng, i)));
                                }
                            }
                            let nodes: Vec<Enr> = offered.iter().map(|i| c.recs.list[*i].enr.clone()).collect();
                            c.a.inject(HandlerOut::Response(addr, Box::new(Response { id: rid, body: ResponseBody::Nodes { total: 1, nodes } }))).await;
                            let evs: Vec<u64> = c.a.events().into_iter().filter_map(|e| match e { Event::Discovered(r) => Some(c.recs.vid_of(&r)), _ => None }).collect();
                            let expect_evs: Vec<u64> = offered.iter().filter(|i| c.recs.id_of(**i) != idents[local].id).map(|i| c.recs.list[*i].vid).collect();
                            if evs != expect_evs {
                                c.failures.push(("C12".into(), "the records of an on-distance NODES answer were not all reported as discovered".into()));
                            }
                            c.outstanding[oi].kind = ReqKind::Ping; // consumed (never used again)
                            c.outstanding[oi].id = RequestId(vec![]);
                            queue.extend(c.absorb());
                            let vs: Vec<String> = offered.iter().map(|i| c.recs.list[*i].vid.to_string()).collect();
                            c.hist.add("c12:op_discovered");
                            c.record(&before, format!("XDisc {} {}", coq_hex(&src_id), coq_list(&vs)), vec![], "discovered", None, &offered);
                        } else {
                            c.a.inject(HandlerOut::RequestFailed(rid, RequestError::Timeout)).await;
                            c.outstanding[oi].id = RequestId(vec![]);
                            queue.extend(c.absorb());
                            c.hist.add("c12:op_failure");
                            c.record(&before, format!("XFailure {}", coq_hex(&src_id)), vec![], "failure", None, &[]);
                        }
                    }
                    settle().await;
                    if !handle.is_finished() {
                        c.hist.add("c12:lookup_left_running");
                        handle.abort();
                    } else {
                        c.hist.add("c12:lookup_finished");
                    }
                    c.outstanding.retain(|o| !o.id.0.is_empty());
                }
                3 => {
                    // PONG for one of the service's own pings
                    let cand: Vec<usize> = (0..c.outstanding.len()).filter(|i| c.outstanding[*i].kind == ReqKind::Ping).collect();
                    if cand.is_empty() {
                        continue;
                    }
                    let oi = *rng.pick(&cand);
                    let o = c.outstanding.remove(oi);
                    let seq = *rng.pick(&[0u64, 1, 2, 3, 4, 6, 101, 102]);
                    let (ip, port) = (IpAddr::V4(Ipv4Addr::new(203, 0, 113, 5)), NonZeroU16::new(9000).unwrap());
                    c.a.inject(HandlerOut::Response(o.addr.clone(), Box::new(Response { id: o.id.clone(), body: ResponseBody::Pong { enr_seq: seq, ip, port } }))).await;
                    let new = c.absorb();
                    let wanted = new.iter().any(|i| c.outstanding[*i].kind == ReqKind::EnrRequest && c.outstanding[*i].ident == o.ident);
                    let _ = c.a.events();
                    c.hist.add("c12:op_pong");
                    c.record(&before, format!("XPong {} {}", coq_hex(&idents[o.ident].id), seq), vec![wanted as u64], "pong", None, &[]);
                }
                4 => {
                    // a request of the service fails
                    if c.outstanding.is_empty() {
                        continue;
                    }
                    let oi = rng.below(c.outstanding.len() as u64) as usize;
                    let o = c.outstanding.remove(oi);
                    c.a.inject(HandlerOut::RequestFailed(o.id.clone(), RequestError::Timeout)).await;
                    c.absorb();
                    c.hist.add("c12:op_failure");
                    c.record(&before, format!("XFailure {}", coq_hex(&idents[o.ident].id)), vec![], "failure", None, &[]);
                }
                5 => {
                    // PING from a node (known or not)
                    let i = pick_actor(rng);
                    if i == local {
                        continue;
                    }
                    let seq = *rng.pick(&[0u64, 1, 2, 3, 4, 6, 101, 102]);
                    let addr = NodeAddress { socket_addr: sock4([10, 0, 0, (i % 250) as u8 + 1], 30303), node_id: idents[i].node_id() };
                    c.a.inject(HandlerOut::Request(addr.clone(), Box::new(Request { id: RequestId(vec![1, 2, 3]), body: RequestBody::Ping { enr_seq: seq } }))).await;
                    let new = c.absorb();
                    let wanted = new.iter().any(|k| c.outstanding[*k].kind == ReqKind::EnrRequest && c.outstanding[*k].ident == i);
                    c.hist.add("c12:op_ping_request");
                    c.record(&before, format!("XPing {} {}", coq_hex(&idents[i].id), seq), vec![wanted as u64], "ping", None, &[]);
                }
                6 => {
                    // the handler reports an unverifiable record
                    let i = pick_actor(rng);
                    // the reported record is the peer's own, or (the peer handed over a record that
                    // is not its own) the record of another node: only the peer itself is affected
                    let j = if rng.chance(1, 3) { pick_actor(rng) } else { i };
                    let ri = c.recs.get(&shape(rng, j));
                    let enr = c.recs.list[ri].enr.clone();
                    let had_j = snapshot(&c.a.s.kbuckets.read()).iter().any(|(k, _, _)| *k == idents[j].id);
                    c.a.inject(HandlerOut::UnverifiableEnr { enr, socket: sock4([10, 0, 0, 77], 30303), node_id: idents[i].node_id() }).await;
                    c.absorb();
                    if j != i {
                        c.hist.add("c12:op_unverifiable_with_foreign_record");
                        let has_j = snapshot(&c.a.s.kbuckets.read()).iter().any(|(k, _, _)| *k == idents[j].id);
                        if had_j && !has_j {
                            c.failures.push(("C01".into(), "the routing-table entry of a node that took no part in the handshake was removed because another peer presented its record".into()));
                        }
                    }
                    c.hist.add("c12:op_unverifiable");
                    c.record(&before, format!("XUnv {}", coq_hex(&idents[i].id)), vec![], "unverifiable", None, &[]);
                }
                7 => {
                    // user calls: remove_node / disconnect_node
                    let i = pick_actor(rng);
                    if rng.chance(1, 2) {
                        let _ = c.a.s.discv5.remove_node(&idents[i].node_id());
                        c.hist.add("c12:op_remove_node");
                        c.record(&before, format!("XUnv {}", coq_hex(&idents[i].id)), vec![], "remove_node", None, &[]);
                    } else {
                        let _ = c.a.s.discv5.disconnect_node(&idents[i].node_id());
                        c.hist.add("c12:op_disconnect_node");
                        c.record(&before, format!("XDisconnect {}", coq_hex(&idents[i].id)), vec![], "disconnect_node", None, &[]);
                    }
                }
                8 => {
                    // answer an ENR request with the peer's own (possibly newer) record
                    let cand: Vec<usize> = (0..c.outstanding.len()).filter(|i| c.outstanding[*i].kind == ReqKind::EnrRequest).collect();
                    if cand.is_empty() {
                        continue;
                    }
                    let oi = *rng.pick(&cand);
                    let o = c.outstanding.remove(oi);
                    let ri = c.recs.get(&shape(rng, o.ident));
                    let enr = c.recs.list[ri].enr.clone();
                    c.a.inject(HandlerOut::Response(o.addr.clone(), Box::new(Response { id: o.id.clone(), body: ResponseBody::Nodes { total: 1, nodes: vec![enr] } }))).await;
                    c.absorb();
                    let _ = c.a.events();
                    let vid = c.recs.list[ri].vid;
                    c.hist.add("c12:op_enr_update_answer");
                    c.record(&before, format!("XDisc {} [{}]", coq_hex(&idents[o.ident].id), vid), vec![], "discovered", None, &[ri]);
                }
                _ => {
                    // the ping interval elapses: connected peers are pinged (no table operation; the
                    // routing table reads std::time::Instant, which the paused tokio clock does not move:
                    // a pending node's timeout does not elapse here)
                    tokio::time::advance(std::time::Duration::from_secs(301)).await;
                    settle().await;
                    let n = c.absorb().len();
                    c.hist.add(if n > 0 { "c12:ping_interval_pings" } else { "c12:ping_interval_idle" });
                    let after = snapshot(&c.a.s.kbuckets.read());
                    if after.len() != before.len() {
                        c.failures.push(("C12".into(), "the table changed while only time passed".into()));
                    }
                }
            }
            // keep one failure per description and go on: the later steps still exercise the model
            let mut seen = BTreeSet::new();
            c.failures.retain(|f| seen.insert(f.1.clone()));
            if c.failures.len() > 6 {
                break;
            }
        }
        let rtable = c.recs.coq();
        let ktable = intern_end();
        let coq = format!(
            "(let K := fun i : N => nth (N.to_nat i) {} 0 in\n ({}, ({}, {}, {}, {}),\n {},\n [{}]))",
            ktable,
            idx,
            mode_n,
            filter_n,
            coq_bool(ip_limit),
            coq_hex_raw(&idents[local].id),
            rtable,
            c.steps.join(";\n  ")
        );
        let sample = J::obj(vec![
            ("case", J::I(idx as i64)),
            ("ip_mode", J::s(format!("{:?}", mode))),
            ("table_filter", J::s(["accept_all", "reject_all", "reject_subnet_10.0.1.0/24", "reject_seq_ge_100"][filter_n as usize])),
            ("ip_limit", J::B(ip_limit)),
            ("steps", J::A(c.descr.iter().map(|d| J::s(d.clone())).collect())),
        ]);
        let nontrivial = c.changes >= 3;
        CaseResult { coq: Some(coq), failures: c.failures, nontrivial, canon: c.h, steps: c.steps.len(), sample }
    })
}
