//! C12: routing-table admission and update policy.
use super::*;
use discv5::RequestError;
use std::num::NonZeroU16;

#[derive(Clone, Copy, PartialEq, Eq, Debug)]
enum ReqKind {
    Ping,
    FindNode,
    EnrRequest,
}

struct Outstanding {
    id: RequestId,
    ident: usize,
    addr: NodeAddress,
    kind: ReqKind,
    distances: Vec<u64>,
}

fn shape(rng: &mut Rng, ident: usize) -> RecSpec {
    let host = (ident % 250) as u8 + 1;
    let v4 = ([10, 0, 0, host], 30303u16);
    let v4_filtered = ([10, 0, 1, host], 30303u16);
    let v6 = ([0x20, 1, 0xd, 0xb8, 0, 0, 0, 0, 0, 0, 0, 0, 0, 0, 0, host], 9001u16);
    let mapped = ([0, 0, 0, 0, 0, 0, 0, 0, 0, 0, 0xff, 0xff, 10, 0, 0, host], 9001u16);
    let (udp4, udp6) = match rng.below(12) {
        0 => (None, None),
        1..=4 => (Some(v4), None),
        5 | 6 => (None, Some(v6)),
        7 | 8 => (Some(v4), Some(v6)),
        9 => (None, Some(mapped)),
        10 => (Some(v4_filtered), None),
        _ => (Some(v4), Some(mapped)),
    };
    RecSpec { ident, seq: *rng.pick(&[1u64, 2, 2, 3, 5, 100, 101]), udp4, udp6, size: 0 }
}

/// The running lookup, as far as the harness can follow it from outside.
struct Lookup {
    /// the records the query holds (`untrusted_enrs`), in the order the service scans them: the table's
    /// entries at the start (by distance to the target), then the records of accepted NODES answers
    /// whose node id was new to the list
    untrusted: Vec<usize>,
    /// false: the list above is not known exactly any more
    exact: bool,
    /// every record the query may hold (a superset of `untrusted`)
    maybe: Vec<usize>,
    /// the candidates the query has learnt of: the 16 entries closest to the target at the start, then
    /// the ids reported to it with accepted answers
    candidates: Vec<K32>,
    /// the nodes a FINDNODE of this lookup was addressed to
    contacted: BTreeSet<K32>,
}

struct Ctx<'a, 'b> {
    a: Svc,
    recs: Recs<'a>,
    idents: &'a [Ident],
    mode: IpMode,
    filter: fn(&Enr) -> bool,
    local: usize,
    ip_limit: bool,
    outstanding: Vec<Outstanding>,
    /// answers of the service to who-are-you queries (filled by `absorb`)
    who_answers: Vec<(NodeAddress, Option<Enr>)>,
    lookup: Option<Lookup>,
    /// a lookup was left running: what the queries hold is not known any more
    inexact: bool,
    steps: Vec<String>,
    failures: Vec<(String, String)>,
    now: u64,
    changes: usize,
    h: u64,
    descr: Vec<String>,
    hist: &'b mut Hist,
}

type Snapshot = Vec<(K32, Enr, bool)>; // key, record, is_pending

fn snapshot(t: &KBucketsTable<NodeId, Enr>) -> Snapshot {
    let (b, _) = dump_table(t);
    let mut v = vec![];
    for b in b {
        for n in b.nodes {
            v.push((n.key, n.enr, false));
        }
        if let Some(p) = b.pending {
            v.push((p.key, p.enr, true));
        }
    }
    v
}

impl<'a, 'b> Ctx<'a, 'b> {
    fn ident_of(&self, id: &NodeId) -> usize {
        self.idents.iter().position(|x| x.id == id.raw()).unwrap_or(usize::MAX)
    }

    /// Reads what the service sent to the handler; requests become outstanding. Returns the new
    /// outstanding requests' indices.
    fn absorb(&mut self) -> Vec<usize> {
        let mut new = vec![];
        for m in self.a.drain() {
            match m {
                HandlerIn::Request(contact, r) => {
                    let ident = self.ident_of(&contact.node_id());
                    let (kind, distances) = match &r.body {
                        RequestBody::Ping { .. } => (ReqKind::Ping, vec![]),
                        RequestBody::FindNode { distances } if distances == &vec![0] => (ReqKind::EnrRequest, distances.clone()),
                        RequestBody::FindNode { distances } => (ReqKind::FindNode, distances.clone()),
                        _ => continue,
                    };
                    if kind == ReqKind::FindNode {
                        self.lookup_request(&contact);
                    }
                    new.push(self.outstanding.len());
                    self.outstanding.push(Outstanding { id: r.id.clone(), ident, addr: contact.node_address(), kind, distances });
                }
                HandlerIn::WhoAreYou(r, e) => self.who_answers.push((r.0.clone(), e)),
                _ => {}
            }
        }
        new
    }

    fn ri_of(&self, e: &Enr) -> Option<usize> {
        match self.recs.vid_of(e) {
            0 => None,
            v => Some(v as usize - 1),
        }
    }

    /// A lookup is about to be started: the query copies the records of all table entries, ordered by
    /// distance to the target; its first candidates are the 16 closest of them.
    fn lookup_started(&mut self, target: &K32) {
        let snap = snapshot(&self.a.s.kbuckets.read());
        let mut entries: Vec<(K32, K32, Option<usize>)> = snap.iter().filter(|x| !x.2).map(|(k, e, _)| (xor(k, target), *k, self.ri_of(e))).collect();
        entries.sort();
        let exact = entries.iter().all(|x| x.2.is_some()) && !self.inexact;
        let untrusted: Vec<usize> = entries.iter().filter_map(|x| x.2).collect();
        self.lookup = Some(Lookup {
            maybe: untrusted.clone(),
            untrusted,
            exact,
            candidates: entries.iter().take(16).map(|x| x.1).collect(),
            contacted: BTreeSet::new(),
        });
        progress_lookup(true);
        progress("lookup started");
    }

    /// The lookup's future was polled after the last event: `Some(n)`: it has handed n records to the
    /// caller; `None`: it is still running (its query stays in the service's pool).
    fn lookup_ended(&mut self, result: Option<usize>) {
        let lk = match self.lookup.take() {
            Some(lk) => lk,
            None => return,
        };
        match result {
            Some(n) => {
                progress_lookup(false);
                progress("lookup ended");
                // C10: "If fewer than k nodes are returned and the lookup was not cut off by the query
                // timeout, every candidate it learned of was contacted" (the query timeout runs on
                // std::time::Instant: it never elapses inside a case). Contacted = a FINDNODE for the
                // candidate was handed to the handler.
                if n < 16 {
                    let missed = lk.candidates.iter().filter(|k| !lk.contacted.contains(*k)).count();
                    if missed > 0 {
                        self.failures.push((
                            "C10".into(),
                            format!("a lookup ended with {} (fewer than 16) results without a timeout although {} of the {} candidates it had learnt of were never sent a request", n, missed, lk.candidates.len())
                                .chars()
                                .map(|c| if c.is_ascii_digit() { '#' } else { c })
                                .collect(),
                        ));
                    }
                    self.hist.add("c12:lookup_short_result_all_candidates_checked");
                }
            }
            None => {
                self.inexact = true;
            }
        }
    }

    /// A FINDNODE of a lookup was handed to the handler. The record it is addressed with is the
    /// service's current knowledge of that peer (`find_enr`): for a table entry the stored record - never
    /// an older copy a query still holds or a peer replayed (C12: a record learnt from the network
    /// replaces the stored one only with a strictly higher sequence number; the handler opens the session
    /// with the record it is given and reports it back as the session's record).
    fn lookup_request(&mut self, contact: &NodeContact) {
        let id = contact.node_id().raw();
        let stored = snapshot(&self.a.s.kbuckets.read()).into_iter().find(|(k, _, p)| *k == id && !*p).map(|x| x.1);
        if let Some(lk) = self.lookup.as_mut() {
            lk.contacted.insert(id);
        }
        let e = match contact.enr() {
            Some(e) => e,
            None => return,
        };
        if e.node_id().raw() != id {
            self.failures.push(("C01".into(), "a lookup request for node X was addressed with the record of another node".into()));
        }
        match stored {
            Some(r) => {
                if r != e {
                    self.failures.push((
                        "C12".into(),
                        format!("a lookup request to a table entry was addressed with a record of that node (seq {}) that is not the stored one (seq {})", e.seq(), r.seq()),
                    ));
                }
            }
            None => {
                // not an entry: the first record of that node the lookup holds (harness-side tracking is
                // validated here, a disagreement is not a property violation)
                let ri = self.ri_of(&e);
                if let Some(lk) = self.lookup.as_mut() {
                    if lk.exact {
                        let first = lk.untrusted.iter().find(|r| self.recs.idents[self.recs.list[**r].spec.ident].id == id).cloned();
                        if first != ri || ri.is_none() {
                            lk.exact = false;
                            self.hist.add("c12:observation_lookup_record_tracking_disagrees");
                        }
                    }
                }
            }
        }
    }

    /// What `Service::discovered` does with the records of an accepted NODES answer to a request of the
    /// running lookup, re-stated from its description: the local record is skipped; a record that passes
    /// the table filter and is contactable is kept (after updating a stored older record; if the routing
    /// table refuses that update it is dropped); the responder's own record is not reported; a kept
    /// record is added to the query's list unless the list has a record of that node already.
    fn track_discovered(&mut self, before: &Snapshot, src: &K32, offered: &[usize]) {
        let mut lk = match self.lookup.take() {
            Some(lk) => lk,
            None => return,
        };
        let after = snapshot(&self.a.s.kbuckets.read());
        let local_id = self.idents[self.local].id;
        let mut cur: HashMap<K32, Option<Enr>> = HashMap::new();
        for (pos, ri) in offered.iter().enumerate() {
            lk.maybe.push(*ri);
            let e = self.recs.list[*ri].enr.clone();
            let id = e.node_id().raw();
            if id == local_id {
                continue;
            }
            let stored = cur.entry(id).or_insert_with(|| before.iter().find(|x| x.0 == id).map(|x| x.1.clone())).clone();
            let newer = stored.as_ref().map(|o| o.seq() < e.seq()).unwrap_or(false);
            let keep;
            if (self.filter)(&e) && contactable(self.mode, &e).is_some() {
                if newer {
                    // without IP limiting the table accepts every update of a stored record
                    let accepted = if !self.ip_limit {
                        true
                    } else if offered[pos + 1..].iter().any(|r| self.recs.id_of(*r) == id) {
                        lk.exact = false; // the intermediate table is not visible from outside
                        true
                    } else {
                        after.iter().any(|x| x.0 == id && x.1 == e)
                    };
                    if accepted {
                        cur.insert(id, Some(e.clone()));
                    } else {
                        cur.insert(id, after.iter().find(|x| x.0 == id).map(|x| x.1.clone()));
                    }
                    keep = accepted;
                } else {
                    keep = true;
                }
            } else {
                if newer {
                    cur.insert(id, None);
                }
                keep = false;
            }
            if keep && id != *src {
                if !lk.untrusted.iter().any(|r| self.recs.id_of(*r) == id) {
                    lk.untrusted.push(*ri);
                }
                if lk.exact && !lk.candidates.contains(&id) {
                    lk.candidates.push(id);
                }
            }
        }
        self.lookup = Some(lk);
    }

    /// The pending timeout of a bucket's candidate elapses (hook; `None`: no timeout elapses) and the
    /// table is accessed: a plain iteration applies every ready pending node. The queue of applied
    /// pending nodes is emptied before the table is hashed (the service loop takes from it whenever
    /// it runs, turning each entry into a NodeInserted event).
    fn pending_timeout_and_iteration(&mut self, force: Option<usize>) {
        if let Some(bucket) = force {
            let before = snapshot(&self.a.s.kbuckets.read());
            self.a.s.kbuckets.write().verif_force_pending_ready(bucket);
            self.hist.add("c12:op_pending_timeout");
            self.record(&before, format!("XReady {}", bucket), vec![], "pending_timeout", None, &[]);
        }
        let before = snapshot(&self.a.s.kbuckets.read());
        let _ = self.a.s.kbuckets.write().iter().count();
        while self.a.s.kbuckets.write().take_applied_pending().is_some() {}
        self.hist.add("c12:op_iteration");
        self.record(&before, "XIter".to_string(), vec![], "iteration", None, &[]);
        let after = snapshot(&self.a.s.kbuckets.read());
        if before.iter().filter(|x| x.2).count() > after.iter().filter(|x| x.2).count() {
            self.hist.add("c12:iteration_applied_or_dropped_a_pending_node");
        }
    }

    /// Records one model step: the operation, the observable part of its result and the table.
    fn record(&mut self, before: &Snapshot, op: String, obs: Vec<u64>, what: &str, allowed_new: Option<K32>, offered: &[usize]) {
        self.now += 1;
        let table = self.a.s.kbuckets.read().clone();
        let after = snapshot(&table);
        let mut e = Enc::new();
        for o in &obs {
            e.n(*o);
        }
        e.n(hash_table(&self.recs, &table));
        self.descr.push(format!("{}: {}", what, op));
        self.steps.push(format!("({}, {}, {})", op, self.now, e.coq()));
        fnv(&mut self.h, &format!("{}:{:?}:{}|", what.split(' ').next().unwrap_or(""), obs, after.len()));
        if before.len() != after.len() || before.iter().zip(after.iter()).any(|(x, y)| x.0 != y.0 || x.1 != y.1) {
            self.changes += 1;
        }
        self.monitor(before, &after, what, allowed_new, offered);
    }

    /// The direct C12 monitor, written from the property text.
    fn monitor(&mut self, before: &Snapshot, after: &Snapshot, what: &str, allowed_new: Option<K32>, offered: &[usize]) {
        let local_id = self.idents[self.local].id;
        // C16 (the service was configured with ip_limit, whatever its IP mode): at no time more than 10
        // nodes of one /24 in the table, nor more than 2 in a bucket
        if self.ip_limit {
            let mut per_table: std::collections::BTreeMap<[u8; 3], usize> = Default::default();
            let mut per_bucket: std::collections::BTreeMap<(u64, [u8; 3]), usize> = Default::default();
            for (k, e, pending) in after {
                if *pending {
                    continue;
                }
                if let Some(ip) = e.ip4() {
                    let o = ip.octets();
                    let sub = [o[0], o[1], o[2]];
                    *per_table.entry(sub).or_insert(0) += 1;
                    *per_bucket.entry((log2dist(&local_id, k), sub)).or_insert(0) += 1;
                }
            }
            if let Some((sub, n)) = per_table.iter().find(|(_, n)| **n > 10) {
                self.failures.push(("C16".into(), format!("with IP limiting configured the table holds {} nodes of {}.{}.{}.0/24 (after {})", n, sub[0], sub[1], sub[2], what.split(' ').next().unwrap_or("")).chars().map(|c| if c.is_ascii_digit() { '#' } else { c }).collect()));
            }
            if let Some(((_, sub), n)) = per_bucket.iter().find(|(_, n)| **n > 2) {
                self.failures.push(("C16".into(), format!("with IP limiting configured a bucket holds {} nodes of {}.{}.{}.0/24 (after {})", n, sub[0], sub[1], sub[2], what.split(' ').next().unwrap_or("")).chars().map(|c| if c.is_ascii_digit() { '#' } else { c }).collect()));
            }
        }
        let kind = what.split(' ').next().unwrap_or("").to_string();
        for (k, e, is_pending) in after {
            // every entry (and every candidate in a pending slot) is checked in the step in which it appears or changes
            if before.iter().any(|(k0, e0, _)| k0 == k && e0 == e) {
                continue;
            }
            if contactable(self.mode, e).is_none() {
                self.failures.push(("C12".into(), format!("table entry is not contactable in IP mode {:?} (after {})", self.mode, kind)));
            }
            if !(self.filter)(e) {
                self.failures.push(("C12".into(), format!("table entry is rejected by the configured table filter (after {})", kind)));
            }
            if *k == local_id || e.node_id().raw() == local_id {
                self.failures.push(("C12".into(), format!("the local node is a table entry (after {})", kind)));
            }
            if e.node_id().raw() != *k {
                self.failures.push(("C12".into(), format!("table entry stored under a key that is not its record's node id (after {})", kind)));
            }
            match before.iter().find(|(k0, _, _)| k0 == k) {
                None => {
                    // a new key: only through a session or an explicit add of that node
                    if allowed_new != Some(*k) {
                        self.failures.push(("C12".into(), format!("a node became a table entry in a step that is neither a session report nor an add by the user ({})", kind)));
                    }
                }
                Some((_, old, _)) => {
                    if old != e {
                        if kind == "discovered" {
                            // replaced by a record learnt from the network
                            if !(e.node_id() == old.node_id() && e.seq() > old.seq()) {
                                self.failures.push(("C12".into(), format!("a discovered record replaced a stored one without a strictly higher sequence number ({} over {})", e.seq(), old.seq())));
                            }
                            if !offered.iter().any(|i| &self.recs.list[*i].enr == e) {
                                self.failures.push(("C12".into(), "a stored record was replaced by one that was not in the answer".into()));
                            }
                        } else if kind == "established" || kind == "add_enr" {
                            if e.seq() < old.seq() {
                                self.hist.add("c12:observation_session_or_add_replaced_record_by_lower_seq");
                            }
                        } else {
                            self.failures.push((
                                "C12".into(),
                                format!(
                                    "the record stored for {} was replaced in a {} step (neither a session, nor an add by the user, nor a discovered record with a higher sequence number): seq {} over seq {}",
                                    if *is_pending { "the candidate in a bucket's pending slot" } else { "a table entry" },
                                    kind,
                                    e.seq(),
                                    old.seq()
                                ),
                            ));
                        }
                    }
                }
            }
        }
        if kind == "discovered" {
            // removal only when a newer record of that node fails the conditions
            for (k, old, pending) in before {
                if !after.iter().any(|(k1, _, _)| k1 == k) && !*pending {
                    let justified = offered.iter().any(|i| {
                        let r = &self.recs.list[*i].enr;
                        // (with ip_limit the routing table's own /24 filters may reject the newer
                        // record, in which case update_node drops the entry: C16's territory)
                        r.node_id().raw() == *k && r.seq() > old.seq() && (contactable(self.mode, r).is_none() || !(self.filter)(r) || self.ip_limit)
                    });
                    if !justified {
                        self.failures.push(("C12".into(), "an entry was removed by a discovered record that is not a newer, inadmissible record of that node".into()));
                    }
                }
            }
        }
    }
}

fn v4_host(ident: usize) -> ([u8; 4], u16) {
    ([10, 0, 0, (ident % 250) as u8 + 1], 30303)
}
fn v6_host(ident: usize) -> ([u8; 16], u16) {
    ([0x20, 1, 0xd, 0xb8, 0, 0, 0, 0, 0, 0, 0, 0, 0, 0, 0, (ident % 250) as u8 + 1], 9001)
}

/// Scripted opening of some cases with IP limiting (dual stack, accept-all table filter): every step is
/// a real service operation, recorded as a model step like the random operations are.
///  1. the bucket with the most identities is filled (add_enr) with 15 records that have only an IPv6
///     address and one record of 10.0.0.0/24 (not the bucket's head);
///  2. 9 nodes of other buckets (at most 2 per bucket) with records of 10.0.0.0/24 are added: the table
///     holds 10 nodes of that /24, the full bucket one of them;
///  3. a session with a 17th node of the full bucket (IPv6-only record): it becomes the pending candidate;
///  4. a lookup for the candidate's id; the first queried peer answers with a newer record of the
///     candidate that has an address in 10.0.0.0/24;
///  5. the candidate's pending timeout elapses (hook) and the table is iterated.
/// A step that cannot be set up ends the opening (never a failure).
async fn ip_limit_opening(c: &mut Ctx<'_, '_>) {
    let idents = c.idents;
    let local_id = idents[c.local].id;
    c.hist.add("c12:opening_attempted");
    let mut by_d: std::collections::BTreeMap<u64, Vec<usize>> = Default::default();
    for (i, x) in idents.iter().enumerate() {
        if i != c.local && x.id != local_id {
            by_d.entry(log2dist(&local_id, &x.id)).or_default().push(i);
        }
    }
    let (dmax, big) = match by_d.iter().max_by_key(|(d, v)| (v.len(), **d)) {
        Some((d, v)) => (*d, v.clone()),
        None => return,
    };
    let mut others: Vec<usize> = vec![];
    for (d, v) in by_d.iter().rev() {
        if *d != dmax {
            others.extend(v.iter().take(2));
        }
    }
    if big.len() < 17 || others.len() < 9 {
        c.hist.add("c12:opening_skipped_too_few_identities");
        return;
    }
    let bucket = (dmax - 1) as usize;
    // 1. + 2.: the user adds 16 + 9 nodes
    let mut adds: Vec<RecSpec> = vec![];
    for (n, i) in big.iter().take(16).enumerate() {
        adds.push(RecSpec { ident: *i, seq: 1, udp4: if n == 9 { Some(v4_host(*i)) } else { None }, udp6: Some(v6_host(*i)), size: 0 });
    }
    for i in others.iter().take(9) {
        adds.push(RecSpec { ident: *i, seq: 1, udp4: Some(v4_host(*i)), udp6: None, size: 0 });
    }
    for spec in &adds {
        let before = snapshot(&c.a.s.kbuckets.read());
        let ri = c.recs.get(spec);
        let enr = c.recs.list[ri].enr.clone();
        let code = add_code(c.a.s.discv5.add_enr(enr.clone()));
        check_unaffected(c, &enr, code);
        let vid = c.recs.list[ri].vid;
        c.hist.add(&format!("c12:op_add_enr_{}", code));
        c.record(&before, format!("XAdd {}", vid), vec![code], "add_enr", Some(idents[spec.ident].id), &[ri]);
        if code != 0 {
            c.hist.add("c12:opening_ended_add_refused");
            return;
        }
    }
    {
        let (b, _) = dump_table(&c.a.s.kbuckets.read());
        let full = b.iter().any(|x| x.idx == bucket && x.nodes.len() == 16 && x.pending.is_none());
        let in24 = b.iter().flat_map(|x| x.nodes.iter()).filter(|n| n.enr.ip4().map(|ip| ip.octets()[..3] == [10, 0, 0]).unwrap_or(false)).count();
        if !full || in24 != 10 {
            c.hist.add("c12:opening_ended_table_not_as_planned");
            return;
        }
    }
    // 3. a session with the 17th node of the full bucket
    let cand = big[16];
    let cand_id = idents[cand].id;
    {
        let before = snapshot(&c.a.s.kbuckets.read());
        let ri = c.recs.get(&RecSpec { ident: cand, seq: 1, udp4: None, udp6: Some(v6_host(cand)), size: 0 });
        let enr = c.recs.list[ri].enr.clone();
        let sock = contactable(c.mode, &enr).unwrap_or(sock4([10, 0, 0, 99], 1));
        c.a.inject(HandlerOut::Established(enr, sock, ConnectionDirection::Outgoing)).await;
        let evs = c.a.events();
        let inserted = evs.iter().any(|e| matches!(e, Event::NodeInserted { node_id, replaced: None } if node_id.raw() == cand_id));
        c.absorb();
        let vid = c.recs.list[ri].vid;
        c.hist.add("c12:op_established");
        c.record(&before, format!("XEst {} {}", vid, coq_bool(false)), vec![inserted as u64], "established", Some(cand_id), &[ri]);
    }
    if !snapshot(&c.a.s.kbuckets.read()).iter().any(|(k, _, pending)| *k == cand_id && *pending) {
        c.hist.add("c12:opening_ended_candidate_not_pending");
        return;
    }
    // who-are-you queries about a node of the full bucket nobody knows, the candidate, an entry
    if big.len() >= 18 {
        bucket_who_queries(c, cand, big[17], big[0]).await;
    }
    // 4. a lookup for the candidate's id: the first queried peer answers with a newer record of the
    // candidate (the first distance a lookup requests from a peer is the peer's distance to the target)
    c.lookup_started(&cand_id);
    let handle = tokio::spawn(c.a.s.discv5.find_node(NodeId::new(&cand_id)));
    settle().await;
    let mut queue = c.absorb();
    let first = queue.iter().cloned().find(|oi| c.outstanding[*oi].kind == ReqKind::FindNode && c.outstanding[*oi].ident != usize::MAX);
    let mut answered = false;
    if let Some(oi) = first {
        let before = snapshot(&c.a.s.kbuckets.read());
        let o = &c.outstanding[oi];
        let (rid, src, addr, ds) = (o.id.clone(), o.ident, o.addr.clone(), o.distances.clone());
        let src_id = idents[src].id;
        if ds.contains(&log2dist(&src_id, &cand_id)) {
            let ri = c.recs.get(&RecSpec { ident: cand, seq: 2, udp4: Some(v4_host(cand)), udp6: Some(v6_host(cand)), size: 0 });
            let enr = c.recs.list[ri].enr.clone();
            c.a.inject(HandlerOut::Response(addr, Box::new(Response { id: rid, body: ResponseBody::Nodes { total: 1, nodes: vec![enr.clone()] } }))).await;
            let _ = c.a.events();
            c.outstanding[oi].kind = ReqKind::Ping; // consumed (never used again)
            c.outstanding[oi].id = RequestId(vec![]);
            c.track_discovered(&before, &src_id, &[ri]);
            queue.extend(c.absorb());
            let vid = c.recs.list[ri].vid;
            c.hist.add("c12:op_discovered");
            c.record(&before, format!("XDisc {} [{}]", coq_hex(&src_id), vid), vec![], "discovered", None, &[ri]);
            answered = true;
            // what became of the candidate (observation, not a check)
            let after = snapshot(&c.a.s.kbuckets.read());
            c.hist.add(match after.iter().find(|(k, _, _)| *k == cand_id) {
                None => "c12:opening_newer_record_of_pending_candidate_candidate_removed",
                Some((_, e, true)) if *e == enr => "c12:opening_newer_record_of_pending_candidate_stored",
                Some((_, _, true)) => "c12:opening_newer_record_of_pending_candidate_refused_candidate_kept_with_old_record",
                Some((_, _, false)) => "c12:opening_newer_record_of_pending_candidate_candidate_promoted",
            });
        }
    }
    // the lookup is brought to its end: its other requests fail (a running lookup keeps the records of
    // the table entries it started from, which the service consults besides the table); the candidate
    // itself, should it be asked, answers with no records
    let mut guard = 0;
    while let Some(oi) = queue.first().cloned() {
        queue.remove(0);
        guard += 1;
        if guard > 80 {
            break;
        }
        if c.outstanding[oi].kind != ReqKind::FindNode || c.outstanding[oi].id.0.is_empty() || c.outstanding[oi].ident == usize::MAX {
            continue;
        }
        let before = snapshot(&c.a.s.kbuckets.read());
        let o = &c.outstanding[oi];
        let (rid, src, addr) = (o.id.clone(), o.ident, o.addr.clone());
        let src_id = idents[src].id;
        if src == cand {
            c.a.inject(HandlerOut::Response(addr, Box::new(Response { id: rid, body: ResponseBody::Nodes { total: 1, nodes: vec![] } }))).await;
            c.outstanding[oi].kind = ReqKind::Ping;
            c.outstanding[oi].id = RequestId(vec![]);
            queue.extend(c.absorb());
            c.hist.add("c12:op_discovered");
            c.record(&before, format!("XDisc {} []", coq_hex(&src_id)), vec![], "discovered", None, &[]);
        } else {
            c.a.inject(HandlerOut::RequestFailed(rid, RequestError::Timeout)).await;
            c.outstanding[oi].id = RequestId(vec![]);
            queue.extend(c.absorb());
            c.hist.add("c12:op_failure");
            c.record(&before, format!("XFailure {}", coq_hex(&src_id)), vec![], "failure", None, &[]);
        }
    }
    end_lookup(c, handle).await;
    if !answered {
        c.hist.add("c12:opening_ended_no_lookup_request");
        return;
    }
    // 5. the pending timeout elapses and the table is accessed
    c.pending_timeout_and_iteration(Some(bucket));
    c.hist.add("c12:opening_full_scenario");
    let after = snapshot(&c.a.s.kbuckets.read());
    c.hist.add(match after.iter().find(|(k, _, _)| *k == cand_id) {
        Some((_, e, false)) if e.seq() == 2 => "c12:opening_candidate_promoted_with_newer_record",
        Some((_, _, false)) => "c12:opening_candidate_promoted_with_old_record",
        Some((_, _, true)) => "c12:opening_candidate_still_pending",
        None => "c12:opening_candidate_dropped",
    });
}

/// A record for the scripted openings: contactable in `mode`, an IPv4 address (where it has one) in a
/// /24 of its own (`n`), so that no IP limit is ever met.
fn opening_rec(mode: IpMode, n: usize, ident: usize, seq: u64) -> RecSpec {
    let v4 = ([10, 16 + n as u8, 0, (ident % 250) as u8 + 1], 30303u16);
    let v6 = v6_host(ident);
    let (udp4, udp6) = match mode {
        IpMode::Ip4 => (Some(v4), None),
        IpMode::Ip6 => (None, Some(v6)),
        IpMode::DualStack => {
            if n % 2 == 0 {
                (None, Some(v6))
            } else {
                (Some(v4), None)
            }
        }
    };
    RecSpec { ident, seq, udp4, udp6, size: 0 }
}

/// The handler asks who node `ident` is (a packet it cannot decrypt arrived in that node's name from
/// `sock`): `HandlerOut::WhoAreYou`. The service's answer is the record the handler will verify a
/// record-less handshake with (`Challenge.remote_enr`), so
///  - it is a record of that very node (C01: only the holder of X's key is treated as X);
///  - for a table entry it is the stored record, not an older copy a lookup holds (C12);
///  - a node known neither to the table nor to a running lookup gets none, whatever else the service is
///    doing with the address the packet came from (C01).
/// One model step (`XWho`, Model.Admission.find_enr).
async fn who_are_you(c: &mut Ctx<'_, '_>, ident: usize, sock: SocketAddr, tag: &str) {
    if !who_predictable(c, ident) {
        c.hist.add("c12:op_whoareyou_skipped_records_of_lookups_not_known");
        return;
    }
    let id = c.idents[ident].id;
    let before = snapshot(&c.a.s.kbuckets.read());
    c.who_answers.clear();
    let na = NodeAddress { socket_addr: sock, node_id: NodeId::new(&id) };
    let mut nonce = [0u8; 12];
    nonce[..8].copy_from_slice(&(c.steps.len() as u64).to_be_bytes());
    c.a.inject(HandlerOut::WhoAreYou(discv5::verif::handler::make_whoareyou_ref(na.clone(), nonce))).await;
    c.absorb();
    let answers: Vec<Option<Enr>> = c.who_answers.drain(..).filter(|(a, _)| *a == na).map(|x| x.1).collect();
    let after = snapshot(&c.a.s.kbuckets.read());
    let stored = after.iter().find(|(k, _, p)| *k == id && !*p).map(|x| x.1.clone());
    // the records of that node the running lookup holds
    let (held, maybe): (Vec<usize>, Vec<usize>) = match &c.lookup {
        Some(lk) => (
            lk.untrusted.iter().cloned().filter(|r| c.recs.id_of(*r) == id).collect(),
            lk.maybe.iter().cloned().filter(|r| c.recs.id_of(*r) == id).collect(),
        ),
        None => (vec![], vec![]),
    };
    let obs = match answers.as_slice() {
        [None] => 0,
        [Some(e)] => match c.recs.vid_of(e) {
            0 => 999_998,
            v => v,
        },
        _ => 999_999, // not answered (or more than once)
    };
    if let [Some(e)] = answers.as_slice() {
        if e.node_id().raw() != id {
            // C01: only the holder of X's key is treated as X; C02: what is delivered as coming from X was
            // sealed by X (the session of that handshake delivers the other node's messages as X's)
            c.failures.push((
                "C01".into(),
                "the service answered a who-are-you query about node X with the record of another node (a handshake in X's name would be verified with that node's key)".into(),
            ));
            c.failures.push((
                "C02".into(),
                "the service named the record of another node as the known record of node X in a who-are-you answer (the session of a handshake verified with it delivers that node's messages as coming from X)".into(),
            ));
        } else {
            match &stored {
                Some(r) => {
                    if r != e {
                        c.failures.push((
                            "C12".into(),
                            format!("the record of a table entry handed to the handler for a handshake (seq {}) is not the stored one (seq {}): the session would be reported with it and replace the stored record", e.seq(), r.seq()),
                        ));
                    }
                }
                None => {
                    if !c.inexact && !maybe.iter().any(|r| &c.recs.list[*r].enr == e) {
                        c.failures.push((
                            "C01".into(),
                            "the service answered a who-are-you query with a record although the node is neither a table entry nor known to a running lookup".into(),
                        ));
                    }
                }
            }
        }
    }
    c.hist.add(&format!(
        "c12:op_whoareyou_{}_{}",
        tag,
        match (answers.as_slice(), &stored) {
            ([None], _) => "no_record",
            ([Some(_)], Some(_)) => "table_record",
            ([Some(_)], None) => "lookup_record",
            _ => "unanswered",
        }
    ));
    let qvs: Vec<String> = held.iter().map(|r| c.recs.list[*r].vid.to_string()).collect();
    c.record(&before, format!("XWho {} {}", coq_hex(&id), coq_list(&qvs)), vec![obs], "whoareyou", None, &[]);
}

/// May the model's answer to a who-are-you query about `ident` be computed (the table decides, or the
/// records held by the running lookup are known exactly)?
fn who_predictable(c: &Ctx<'_, '_>, ident: usize) -> bool {
    let id = c.idents[ident].id;
    let entry = snapshot(&c.a.s.kbuckets.read()).iter().any(|(k, _, p)| *k == id && !*p);
    entry || (!c.inexact && c.lookup.as_ref().map(|lk| lk.exact).unwrap_or(true))
}

/// The handler reports a session with node `ident` holding record `ri`.
async fn session(c: &mut Ctx<'_, '_>, ident: usize, ri: usize, incoming: bool) {
    let before = snapshot(&c.a.s.kbuckets.read());
    let enr = c.recs.list[ri].enr.clone();
    let sock = contactable(c.mode, &enr).unwrap_or(sock4([10, 0, 0, 99], 1));
    let dir = if incoming { ConnectionDirection::Incoming } else { ConnectionDirection::Outgoing };
    c.a.inject(HandlerOut::Established(enr.clone(), sock, dir)).await;
    let evs = c.a.events();
    let id = c.idents[ident].id;
    let inserted = evs.iter().any(|e| matches!(e, Event::NodeInserted { node_id, replaced: None } if node_id.raw() == id));
    c.absorb();
    let vid = c.recs.list[ri].vid;
    c.hist.add("c12:op_established");
    c.record(&before, format!("XEst {} {}", vid, coq_bool(incoming)), vec![inserted as u64], "established", Some(id), &[ri]);
}

/// The answer to outstanding request `oi` of the running lookup arrives: one NODES packet with the
/// records `offered` (all at requested distances). Returns the requests the service sent in reaction.
async fn nodes_answer(c: &mut Ctx<'_, '_>, oi: usize, offered: &[usize]) -> Vec<usize> {
    let before = snapshot(&c.a.s.kbuckets.read());
    let (rid, src, addr) = (c.outstanding[oi].id.clone(), c.outstanding[oi].ident, c.outstanding[oi].addr.clone());
    let src_id = c.idents[src].id;
    let nodes: Vec<Enr> = offered.iter().map(|i| c.recs.list[*i].enr.clone()).collect();
    c.a.inject(HandlerOut::Response(addr, Box::new(Response { id: rid, body: ResponseBody::Nodes { total: 1, nodes } }))).await;
    let _ = c.a.events();
    c.outstanding[oi].kind = ReqKind::Ping; // consumed (never used again)
    c.outstanding[oi].id = RequestId(vec![]);
    c.track_discovered(&before, &src_id, offered);
    let new = c.absorb();
    let vs: Vec<String> = offered.iter().map(|i| c.recs.list[*i].vid.to_string()).collect();
    c.hist.add("c12:op_discovered");
    c.record(&before, format!("XDisc {} {}", coq_hex(&src_id), coq_list(&vs)), vec![], "discovered", None, offered);
    new
}

/// Outstanding request `oi` fails (timeout).
async fn request_fails(c: &mut Ctx<'_, '_>, oi: usize) -> Vec<usize> {
    let before = snapshot(&c.a.s.kbuckets.read());
    let (rid, src) = (c.outstanding[oi].id.clone(), c.outstanding[oi].ident);
    let src_id = c.idents[src].id;
    c.a.inject(HandlerOut::RequestFailed(rid, RequestError::Timeout)).await;
    c.outstanding[oi].id = RequestId(vec![]);
    let new = c.absorb();
    c.hist.add("c12:op_failure");
    c.record(&before, format!("XFailure {}", coq_hex(&src_id)), vec![], "failure", None, &[]);
    new
}

/// Node `ident` (a table entry) announces sequence number `seq` in a PING; the service asks it for its
/// record (FINDNODE [0], outside of any lookup) and the node answers with `spec`. False: the service did
/// not ask.
async fn enr_refresh(c: &mut Ctx<'_, '_>, ident: usize, seq: u64, spec: RecSpec) -> bool {
    let id = c.idents[ident].id;
    let before = snapshot(&c.a.s.kbuckets.read());
    let sock = before.iter().find(|x| x.0 == id).and_then(|x| contactable(c.mode, &x.1)).unwrap_or(sock4(v4_host(ident).0, 30303));
    let addr = NodeAddress { socket_addr: sock, node_id: NodeId::new(&id) };
    c.a.inject(HandlerOut::Request(addr, Box::new(Request { id: RequestId(vec![9, 9]), body: RequestBody::Ping { enr_seq: seq } }))).await;
    let new = c.absorb();
    let req = new.iter().cloned().find(|k| c.outstanding[*k].kind == ReqKind::EnrRequest && c.outstanding[*k].ident == ident);
    c.hist.add("c12:op_ping_request");
    c.record(&before, format!("XPing {} {}", coq_hex(&id), seq), vec![req.is_some() as u64], "ping", None, &[]);
    let oi = match req {
        Some(oi) => oi,
        None => return false,
    };
    let before = snapshot(&c.a.s.kbuckets.read());
    let o = c.outstanding.remove(oi);
    let ri = c.recs.get(&spec);
    let enr = c.recs.list[ri].enr.clone();
    c.a.inject(HandlerOut::Response(o.addr.clone(), Box::new(Response { id: o.id.clone(), body: ResponseBody::Nodes { total: 1, nodes: vec![enr] } }))).await;
    c.absorb();
    let _ = c.a.events();
    let vid = c.recs.list[ri].vid;
    c.hist.add("c12:op_enr_update_answer");
    c.record(&before, format!("XDisc {} [{}]", coq_hex(&id), vid), vec![], "discovered", None, &[ri]);
    true
}

/// The lookup's requests that are still outstanding (a request the service sent while the harness was
/// busy with another event is found here).
fn open_lookup_requests(c: &Ctx<'_, '_>) -> Vec<usize> {
    (0..c.outstanding.len()).filter(|i| c.outstanding[*i].kind == ReqKind::FindNode && !c.outstanding[*i].id.0.is_empty() && c.outstanding[*i].ident != usize::MAX).collect()
}

/// Drives the running lookup to its end: every outstanding request of it fails.
async fn fail_lookup_requests(c: &mut Ctx<'_, '_>, mut queue: Vec<usize>) {
    let mut guard = 0;
    while let Some(oi) = queue.first().cloned() {
        queue.remove(0);
        guard += 1;
        if guard > 120 {
            break;
        }
        if c.outstanding[oi].kind != ReqKind::FindNode || c.outstanding[oi].id.0.is_empty() || c.outstanding[oi].ident == usize::MAX {
            continue;
        }
        let new = request_fails(c, oi).await;
        queue.extend(new);
        if queue.is_empty() {
            queue = open_lookup_requests(c);
        }
    }
}

/// Polls the lookup's future once more and closes the harness-side tracking.
async fn end_lookup(c: &mut Ctx<'_, '_>, handle: tokio::task::JoinHandle<Result<Vec<Enr>, discv5::QueryError>>) {
    settle().await;
    if handle.is_finished() {
        let n = handle.await.ok().and_then(|r| r.ok()).map(|v| v.len()).unwrap_or(0);
        c.hist.add("c12:lookup_finished");
        c.lookup_ended(Some(n));
    } else {
        c.hist.add("c12:lookup_left_running");
        handle.abort();
        c.lookup_ended(None);
    }
    c.outstanding.retain(|o| !o.id.0.is_empty());
}

/// Scripted opening (any IP mode, any table filter but reject-all): who-are-you queries and lookup
/// requests while the records the table holds and the records a running lookup holds differ.
///  1. sessions with five nodes (records of seq 2);
///  2. who-are-you queries about a node nobody knows and about an entry;
///  3. a lookup starts (its query copies the entries' records); a who-are-you query about the unknown
///     node arrives from the socket address one of the lookup's requests is in flight to;
///  4. a session report renews the record of an entry the lookup has not asked yet (seq 5) and another
///     one admits a sixth node (seq 5); who-are-you queries about both;
///  5. the first asked peer answers with stale records (seq 1) of these two nodes and the record of a
///     node that is no entry; who-are-you queries about all three;
///  6. the other requests fail: the lookup asks the remaining candidates and ends; a last who-are-you
///     query about the node only the lookup knew.
/// A step that cannot be set up ends the opening (never a failure).
async fn lookup_opening(c: &mut Ctx<'_, '_>, actors: &[usize], rng: &mut Rng) {
    let idents = c.idents;
    let mode = c.mode;
    c.hist.add("c12:lookup_opening_attempted");
    let (entries, unknown) = (&actors[1..6], actors[11]);
    let own = |i: usize, n: usize| contactable(mode, &build_enr(&idents[i], &opening_rec(mode, n, i, 1))).unwrap_or(sock4([10, 0, 9, 9], 4444));
    for (n, i) in entries.iter().enumerate() {
        let ri = c.recs.get(&opening_rec(mode, n, *i, 2));
        session(c, *i, ri, n % 2 == 1).await;
    }
    let in_table = |c: &Ctx<'_, '_>, i: usize| snapshot(&c.a.s.kbuckets.read()).iter().any(|(k, _, p)| *k == idents[i].id && !*p);
    if !entries.iter().all(|i| in_table(c, *i)) {
        c.hist.add("c12:lookup_opening_ended_sessions_not_admitted");
        return;
    }
    who_are_you(c, unknown, own(unknown, 11), "unknown_node").await;
    who_are_you(c, entries[0], own(entries[0], 0), "entry").await;
    // 3.
    let target = {
        let b = rng.bytes(32);
        let mut t = [0u8; 32];
        t.copy_from_slice(&b);
        t
    };
    c.lookup_started(&target);
    let handle = tokio::spawn(c.a.s.discv5.find_node(NodeId::new(&target)));
    settle().await;
    let mut queue = c.absorb();
    queue.retain(|oi| c.outstanding[*oi].kind == ReqKind::FindNode && c.outstanding[*oi].ident != usize::MAX);
    if queue.is_empty() {
        c.hist.add("c12:lookup_opening_ended_no_request");
        end_lookup(c, handle).await;
        return;
    }
    // the request that will be answered, the node admitted during the lookup and the node only the lookup
    // hears of: the records of an answer must lie at the distances (from the answering peer) the request
    // asked for
    let spare = &actors[6..11];
    let on_distance = |c: &Ctx<'_, '_>, oi: usize, i: usize| c.outstanding[oi].distances.contains(&log2dist(&idents[c.outstanding[oi].ident].id, &idents[i].id));
    let best = (0..queue.len()).max_by_key(|q| (spare.iter().filter(|i| on_distance(c, queue[*q], **i)).count().min(2), queue.len() - *q)).unwrap_or(0);
    let first = queue.remove(best);
    queue.insert(0, first);
    let mut roles: Vec<usize> = spare.iter().cloned().filter(|i| on_distance(c, first, *i)).collect();
    roles.extend(spare.iter().cloned().filter(|i| !on_distance(c, first, *i)));
    let (fresh, rumour) = (roles[0], roles[1]);
    let in_flight_sock = c.outstanding[queue[0]].addr.socket_addr;
    who_are_you(c, unknown, in_flight_sock, "unknown_node_from_address_of_request_in_flight").await;
    // 4.
    let asked: Vec<usize> = queue.iter().map(|oi| c.outstanding[*oi].ident).collect();
    let renewed = entries.iter().cloned().filter(|i| !asked.contains(i)).max_by_key(|i| on_distance(c, first, *i));
    if let Some(x) = renewed {
        let n = entries.iter().position(|i| *i == x).unwrap();
        let ri = c.recs.get(&opening_rec(mode, n, x, 5));
        session(c, x, ri, true).await;
        queue.extend(c.absorb());
        who_are_you(c, x, own(x, n), "entry_renewed_during_lookup").await;
    }
    {
        let ri = c.recs.get(&opening_rec(mode, 6, fresh, 5));
        session(c, fresh, ri, true).await;
        queue.extend(c.absorb());
        who_are_you(c, fresh, own(fresh, 6), "entry_admitted_during_lookup").await;
    }
    // 5. stale records, at the distances the request asked for
    let oi = queue.remove(0);
    let src_id = idents[c.outstanding[oi].ident].id;
    let ds = c.outstanding[oi].distances.clone();
    let mut offered: Vec<usize> = vec![];
    let mut stale: Vec<(usize, usize, &str)> = vec![(fresh, 6, "entry_with_stale_record_in_lookup")];
    if let Some(x) = renewed {
        stale.push((x, entries.iter().position(|i| *i == x).unwrap(), "entry_renewed_with_stale_record_in_answer"));
    }
    stale.push((rumour, 8, "node_known_to_lookup_only"));
    stale.retain(|(i, _, _)| ds.contains(&log2dist(&src_id, &idents[*i].id)));
    for (i, n, _) in &stale {
        offered.push(c.recs.get(&opening_rec(mode, *n, *i, 1)));
    }
    if offered.is_empty() {
        c.hist.add("c12:lookup_opening_no_record_at_a_requested_distance");
    }
    let new = nodes_answer(c, oi, &offered).await;
    queue.extend(new);
    for (i, n, tag) in &stale {
        who_are_you(c, *i, own(*i, *n), tag).await;
    }
    // 6.
    fail_lookup_requests(c, queue).await;
    end_lookup(c, handle).await;
    who_are_you(c, rumour, own(rumour, 8), "node_known_to_ended_lookup_only").await;
    c.hist.add("c12:lookup_opening_full_scenario");
}

/// Scripted opening (any IP mode, any table filter but reject-all): a full bucket with a candidate in
/// its pending slot, then who-are-you queries about a node of that bucket nobody knows, about the
/// candidate and about an entry.
async fn full_bucket_opening(c: &mut Ctx<'_, '_>) {
    let idents = c.idents;
    let mode = c.mode;
    let local_id = idents[c.local].id;
    c.hist.add("c12:full_bucket_opening_attempted");
    let mut by_d: std::collections::BTreeMap<u64, Vec<usize>> = Default::default();
    for (i, x) in idents.iter().enumerate() {
        if i != c.local && x.id != local_id {
            by_d.entry(log2dist(&local_id, &x.id)).or_default().push(i);
        }
    }
    let big = match by_d.iter().max_by_key(|(d, v)| (v.len(), **d)) {
        Some((_, v)) => v.clone(),
        None => return,
    };
    if big.len() < 18 {
        c.hist.add("c12:full_bucket_opening_skipped_too_few_identities");
        return;
    }
    for (n, i) in big.iter().take(16).enumerate() {
        let before = snapshot(&c.a.s.kbuckets.read());
        let ri = c.recs.get(&opening_rec(mode, n, *i, 1));
        let enr = c.recs.list[ri].enr.clone();
        let code = add_code(c.a.s.discv5.add_enr(enr.clone()));
        check_unaffected(c, &enr, code);
        let vid = c.recs.list[ri].vid;
        c.hist.add(&format!("c12:op_add_enr_{}", code));
        c.record(&before, format!("XAdd {}", vid), vec![code], "add_enr", Some(idents[*i].id), &[ri]);
        if code != 0 {
            c.hist.add("c12:full_bucket_opening_ended_add_refused");
            return;
        }
    }
    let cand = big[16];
    let ri = c.recs.get(&opening_rec(mode, 16, cand, 1));
    session(c, cand, ri, false).await;
    bucket_who_queries(c, cand, big[17], big[3]).await;
    c.hist.add("c12:full_bucket_opening_full_scenario");
}

/// Scripted opening (any IP mode, any table filter but reject-all): the PONG of a node that waits in the
/// pending slot of its bucket arrives while a running lookup holds an older record of that node - a
/// record that merely appeared in somebody's NODES answer.
///  1. (a) a session with node N (record of seq 2): N becomes an entry, the service pings it, and the user
///     removes N again; or (b, dual stack) sessions with 16 nodes of N's bucket fill the bucket with
///     connected entries, N's session is refused and the service pings N because it is short of IP votes;
///  2. (a) the user adds 16 nodes of N's bucket (disconnected entries) / (b) the ping of one of the 16
///     fails: it is disconnected;
///  3. a (second) session with N (seq 2): N is parked in the bucket's pending slot;
///  4. a lookup for N's id; the first peer asked answers with an older record of N (seq 1, another port),
///     which stays with the lookup; a who-are-you query about N;
///  5. N's PONG for the ping of step 1 arrives (model step `XPongQ`, Model.Admission.pong_q);
///  6. N answers the lookup's request with no records, the other requests fail, the lookup ends;
///  7. the pending timeout elapses (hook) and the table is iterated.
/// The C12 monitor of `record` runs after every step (entries and pending slots): a stored record is
/// replaced only in a session / add / discovered step, and by a discovered record only with a strictly
/// higher sequence number. A step that cannot be set up ends the opening (never a failure).
async fn pending_pong_opening(c: &mut Ctx<'_, '_>, rng: &mut Rng) {
    let idents = c.idents;
    let mode = c.mode;
    let local_id = idents[c.local].id;
    c.hist.add("c12:pending_pong_opening_attempted");
    let mut by_d: std::collections::BTreeMap<u64, Vec<usize>> = Default::default();
    for (i, x) in idents.iter().enumerate() {
        if i != c.local && x.id != local_id {
            by_d.entry(log2dist(&local_id, &x.id)).or_default().push(i);
        }
    }
    let (dmax, mut big) = match by_d.iter().max_by_key(|(d, v)| (v.len(), **d)) {
        Some((d, v)) => (*d, v.clone()),
        None => return,
    };
    if big.len() < 18 {
        c.hist.add("c12:pending_pong_opening_skipped_too_few_identities");
        return;
    }
    // which nodes of the bucket play which part differs from case to case
    for i in (1..big.len()).rev() {
        let j = rng.below(i as u64 + 1) as usize;
        big.swap(i, j);
    }
    let bucket = (dmax - 1) as usize;
    let cand = big[16];
    let cand_id = idents[cand].id;
    let variant_b = mode == IpMode::DualStack && rng.chance(1, 2);
    let is_pending = |c: &Ctx<'_, '_>| snapshot(&c.a.s.kbuckets.read()).iter().any(|(k, _, p)| *k == cand_id && *p);
    let cand_rec = c.recs.get(&opening_rec(mode, 16, cand, 2));
    if !variant_b {
        // 1a. + 2a.
        session(c, cand, cand_rec, false).await;
        if !snapshot(&c.a.s.kbuckets.read()).iter().any(|(k, _, p)| *k == cand_id && !*p) {
            c.hist.add("c12:pending_pong_opening_ended_first_session_not_admitted");
            return;
        }
        let before = snapshot(&c.a.s.kbuckets.read());
        let _ = c.a.s.discv5.remove_node(&idents[cand].node_id());
        c.hist.add("c12:op_remove_node");
        c.record(&before, format!("XUnv {}", coq_hex(&cand_id)), vec![], "remove_node", None, &[]);
        for (n, i) in big.iter().take(16).enumerate() {
            let before = snapshot(&c.a.s.kbuckets.read());
            let ri = c.recs.get(&opening_rec(mode, n, *i, 1));
            let enr = c.recs.list[ri].enr.clone();
            let code = add_code(c.a.s.discv5.add_enr(enr.clone()));
        check_unaffected(c, &enr, code);
            let vid = c.recs.list[ri].vid;
            c.hist.add(&format!("c12:op_add_enr_{}", code));
            c.record(&before, format!("XAdd {}", vid), vec![code], "add_enr", Some(idents[*i].id), &[ri]);
            if code != 0 {
                c.hist.add("c12:pending_pong_opening_ended_add_refused");
                return;
            }
        }
    } else {
        // 1b. + 2b.
        for (n, i) in big.iter().take(16).enumerate() {
            let ri = c.recs.get(&opening_rec(mode, n, *i, 1));
            session(c, *i, ri, false).await;
        }
        session(c, cand, cand_rec, false).await;
        if snapshot(&c.a.s.kbuckets.read()).iter().any(|(k, _, _)| *k == cand_id) {
            c.hist.add("c12:pending_pong_opening_ended_bucket_not_full");
            return;
        }
        let victim = big[rng.below(16) as usize];
        let oi = match (0..c.outstanding.len()).find(|i| c.outstanding[*i].kind == ReqKind::Ping && c.outstanding[*i].ident == victim) {
            Some(oi) => oi,
            None => {
                c.hist.add("c12:pending_pong_opening_ended_no_ping_to_fail");
                return;
            }
        };
        let before = snapshot(&c.a.s.kbuckets.read());
        let o = c.outstanding.remove(oi);
        c.a.inject(HandlerOut::RequestFailed(o.id.clone(), RequestError::Timeout)).await;
        c.absorb();
        c.hist.add("c12:op_failure");
        c.record(&before, format!("XFailure {}", coq_hex(&idents[victim].id)), vec![], "failure", None, &[]);
    }
    if !(0..c.outstanding.len()).any(|i| c.outstanding[i].kind == ReqKind::Ping && c.outstanding[i].ident == cand) {
        c.hist.add("c12:pending_pong_opening_ended_no_ping_to_the_candidate");
        return;
    }
    // 3.
    session(c, cand, cand_rec, rng.chance(1, 2)).await;
    if !is_pending(c) {
        c.hist.add("c12:pending_pong_opening_ended_candidate_not_pending");
        return;
    }
    // 4.
    c.lookup_started(&cand_id);
    let handle = tokio::spawn(c.a.s.discv5.find_node(NodeId::new(&cand_id)));
    settle().await;
    let mut queue = c.absorb();
    queue.retain(|oi| c.outstanding[*oi].kind == ReqKind::FindNode && c.outstanding[*oi].ident != usize::MAX);
    let stale = {
        let mut spec = opening_rec(mode, 16, cand, 1);
        spec.udp4 = spec.udp4.map(|(ip, port)| (ip, port + 1));
        spec.udp6 = spec.udp6.map(|(ip, port)| (ip, port + 1));
        c.recs.get(&spec)
    };
    let first = queue.iter().cloned().find(|oi| c.outstanding[*oi].distances.contains(&log2dist(&idents[c.outstanding[*oi].ident].id, &cand_id)));
    let mut told = false;
    if let Some(oi) = first {
        queue.retain(|x| *x != oi);
        let new = nodes_answer(c, oi, &[stale]).await;
        queue.extend(new);
        told = is_pending(c) && c.lookup.as_ref().map(|lk| lk.exact && lk.untrusted.contains(&stale)).unwrap_or(false);
    }
    if told {
        who_are_you(c, cand, sock4(v4_host(cand).0, 30303), "pending_candidate_known_to_lookup").await;
        // 5.
        let held: Vec<String> = c.lookup.as_ref().map(|lk| lk.untrusted.iter().filter(|r| c.recs.id_of(**r) == cand_id).map(|r| c.recs.list[*r].vid.to_string()).collect()).unwrap_or_default();
        if let Some(oi) = (0..c.outstanding.len()).find(|i| c.outstanding[*i].kind == ReqKind::Ping && c.outstanding[*i].ident == cand) {
            let before = snapshot(&c.a.s.kbuckets.read());
            // (the indices in `queue` stay valid: the entry is emptied, not removed)
            let (rid, addr) = (c.outstanding[oi].id.clone(), c.outstanding[oi].addr.clone());
            c.outstanding[oi].kind = ReqKind::EnrRequest;
            c.outstanding[oi].id = RequestId(vec![]);
            let seq = *rng.pick(&[1u64, 2, 2, 3]);
            let (ip, port) = (IpAddr::V4(Ipv4Addr::new(203, 0, 113, 5)), NonZeroU16::new(9000).unwrap());
            c.a.inject(HandlerOut::Response(addr, Box::new(Response { id: rid, body: ResponseBody::Pong { enr_seq: seq, ip, port } }))).await;
            let new = c.absorb();
            let wanted = new.iter().any(|i| c.outstanding[*i].kind == ReqKind::EnrRequest && c.outstanding[*i].ident == cand);
            queue.extend(new.into_iter().filter(|i| c.outstanding[*i].kind == ReqKind::FindNode));
            let _ = c.a.events();
            c.hist.add("c12:op_pong_of_pending_candidate_known_to_lookup");
            c.record(&before, format!("XPongQ {} {} {}", coq_hex(&cand_id), seq, coq_list(&held)), vec![wanted as u64], "pong", None, &[]);
        }
    } else {
        c.hist.add("c12:pending_pong_opening_lookup_was_not_told_of_the_candidate");
    }
    // 6.
    let mut guard = 0;
    while let Some(oi) = queue.first().cloned() {
        queue.remove(0);
        guard += 1;
        if guard > 120 {
            break;
        }
        if c.outstanding[oi].kind != ReqKind::FindNode || c.outstanding[oi].id.0.is_empty() || c.outstanding[oi].ident == usize::MAX {
            continue;
        }
        let new = if c.outstanding[oi].ident == cand { nodes_answer(c, oi, &[]).await } else { request_fails(c, oi).await };
        queue.extend(new);
        if queue.is_empty() {
            queue = open_lookup_requests(c);
        }
    }
    end_lookup(c, handle).await;
    if !told {
        return;
    }
    // 7.
    c.pending_timeout_and_iteration(Some(bucket));
    c.hist.add(if variant_b { "c12:pending_pong_opening_full_scenario_refused_session" } else { "c12:pending_pong_opening_full_scenario_removed_node" });
    let after = snapshot(&c.a.s.kbuckets.read());
    c.hist.add(match after.iter().find(|(k, _, _)| *k == cand_id) {
        Some((_, e, false)) if e.seq() == 2 => "c12:pending_pong_opening_candidate_promoted_with_its_session_record",
        Some((_, _, false)) => "c12:pending_pong_opening_candidate_promoted_with_another_record",
        Some((_, _, true)) => "c12:pending_pong_opening_candidate_still_pending",
        None => "c12:pending_pong_opening_candidate_dropped",
    });
}

/// Who-are-you queries about `stranger` (a node of the candidate's bucket nobody knows), about the
/// pending candidate itself and about an entry of that bucket.
async fn bucket_who_queries(c: &mut Ctx<'_, '_>, cand: usize, stranger: usize, entry: usize) {
    let cand_id = c.idents[cand].id;
    if snapshot(&c.a.s.kbuckets.read()).iter().any(|(k, _, pending)| *k == cand_id && *pending) {
        c.hist.add("c12:who_queries_with_candidate_pending");
    }
    let own = |i: usize| sock4(v4_host(i).0, 30303);
    who_are_you(c, stranger, own(stranger), "stranger_of_bucket_with_candidate").await;
    who_are_you(c, cand, own(cand), "pending_candidate").await;
    who_are_you(c, entry, own(entry), "entry_of_full_bucket").await;
}

/// Scripted end of the IP-limit opening (dual stack, IP limiting on): ENR refreshes (the peer announces a
/// higher sequence number, the service asks for its record outside of any lookup) whose answers keep
/// the contactable IPv6 socket and change only the IPv4 part of the record - the part the /24 limits
/// look at:
///  a. an entry without IPv4 address moves into 10.0.0.0/24, of which the table may hold 10 nodes already;
///  b. three entries of one bucket without IPv4 address move into 10.0.2.0/24 one after the other.
/// The C16 monitor of `record` runs after every step.
async fn refresh_tail(c: &mut Ctx<'_, '_>) {
    if c.mode != IpMode::DualStack || !c.ip_limit {
        return;
    }
    let idents = c.idents;
    let local_id = idents[c.local].id;
    // entries (not pending) with only an IPv6 socket, per bucket
    let v6_only = |c: &Ctx<'_, '_>| -> std::collections::BTreeMap<u64, Vec<(usize, Enr)>> {
        let mut m: std::collections::BTreeMap<u64, Vec<(usize, Enr)>> = Default::default();
        for (k, e, pending) in snapshot(&c.a.s.kbuckets.read()) {
            if !pending && e.ip4().is_none() && e.udp6_socket().is_some() {
                if let Some(i) = idents.iter().position(|x| x.id == k) {
                    m.entry(log2dist(&local_id, &k)).or_default().push((i, e));
                }
            }
        }
        m
    };
    let moved = |e: &Enr, i: usize, v4: [u8; 4]| RecSpec {
        ident: i,
        seq: e.seq() + 1,
        udp4: Some((v4, 30303)),
        udp6: e.udp6_socket().map(|s| (s.ip().octets(), s.port())),
        size: 0,
    };
    // a.
    let in24 = snapshot(&c.a.s.kbuckets.read()).iter().filter(|x| !x.2 && x.1.ip4().map(|ip| ip.octets()[..3] == [10, 0, 0]).unwrap_or(false)).count();
    c.hist.add(if in24 >= 10 { "c12:refresh_tail_table_at_subnet_limit" } else { "c12:refresh_tail_table_below_subnet_limit" });
    if let Some((i, e)) = v6_only(c).values().max_by_key(|v| v.len()).and_then(|v| v.last().cloned()) {
        let spec = moved(&e, i, v4_host(i).0);
        if enr_refresh(c, i, e.seq() + 1, spec).await {
            let id = idents[i].id;
            c.hist.add(match snapshot(&c.a.s.kbuckets.read()).iter().find(|x| x.0 == id) {
                None => "c12:refresh_into_crowded_subnet_entry_dropped",
                Some((_, r, _)) if r.seq() == e.seq() => "c12:refresh_into_crowded_subnet_refused",
                Some(_) => "c12:refresh_into_crowded_subnet_stored",
            });
        }
    }
    // b.
    if let Some(v) = v6_only(c).values().max_by_key(|v| v.len()).cloned() {
        for (n, (i, e)) in v.iter().take(3).enumerate() {
            let spec = moved(e, *i, [10, 0, 2, (*i % 250) as u8 + 1]);
            if enr_refresh(c, *i, e.seq() + 1, spec).await {
                let id = idents[*i].id;
                c.hist.add(&format!(
                    "c12:refresh_number_{}_into_one_subnet_of_a_bucket_{}",
                    n + 1,
                    match snapshot(&c.a.s.kbuckets.read()).iter().find(|x| x.0 == id) {
                        None => "entry_dropped",
                        Some((_, r, _)) if r.seq() == e.seq() => "refused",
                        Some(_) => "stored",
                    }
                ));
            }
        }
    }
}

/// C16, last clause: "nodes without an IPv4 address are unaffected" by IP limiting - the /24 rules never refuse
/// a record that has no IPv4 address (codes 4 and 5: refused by the bucket's / the table's /24 limit).
fn check_unaffected(c: &mut Ctx<'_, '_>, enr: &Enr, code: u64) {
    if c.ip_limit && enr.ip4().is_none() && (code == 4 || code == 5) {
        c.failures.push((
            "C16".into(),
            format!("with IP limiting configured the add of a node whose record has no IPv4 address was refused by the /24 limit of the {} (nodes without an IPv4 address are unaffected by IP limiting)", if code == 4 { "bucket" } else { "table" }),
        ));
    }
}

fn add_code(r: Result<(), &'static str>) -> u64 {
    match r {
        Ok(()) => 0,
        Err("ENR has no compatible UDP socket to connect to") => 1,
        Err("ENR banned by table filter") => 2,
        Err("Table full") => 3,
        Err("Failed bucket filter") => 4,
        Err("Failed table filter") => 5,
        Err("Invalid self update") => 6,
        Err(_) => 7,
    }
}

pub fn run_case(idents: &[Ident], idx: u64, rng: &mut Rng, thorough: bool, hist: &mut Hist) -> CaseResult {
    let rt = runtime();
    rt.block_on(async {
        intern_begin();
        let mode_n = rng.below(3);
        let filter_n = *rng.pick(&[0u64, 0, 1, 2, 2, 3, 3]);
        let ip_limit = rng.chance(1, 6) || FORCE_IP_LIMIT.load(std::sync::atomic::Ordering::SeqCst);
        // with IP limiting forced ("c12ip") one case out of four starts with a scripted opening, in dual
        // stack mode (records with only an IPv6 address are contactable and outside the /24 rules)
        // with the accept-all table filter
        let scripted = FORCE_IP_LIMIT.load(std::sync::atomic::Ordering::SeqCst) && idx % 4 == 1;
        // the other scripted openings (any IP mode; a table filter that rejects everything is replaced by
        // accept-all): idx % 4 == 1 without forced IP limiting: a full bucket with a pending candidate and
        // who-are-you queries; idx % 4 == 3: who-are-you queries and lookup requests around a lookup
        // idx % 8 == 2: the PONG of a pending candidate of which a running lookup holds an older record
        let opening = match idx % 4 {
            1 if scripted => 1,
            1 => 2,
            3 => 3,
            2 if idx % 8 == 2 => 4,
            _ => 0,
        };
        let (mode_n, filter_n) = match opening {
            1 => (2, 0),
            2 | 3 | 4 => (mode_n, if filter_n == 1 { 0 } else { filter_n }),
            _ => (mode_n, filter_n),
        };
        let mode = [IpMode::Ip4, IpMode::Ip6, IpMode::DualStack][mode_n as usize];
        let mut recs = Recs::new(idents);
        // the actors of this case
        let mut actors: Vec<usize> = vec![];
        while actors.len() < 12 {
            let i = rng.below(idents.len() as u64) as usize;
            if !actors.contains(&i) {
                actors.push(i);
            }
        }
        let local = actors[0];
        let local_spec = RecSpec {
            ident: local,
            seq: 1,
            udp4: if mode_n != 1 { Some(([127, 0, 0, 1], 9000)) } else { None },
            udp6: if mode_n != 0 { Some(([0, 0, 0, 0, 0, 0, 0, 0, 0, 0, 0, 0, 0, 0, 0, 1], if mode_n == 1 { 9000 } else { 9001 })) } else { None },
            size: 0,
        };
        let li = recs.get(&local_spec);
        // a third of the cases hand the service sockets the application created itself (same modes)
        let from_sockets = rng.chance(1, 3);
        let mut cb = base_config(if from_sockets { mode_n + 3 } else { mode_n });
        cb.table_filter(table_filter(filter_n));
        if ip_limit {
            cb.ip_limit();
        }
        let a = Svc::new(recs.list[li].enr.clone(), idents[local].key(), cb.build()).await;
        ban_clear();
        let mut c = Ctx {
            a,
            recs,
            idents,
            mode,
            filter: table_filter(filter_n),
            local,
            ip_limit,
            outstanding: vec![],
            who_answers: vec![],
            lookup: None,
            inexact: false,
            steps: vec![],
            failures: vec![],
            now: 0,
            changes: 0,
            h: 1469598103934665603,
            descr: vec![],
            hist,
        };
        if c.a.s.ip_mode != mode {
            c.failures.push(("C12".into(), "the service does not run in the configured IP mode".into()));
        }
        c.hist.add(&format!("c12:mode_{:?}{}", mode, if from_sockets { "_from_sockets" } else { "" }));
        c.hist.add(&format!("c12:filter_{}", ["accept_all", "reject_all", "reject_subnet", "reject_seq_ge_100"][filter_n as usize]));
        let nsteps = if thorough { rng.range(30, 70) } else { rng.range(18, 40) };
        if c.a.alive() {
            match opening {
                1 => {
                    ip_limit_opening(&mut c).await;
                    refresh_tail(&mut c).await;
                }
                2 => full_bucket_opening(&mut c).await,
                3 => lookup_opening(&mut c, &actors, rng).await,
                4 => pending_pong_opening(&mut c, rng).await,
                _ => {}
            }
        }
        for _ in 0..nsteps {
            if !c.a.alive() {
                c.failures.push(("C12".into(), "the service task ended (panic)".into()));
                break;
            }
            let before = snapshot(&c.a.s.kbuckets.read());
            let pick_actor = |rng: &mut Rng| -> usize {
                // the local identity itself now and then
                if rng.chance(1, 25) {
                    local
                } else {
                    actors[1 + rng.below(actors.len() as u64 - 1) as usize]
                }
            };
            match rng.weighted(&[30, 12, 12, 10, 10, 8, 4, 6, 8, 3, 8]) {
                0 => {
                    // session established
                    let i = pick_actor(rng);
                    let ri = c.recs.get(&shape(rng, i));
                    let enr = c.recs.list[ri].enr.clone();
                    let incoming = rng.chance(1, 2);
                    let sock = contactable(mode, &enr).unwrap_or(sock4([10, 0, 0, 99], 1));
                    let dir = if incoming { ConnectionDirection::Incoming } else { ConnectionDirection::Outgoing };
                    c.a.inject(HandlerOut::Established(enr.clone(), sock, dir)).await;
                    let evs = c.a.events();
                    let inserted = evs.iter().any(|e| matches!(e, Event::NodeInserted { node_id, replaced: None } if node_id.raw() == idents[i].id));
                    c.absorb();
                    let vid = c.recs.list[ri].vid;
                    c.hist.add("c12:op_established");
                    c.record(&before, format!("XEst {} {}", vid, coq_bool(incoming)), vec![inserted as u64], "established", Some(idents[i].id), &[ri]);
                }
                1 => {
                    // add_enr by the user
                    let i = pick_actor(rng);
                    let ri = c.recs.get(&shape(rng, i));
                    let enr = c.recs.list[ri].enr.clone();
                    let code = add_code(c.a.s.discv5.add_enr(enr.clone()));
                    check_unaffected(&mut c, &enr, code);
                    if code == 0 && contactable(mode, &enr).is_none() {
                        c.failures.push(("C12".into(), format!("add_enr accepted a record that has no socket the node can contact in IP mode {:?}", mode)));
                    }
                    let vid = c.recs.list[ri].vid;
                    c.hist.add(&format!("c12:op_add_enr_{}", code));
                    c.record(&before, format!("XAdd {}", vid), vec![code], "add_enr", Some(idents[i].id), &[ri]);
                }
                2 => {
                    // a lookup: NODES answers reach discovered(), the other requests fail
                    if before.is_empty() {
                        continue;
                    }
                    let target = {
                        let b = rng.bytes(32);
                        let mut t = [0u8; 32];
                        t.copy_from_slice(&b);
                        t
                    };
                    c.lookup_started(&target);
                    let handle = tokio::spawn(c.a.s.discv5.find_node(NodeId::new(&target)));
                    settle().await;
                    let mut queue: Vec<usize> = c.absorb();
                    let mut answered = 0;
                    let mut guard = 0;
                    while let Some(oi) = queue.first().cloned() {
                        queue.remove(0);
                        guard += 1;
                        if guard > 80 {
                            break;
                        }
                        if c.outstanding[oi].kind != ReqKind::FindNode {
                            continue;
                        }
                        // while the lookup runs: the handler asks who some node is (now and then from
                        // the address a request is in flight to), or reports a session
                        if rng.chance(1, 5) {
                            let i = pick_actor(rng);
                            let sock = if rng.chance(1, 2) { c.outstanding[oi].addr.socket_addr } else { sock4(v4_host(i).0, 30303) };
                            who_are_you(&mut c, i, sock, "during_lookup").await;
                        }
                        if rng.chance(1, 8) {
                            let i = pick_actor(rng);
                            let ri = c.recs.get(&shape(rng, i));
                            let incoming = rng.chance(1, 2);
                            session(&mut c, i, ri, incoming).await;
                            c.hist.add("c12:op_established_during_lookup");
                            queue.extend(c.absorb());
                        }
                        if c.outstanding[oi].id.0.is_empty() {
                            continue;
                        }
                        let before = snapshot(&c.a.s.kbuckets.read());
                        let o = &c.outstanding[oi];
                        let (rid, src, addr, ds) = (o.id.clone(), o.ident, o.addr.clone(), o.distances.clone());
                        if src == usize::MAX {
                            continue;
                        }
                        let src_id = idents[src].id;
                        if answered < 2 && rng.chance(2, 3) {
                            answered += 1;
                            // records at the requested distances from the responder, all shapes
                            let mut offered: Vec<usize> = vec![];
                            for _ in 0..rng.range(1, 6) {
                                let i = pick_actor(rng);
                                if ds.contains(&log2dist(&src_id, &idents[i].id)) {
                                    offered.push(c.recs.get(&shape(rng, i)));
                                }
                            }
                            let nodes: Vec<Enr> = offered.iter().map(|i| c.recs.list[*i].enr.clone()).collect();
                            c.a.inject(HandlerOut::Response(addr, Box::new(Response { id: rid, body: ResponseBody::Nodes { total: 1, nodes } }))).await;
                            let evs: Vec<u64> = c.a.events().into_iter().filter_map(|e| match e { Event::Discovered(r) => Some(c.recs.vid_of(&r)), _ => None }).collect();
                            let expect_evs: Vec<u64> = offered.iter().filter(|i| c.recs.id_of(**i) != idents[local].id).map(|i| c.recs.list[*i].vid).collect();
                            if evs != expect_evs {
                                c.failures.push(("C12".into(), "the records of an on-distance NODES answer were not all reported as discovered".into()));
                            }
                            c.outstanding[oi].kind = ReqKind::Ping; // consumed (never used again)
                            c.outstanding[oi].id = RequestId(vec![]);
                            c.track_discovered(&before, &src_id, &offered);
                            queue.extend(c.absorb());
                            let vs: Vec<String> = offered.iter().map(|i| c.recs.list[*i].vid.to_string()).collect();
                            c.hist.add("c12:op_discovered");
                            c.record(&before, format!("XDisc {} {}", coq_hex(&src_id), coq_list(&vs)), vec![], "discovered", None, &offered);
                        } else {
                            c.a.inject(HandlerOut::RequestFailed(rid, RequestError::Timeout)).await;
                            c.outstanding[oi].id = RequestId(vec![]);
                            queue.extend(c.absorb());
                            c.hist.add("c12:op_failure");
                            c.record(&before, format!("XFailure {}", coq_hex(&src_id)), vec![], "failure", None, &[]);
                        }
                        if queue.is_empty() {
                            queue = open_lookup_requests(&c);
                        }
                    }
                    end_lookup(&mut c, handle).await;
                }
                3 => {
                    // PONG for one of the service's own pings
                    let cand: Vec<usize> = (0..c.outstanding.len()).filter(|i| c.outstanding[*i].kind == ReqKind::Ping).collect();
                    if cand.is_empty() {
                        continue;
                    }
                    let oi = *rng.pick(&cand);
                    // for a node that is no entry (any more) the service consults the records its running queries hold
                    // (`find_enr`): when a lookup was left running the harness does not know them
                    if !who_predictable(&c, c.outstanding[oi].ident) {
                        c.hist.add("c12:op_pong_skipped_records_of_lookups_not_known");
                        continue;
                    }
                    let o = c.outstanding.remove(oi);
                    let seq = *rng.pick(&[0u64, 1, 2, 3, 4, 6, 101, 102]);
                    let (ip, port) = (IpAddr::V4(Ipv4Addr::new(203, 0, 113, 5)), NonZeroU16::new(9000).unwrap());
                    c.a.inject(HandlerOut::Response(o.addr.clone(), Box::new(Response { id: o.id.clone(), body: ResponseBody::Pong { enr_seq: seq, ip, port } }))).await;
                    let new = c.absorb();
                    let wanted = new.iter().any(|i| c.outstanding[*i].kind == ReqKind::EnrRequest && c.outstanding[*i].ident == o.ident);
                    let _ = c.a.events();
                    c.hist.add("c12:op_pong");
                    c.record(&before, format!("XPong {} {}", coq_hex(&idents[o.ident].id), seq), vec![wanted as u64], "pong", None, &[]);
                }
                4 => {
                    // a request of the service fails
                    if c.outstanding.is_empty() {
                        continue;
                    }
                    let oi = rng.below(c.outstanding.len() as u64) as usize;
                    let o = c.outstanding.remove(oi);
                    c.a.inject(HandlerOut::RequestFailed(o.id.clone(), RequestError::Timeout)).await;
                    c.absorb();
                    c.hist.add("c12:op_failure");
                    c.record(&before, format!("XFailure {}", coq_hex(&idents[o.ident].id)), vec![], "failure", None, &[]);
                }
                5 => {
                    // PING from a node (known or not)
                    let i = pick_actor(rng);
                    if i == local {
                        continue;
                    }
                    let seq = *rng.pick(&[0u64, 1, 2, 3, 4, 6, 101, 102]);
                    let addr = NodeAddress { socket_addr: sock4([10, 0, 0, (i % 250) as u8 + 1], 30303), node_id: idents[i].node_id() };
                    c.a.inject(HandlerOut::Request(addr.clone(), Box::new(Request { id: RequestId(vec![1, 2, 3]), body: RequestBody::Ping { enr_seq: seq } }))).await;
                    let new = c.absorb();
                    let wanted = new.iter().any(|k| c.outstanding[*k].kind == ReqKind::EnrRequest && c.outstanding[*k].ident == i);
                    c.hist.add("c12:op_ping_request");
                    c.record(&before, format!("XPing {} {}", coq_hex(&idents[i].id), seq), vec![wanted as u64], "ping", None, &[]);
                }
                6 => {
                    // the handler reports an unverifiable record
                    let i = pick_actor(rng);
                    // the reported record is the peer's own, or (the peer handed over a record that
                    // is not its own) the record of another node: only the peer itself is affected
                    let j = if rng.chance(1, 3) { pick_actor(rng) } else { i };
                    let ri = c.recs.get(&shape(rng, j));
                    let enr = c.recs.list[ri].enr.clone();
                    let had_j = snapshot(&c.a.s.kbuckets.read()).iter().any(|(k, _, _)| *k == idents[j].id);
                    c.a.inject(HandlerOut::UnverifiableEnr { enr, socket: sock4([10, 0, 0, 77], 30303), node_id: idents[i].node_id() }).await;
                    c.absorb();
                    if j != i {
                        c.hist.add("c12:op_unverifiable_with_foreign_record");
                        let has_j = snapshot(&c.a.s.kbuckets.read()).iter().any(|(k, _, _)| *k == idents[j].id);
                        if had_j && !has_j {
                            c.failures.push(("C01".into(), "the routing-table entry of a node that took no part in the handshake was removed because another peer presented its record".into()));
                        }
                    }
                    c.hist.add("c12:op_unverifiable");
                    c.record(&before, format!("XUnv {}", coq_hex(&idents[i].id)), vec![], "unverifiable", None, &[]);
                }
                7 => {
                    // user calls: remove_node / disconnect_node
                    let i = pick_actor(rng);
                    if rng.chance(1, 2) {
                        let _ = c.a.s.discv5.remove_node(&idents[i].node_id());
                        c.hist.add("c12:op_remove_node");
                        c.record(&before, format!("XUnv {}", coq_hex(&idents[i].id)), vec![], "remove_node", None, &[]);
                    } else {
                        let _ = c.a.s.discv5.disconnect_node(&idents[i].node_id());
                        c.hist.add("c12:op_disconnect_node");
                        c.record(&before, format!("XDisconnect {}", coq_hex(&idents[i].id)), vec![], "disconnect_node", None, &[]);
                    }
                }
                8 => {
                    // answer an ENR request with the peer's own (possibly newer) record
                    let cand: Vec<usize> = (0..c.outstanding.len()).filter(|i| c.outstanding[*i].kind == ReqKind::EnrRequest).collect();
                    if cand.is_empty() {
                        continue;
                    }
                    let oi = *rng.pick(&cand);
                    let o = c.outstanding.remove(oi);
                    let ri = c.recs.get(&shape(rng, o.ident));
                    let enr = c.recs.list[ri].enr.clone();
                    c.a.inject(HandlerOut::Response(o.addr.clone(), Box::new(Response { id: o.id.clone(), body: ResponseBody::Nodes { total: 1, nodes: vec![enr] } }))).await;
                    c.absorb();
                    let _ = c.a.events();
                    let vid = c.recs.list[ri].vid;
                    c.hist.add("c12:op_enr_update_answer");
                    c.record(&before, format!("XDisc {} [{}]", coq_hex(&idents[o.ident].id), vid), vec![], "discovered", None, &[ri]);
                }
                10 => {
                    // the handler asks who some node is: from the node's own address, from the address
                    // a request of the service is in flight to, or from some other address
                    let i = pick_actor(rng);
                    let sock = match rng.below(3) {
                        0 => sock4(v4_host(i).0, 30303),
                        1 if !c.outstanding.is_empty() => c.outstanding[rng.below(c.outstanding.len() as u64) as usize].addr.socket_addr,
                        _ => sock4([10, 0, 9, 9], 4444),
                    };
                    who_are_you(&mut c, i, sock, "random").await;
                }
                _ => {
                    // the ping interval elapses: connected peers are pinged (no table operation; the
                    // routing table reads std::time::Instant, which the paused tokio clock does not move:
                    // a pending node's timeout does not elapse here)
                    tokio::time::advance(std::time::Duration::from_secs(301)).await;
                    settle().await;
                    let n = c.absorb().len();
                    c.hist.add(if n > 0 { "c12:ping_interval_pings" } else { "c12:ping_interval_idle" });
                    let after = snapshot(&c.a.s.kbuckets.read());
                    if after.len() != before.len() {
                        c.failures.push(("C12".into(), "the table changed while only time passed".into()));
                    }
                }
            }
            // keep one failure per description and go on: the later steps still exercise the model
            let mut seen = BTreeSet::new();
            c.failures.retain(|f| seen.insert(f.1.clone()));
            if c.failures.len() > 6 {
                break;
            }
        }
        let rtable = c.recs.coq();
        let ktable = intern_end();
        let coq = format!(
            "(let K := fun i : N => nth (N.to_nat i) {} 0 in\n ({}, ({}, {}, {}, {}),\n {},\n [{}]))",
            ktable,
            idx,
            mode_n,
            filter_n,
            coq_bool(ip_limit),
            coq_hex_raw(&idents[local].id),
            rtable,
            c.steps.join(";\n  ")
        );
        let sample = J::obj(vec![
            ("case", J::I(idx as i64)),
            ("ip_mode", J::s(format!("{:?}", mode))),
            ("table_filter", J::s(["accept_all", "reject_all", "reject_subnet_10.0.1.0/24", "reject_seq_ge_100"][filter_n as usize])),
            ("ip_limit", J::B(ip_limit)),
            ("steps", J::A(c.descr.iter().map(|d| J::s(d.clone())).collect())),
        ]);
        let nontrivial = c.changes >= 3;
        CaseResult { coq: Some(coq), failures: c.failures, nontrivial, canon: c.h, steps: c.steps.len(), sample }
    })
}
