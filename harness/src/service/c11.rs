//! C11: NODES responses are validated; honest peers are never banned.
use super::*;
use discv5::RequestError;

#[derive(Clone, Debug)]
enum Step {
    /// NODES packet for the request: total, records (indices into the record table)
    Nodes(u64, Vec<usize>),
    /// the same with a different request id (must have no effect; not part of the model's stream)
    OtherId(u64, Vec<usize>),
    /// HandlerOut::RequestFailed for the request
    Fail,
}

fn plain_spec(ident: usize, seq: u64, size: usize) -> RecSpec {
    RecSpec {
        ident,
        seq,
        udp4: Some(([10, (ident / 250) as u8, (ident % 5) as u8, (ident % 250) as u8 + 1], 30303)),
        udp6: None,
        size,
    }
}

/// A table filter for the requester: rejects records whose sequence number is a multiple of 4.
fn seq_filter(e: &Enr) -> bool {
    e.seq() % 4 != 0
}

fn fmt_ds(ds: &[u64]) -> String {
    format!("{:?}", ds)
}

/// C11 "a responder that returns records at other distances is banned": right after such an answer was handled the
/// responder's node id and IP address are on the ban list, for ever when bans are configured not to lapse, else until
/// no earlier than the configured ban duration after the moment the answer was handed to the service (`t_before`,
/// the clock of the ban list is `std::time::Instant`). `None`: in force; otherwise what is wrong.
fn ban_in_force(peer: &NodeAddress, t_before: std::time::Instant, ban_dur: Option<std::time::Duration>) -> Option<String> {
    let l = discv5::verif::filter::permit_ban_snapshot();
    let entries = [("node id", l.ban_nodes.get(&peer.node_id).cloned()), ("IP address", l.ban_ips.get(&peer.socket_addr.ip()).cloned())];
    for (what, e) in entries {
        match (e, ban_dur) {
            (None, _) => return Some(format!("the responder's {} is not on the ban list", what)),
            (Some(None), None) => {}
            (Some(Some(_)), None) => return Some(format!("the ban of the responder's {} lapses although bans are configured to last for ever", what)),
            (Some(None), Some(_)) => {} // (for ever covers every duration)
            (Some(Some(until)), Some(d)) => {
                if until < t_before + d {
                    let now = std::time::Instant::now();
                    return Some(format!(
                        "the ban of the responder's {} {} - the configured ban duration does not run from this answer",
                        what,
                        if until <= now { "has already run out" } else { "ends earlier than the configured duration after this answer" }
                    ));
                }
            }
        }
    }
    None
}

pub fn run_case(idents: &[Ident], idx: u64, rng: &mut Rng, thorough: bool, hist: &mut Hist) -> CaseResult {
    let rt = runtime();
    rt.block_on(async {
        intern_begin();
        // the choices added later draw from a stream of their own (the older choices of a case stay what they were)
        let mut rng2 = Rng::new(rng.0 ^ 0x0c11_72e9_ea7e_d0ff);
        let mut recs = Recs::new(idents);
        let n = idents.len() as u64;
        let l = rng.below(n) as usize;
        let p = loop {
            let x = rng.below(n) as usize;
            if x != l {
                break x;
            }
        };
        let (lid, pid) = (idents[l].id, idents[p].id);

        // distance class between the lookup target and the peer
        let d: u64 = if thorough && idx < 257 {
            idx
        } else {
            match idx % 8 {
                0 => 1,
                1 => 0,
                2 => 2,
                _ => match rng.below(10) {
                    0..=5 => rng.range(249, 256),
                    6 => rng.range(240, 250),
                    _ => rng.range(1, 256),
                },
            }
        };
        let target = id_at(rng, &pid, d);
        let kind: u64 = if d == 0 && rng.chance(1, 3) { 2 } else { *rng.pick(&[0u64, 0, 0, 0, 0, 1, 2]) };
        let honest = rng.chance(1, 2);
        let a_max = *rng.pick(&[16usize, 16, 16, 16, 1, 3, 40, 0]);
        let (_, max_responses, per_peer) = constants();

        // ---- the two services (B first: Discv5::new resets the global ban list)
        let b_max = *rng.pick(&[16usize, 16, 16, 5, 40]);
        let p_rec = recs.get(&plain_spec(p, 3, *rng.pick(&[0usize, 0, 300])));
        let p_enr = recs.list[p_rec].enr.clone();
        let mut b = if honest {
            let mut cb = base_config(0);
            cb.max_nodes_response(b_max);
            Some(Svc::new(p_enr.clone(), idents[p].key(), cb.build()).await)
        } else {
            None
        };
        let l_rec = recs.get(&plain_spec(l, 1, 0));
        let l_enr = recs.list[l_rec].enr.clone();
        let mut ca = base_config(0);
        ca.max_nodes_response(a_max);
        // configurations the statement does not depend on: the lifetime of a ban (None = for ever),
        // a table filter of the requester (it decides what enters the routing table, not what a
        // responder may send), the responder's IP address on the permit list (node bans still apply)
        let ban_cfg = rng.below(3);
        match ban_cfg {
            0 => {
                ca.ban_duration(None);
            }
            1 => {
                ca.ban_duration(Some(std::time::Duration::from_secs(600)));
            }
            _ => {}
        }
        // one case in eight: bans of 25 ms (the ban list reads std::time::Instant - real time; a ban that has run
        // out stays on the list until the handler's sweep, every 300 s)
        let short_ban = rng2.chance(1, 8);
        if short_ban {
            ca.ban_duration(Some(std::time::Duration::from_millis(25)));
        }
        let with_table_filter = rng.chance(1, 3);
        if with_table_filter {
            ca.table_filter(seq_filter);
        }
        let permit_ip = rng.chance(1, 4);
        let a_cfg = ca.build();
        let ban_dur: Option<std::time::Duration> = a_cfg.ban_duration;
        let mut a = Svc::new(l_enr.clone(), idents[l].key(), a_cfg).await;
        ban_clear();
        if permit_ip {
            let mut list = discv5::PermitBanList::default();
            list.permit_ips.insert(contactable(IpMode::Ip4, &p_enr).unwrap().ip());
            discv5::verif::filter::permit_ban_reset(list);
        }
        hist.add(&format!("c11:cfg_ban_{}", if short_ban { "25ms" } else { ["forever", "10min", "default"][ban_cfg as usize] }));
        if with_table_filter {
            hist.add("c11:cfg_table_filter");
        }
        if permit_ip {
            hist.add("c11:cfg_responder_ip_permitted");
        }
        a.s.discv5.add_enr(p_enr.clone()).expect("peer record accepted");
        let p_sock = contactable(IpMode::Ip4, &p_enr).unwrap();
        let p_addr = NodeAddress { socket_addr: p_sock, node_id: idents[p].node_id() };
        let a_addr = NodeAddress { socket_addr: sock4([10, 9, 9, 9], 9000), node_id: idents[l].node_id() };

        // ---- issue the request
        let user_ds: Vec<u64> = match rng.below(5) {
            0 => vec![0],
            1 => vec![256, 255, 0],
            2 => vec![0, 0],
            3 => vec![300, 255, 256],
            _ => vec![rng.range(250, 256), rng.range(250, 256)],
        };
        let mut user_handle = None;
        let mut query_handle = None;
        match kind {
            0 => query_handle = Some(tokio::spawn(a.s.discv5.find_node(NodeId::new(&target)))),
            1 => user_handle = Some(tokio::spawn(a.s.discv5.find_node_designated_peer(p_enr.clone(), user_ds.clone()))),
            _ => {
                // PING announcing a newer record makes the service request the peer's ENR
                a.s.inject(HandlerOut::Request(
                    p_addr.clone(),
                    Box::new(Request { id: RequestId(vec![7]), body: RequestBody::Ping { enr_seq: p_enr.seq() + 1 } }),
                ));
            }
        }
        settle().await;
        let mut req: Option<(RequestId, Vec<u64>)> = None;
        for m in a.drain() {
            if let HandlerIn::Request(contact, r) = m {
                if contact.node_id() == idents[p].node_id() {
                    if let RequestBody::FindNode { distances } = &r.body {
                        if req.is_none() {
                            req = Some((r.id.clone(), distances.clone()));
                        }
                    }
                }
            }
        }
        let mut failures: Vec<(String, String)> = vec![];
        let (rid, ds) = match req {
            Some(x) => x,
            None => {
                let _ = intern_end();
                failures.push(("C11".into(), format!("no FINDNODE request was sent to the peer (kind {})", kind)));
                return CaseResult { coq: None, failures, nontrivial: false, canon: 0, steps: 0, sample: J::I(idx as i64) };
            }
        };
        // what the implementation itself computes for this target and peer (hook around rpc_request)
        if kind == 0 {
            let expect = lookup_distances(NodeId::new(&target), idents[p].node_id(), per_peer);
            if expect.as_ref() != Some(&ds) {
                failures.push(("C11".into(), "the distances of the lookup request differ from QueryInfo::rpc_request".into()));
            }
            // property text: the exact distance first, then adjacent ones, all distinct and <= 256
            let exact = if d == 0 { vec![0] } else { ds.clone() };
            let mut sorted = exact.clone();
            sorted.sort_unstable();
            sorted.dedup();
            if d > 0 && (ds.len() != per_peer || ds[0] != d || sorted.len() != ds.len() || ds.iter().any(|x| *x > 256 || x.abs_diff(d) > per_peer as u64)) {
                failures.push(("C11".into(), format!("lookup distances {} are not {} distinct distances adjacent to the exact distance", fmt_ds(&ds), per_peer)));
            }
            if d == 0 && ds != vec![0] {
                failures.push(("C11".into(), "lookup for the peer's own id does not request distance 0".into()));
            }
        }
        hist.add(&format!("c11:kind_{}", ["lookup", "user_designated", "enr_request"][kind as usize]));
        hist.add(&format!("c11:class_{}", match d { 0 => "0", 1 => "1", 2 => "2", 3..=239 => "3-239", 240..=248 => "240-248", _ => "249-256" }));

        // ---- candidate records by their relation to the request
        let on_dist = |k: &K32| ds.contains(&log2dist(&pid, k));
        let mut on: Vec<usize> = vec![];
        let mut off: Vec<usize> = vec![];
        for (i, id) in idents.iter().enumerate() {
            if i == p || i == l {
                continue;
            }
            if on_dist(&id.id) {
                if on.len() < 60 {
                    on.push(i);
                }
            } else if off.len() < 60 {
                off.push(i);
            }
        }

        // ---- the answer
        let mut steps: Vec<Step> = vec![];
        let mut honest_total_records = 0usize;
        let mut served_failure = None;
        if let Some(b) = b.as_mut() {
            // B's table: random identities (those close to P included), sometimes the requester
            let mut members: BTreeSet<usize> = BTreeSet::new();
            let want = *rng.pick(&[0u64, 5, 20, 60, 120]);
            while (members.len() as u64) < want {
                let i = rng.below(n) as usize;
                if i != p && i != l {
                    members.insert(i);
                }
            }
            for i in on.iter().take(rng.below(20) as usize) {
                members.insert(*i);
            }
            if rng.chance(1, 2) {
                members.insert(l);
            }
            for i in members {
                let ri = if i == l { l_rec } else { recs.get(&plain_spec(i, rng.range(1, 9), *rng.pick(&[0usize, 0, 300, 200]))) };
                let key = discv5::Key::from(idents[i].node_id());
                let _ = b.s.kbuckets.write().insert_or_update(&key, recs.list[ri].enr.clone(), status(rng.chance(2, 3), rng.chance(1, 3)));
            }
            let before = table_content(&b.s.kbuckets.read());
            b.inject(HandlerOut::Request(
                a_addr.clone(),
                Box::new(Request { id: rid.clone(), body: RequestBody::FindNode { distances: ds.clone() } }),
            ))
            .await;
            let msgs = b.drain();
            let served = collect_served(&msgs, &a_addr, &pid, rng);
            let (max_packet, _, _) = constants();
            served_failure = check_served(&served, &rid.0, &ds, &lid, &p_enr, &before, b_max, max_packet);
            for (_, total, nodes, _) in &served.packets {
                let mut v = vec![];
                for e in nodes {
                    let i = idents.iter().position(|x| x.id == e.node_id().raw()).unwrap_or(0);
                    v.push(recs.adopt(i, e));
                }
                honest_total_records += v.len();
                steps.push(Step::Nodes(*total, v));
            }
            hist.add(&format!("c11:honest_packets_{}", served.packets.len().min(6)));
        } else {
            let rec_of = |recs: &mut Recs, rng: &mut Rng, cat: u64| -> Option<usize> {
                match cat {
                    0 | 1 | 2 if !on.is_empty() => Some(recs.get(&plain_spec(*rng.pick(&on), *rng.pick(&[1u64, 1, 4]), 0))),
                    3 if !off.is_empty() => Some(recs.get(&plain_spec(*rng.pick(&off), 1, 0))),
                    4 => Some(p_rec),
                    5 => Some(l_rec),
                    6 if !on.is_empty() => Some(recs.get(&plain_spec(on[0], 1, 0))), // a duplicate
                    _ => None,
                }
            };
            let malicious_weight: u64 = *rng.pick(&[0u64, 0, 1, 2, 4]);
            let gen_packet = |recs: &mut Recs, rng: &mut Rng, k: u64| -> Vec<usize> {
                let mut v = vec![];
                for _ in 0..k {
                    let cat = if rng.below(8) < malicious_weight { rng.range(3, 6) } else { rng.below(3) };
                    if let Some(r) = rec_of(recs, rng, cat) {
                        v.push(r);
                    }
                }
                v
            };
            match rng.below(8) {
                0 | 1 => {
                    // a single packet
                    let total = *rng.pick(&[1u64, 1, 1, 0]);
                    let k = rng.below(6);
                    steps.push(Step::Nodes(total, gen_packet(&mut recs, rng, k)));
                }
                2 | 3 => {
                    // a consistent multi-packet answer, with a stray packet of another id in between
                    let total = rng.range(2, 6);
                    for i in 0..total {
                        let k = rng.below(5);
                        steps.push(Step::Nodes(total, gen_packet(&mut recs, rng, k)));
                        if i == 0 && rng.chance(1, 2) {
                            steps.push(Step::OtherId(1, gen_packet(&mut recs, rng, 2)));
                        }
                    }
                }
                4 => {
                    // far more packets than allowed, huge claimed totals
                    let total = *rng.pick(&[16u64, 100, u64::MAX, 1 << 32]);
                    for _ in 0..(max_responses as u64 + 3) {
                        let k = if a_max >= 16 { rng.below(2) } else { 1 };
                        steps.push(Step::Nodes(total, gen_packet(&mut recs, rng, k)));
                    }
                }
                5 => {
                    // totals that change between packets
                    for _ in 0..rng.range(2, 5) {
                        let total = *rng.pick(&[0u64, 1, 2, 3, 5, u64::MAX]);
                        let k = rng.below(4);
                        steps.push(Step::Nodes(total, gen_packet(&mut recs, rng, k)));
                    }
                }
                6 => {
                    // partial answer, then the request fails
                    let total = rng.range(3, 6);
                    for _ in 0..rng.range(1, 2) {
                        let k = rng.range(1, 4);
                        steps.push(Step::Nodes(total, gen_packet(&mut recs, rng, k)));
                    }
                    steps.push(Step::Fail);
                    steps.push(Step::Nodes(total, gen_packet(&mut recs, rng, 2)));
                }
                _ => {
                    // duplicate packets
                    let total = rng.range(1, 4);
                    let k = rng.range(1, 4);
                    let pk = gen_packet(&mut recs, rng, k);
                    for _ in 0..rng.range(2, 5) {
                        steps.push(Step::Nodes(total, pk.clone()));
                    }
                }
            }
        }
        // packets after the end of the exchange: a fresh on-distance record and an off-distance one
        let probe: Vec<usize> = {
            let mut v = vec![];
            if let Some(i) = on.last() {
                v.push(recs.get(&plain_spec(*i, 2, 0)));
            }
            if let Some(i) = off.last() {
                v.push(recs.get(&plain_spec(*i, 2, 0)));
            }
            v
        };
        let n_regular = steps.len();
        steps.push(Step::Nodes(1, probe.clone()));

        // ---- run the answer through A
        let off_distance = |recs: &Recs, i: usize| -> bool {
            let k = recs.id_of(i);
            !ds.contains(&log2dist(&pid, &k))
        };
        let mut coq_steps: Vec<String> = vec![];
        let mut injected = 0u64; // NODES packets with the request's id
        let mut must_be_complete = false;
        let mut was_banned = false;
        let mut h: u64 = 1469598103934665603;
        let mut nontrivial = false;
        let mut all_events: Vec<u64> = vec![];
        let mut user_done = false;
        // C11 "records accepted are exactly those at the requested distances": what the answer has delivered so far
        // (records at a requested distance, the requester's own record aside), and whether it is over
        let const_total = {
            let ts: Vec<u64> = steps.iter().take(n_regular).filter_map(|s| if let Step::Nodes(t, _) = s { Some(*t) } else { None }).collect();
            ts.windows(2).all(|w| w[0] == w[1])
        };
        let mut delivered: Vec<u64> = vec![];
        let mut received_valid = 0usize;
        let mut answer_over = false;
        for (si, st) in steps.iter().enumerate() {
            if !a.alive() {
                failures.push(("C11".into(), "the service task ended (panic)".into()));
                break;
            }
            let (total, vs, same_id) = match st {
                Step::Nodes(t, v) => (*t, v.clone(), true),
                Step::OtherId(t, v) => (*t, v.clone(), false),
                Step::Fail => (0, vec![], true),
            };
            let is_fail = matches!(st, Step::Fail);
            let t_before = std::time::Instant::now();
            if is_fail {
                a.inject(HandlerOut::RequestFailed(rid.clone(), RequestError::Timeout)).await;
            } else {
                let id = if same_id { rid.clone() } else { RequestId(vec![0xee, 0xee, 0xee]) };
                let nodes: Vec<Enr> = vs.iter().map(|i| recs.list[*i].enr.clone()).collect();
                a.inject(HandlerOut::Response(p_addr.clone(), Box::new(Response { id, body: ResponseBody::Nodes { total, nodes } }))).await;
            }
            let _ = a.drain();
            let evs: Vec<Enr> = a
                .events()
                .into_iter()
                .filter_map(|e| match e {
                    Event::Discovered(enr) => Some(enr),
                    _ => None,
                })
                .collect();
            let banned_now = ban_snapshot().1.contains(&idents[p].node_id());
            let mut user: Vec<u64> = vec![0];
            if let Some(hd) = user_handle.as_ref() {
                if hd.is_finished() && !user_done {
                    user_done = true;
                    match user_handle.take().unwrap().await {
                        Ok(Ok(list)) => {
                            user = vec![1, list.len() as u64];
                            user.extend(list.iter().map(|e| recs.vid_of(e)));
                        }
                        _ => user = vec![2],
                    }
                }
            }
            // ---- direct monitor
            let honest_stream = honest && si < n_regular;
            if kind != 1 {
                for e in &evs {
                    let k = e.node_id().raw();
                    if !ds.contains(&log2dist(&pid, &k)) {
                        failures.push(("C11".into(), format!("a record at log2 distance {} from the responder was accepted although the request asked for {}", log2dist(&pid, &k), fmt_ds(&ds))));
                    }
                }
                if same_id && !is_fail && injected == 0 {
                    let any_off = vs.iter().any(|i| off_distance(&recs, *i));
                    if any_off && !banned_now {
                        failures.push(("C11".into(), format!("responder not banned although its first packet carries a record at a distance outside {}", fmt_ds(&ds))));
                    }
                    if any_off {
                        if let Some(m) = ban_in_force(&p_addr, t_before, ban_dur) {
                            failures.push(("C11".into(), format!("after an answer with a record at a distance that was not requested {}", m)));
                        }
                    }
                    if !any_off && banned_now {
                        failures.push(("C11".into(), format!("responder banned although every record of its answer is at a requested distance {}", fmt_ds(&ds))));
                    }
                }
            } else if banned_now {
                failures.push(("C11".into(), "responder banned on a user-designated request".into()));
            }
            // a request that fails (the rest of a multi-packet answer never arrived in time) is no offence: whatever
            // the peer had sent before, a failing request never puts it on the ban list
            if is_fail && kind != 1 {
                let l = discv5::verif::filter::permit_ban_snapshot();
                let ip_listed = l.ban_ips.contains_key(&p_addr.socket_addr.ip());
                if (banned_now && !was_banned) || (ip_listed && !was_banned) {
                    let got = injected;
                    failures.push((
                        "C11".into(),
                        format!(
                            "the responder was banned when its request timed out after {} of the announced NODES packets had arrived (every record it had sent is at a requested distance {}): its {} on the ban list",
                            got,
                            fmt_ds(&ds),
                            if banned_now && !was_banned { "node id and IP address are" } else { "IP address is" }
                        ),
                    ));
                }
                hist.add(if injected > 0 && !must_be_complete { "c11:request_failed_with_a_partial_answer" } else { "c11:request_failed" });
            }
            // every record of a complete answer that is at a requested distance is accepted - however many there are.
            // The answer is complete with a packet whose total is at most 1, with the last of `total` (or of the packet
            // limit) packets, and with the packet that arrives when max_nodes_response records have been collected.
            if kind != 1 && same_id && !is_fail && !answer_over && const_total && si < n_regular {
                let valid: Vec<u64> = vs.iter().filter(|i| !off_distance(&recs, **i) && recs.id_of(**i) != lid).map(|i| recs.list[*i].vid).collect();
                let valid_all = vs.iter().filter(|i| !off_distance(&recs, **i)).count();
                delivered.extend(valid);
                let count = injected as usize + 1; // packets before this one + 1
                let goes_on = total > 1 && received_valid < a_max && (count as u64) < total && count < max_responses;
                received_valid += valid_all;
                if !goes_on {
                    answer_over = true;
                    let got: Vec<u64> = evs.iter().map(|e| recs.vid_of(e)).collect();
                    if got != delivered {
                        failures.push((
                            "C11".into(),
                            format!(
                                "a complete NODES answer ({} packets) delivered {} records at the requested distances {}, {} of them were accepted (max_nodes_response {})",
                                count,
                                delivered.len(),
                                fmt_ds(&ds),
                                got.len(),
                                a_max
                            ),
                        ));
                    }
                    if delivered.len() > 16 {
                        hist.add("c11:complete_answer_of_more_than_16_valid_records");
                    }
                }
            }
            if is_fail {
                answer_over = true;
            }
            if honest_stream && banned_now && !was_banned {
                failures.push(("C11".into(), format!("honest responder (a real second service answering as the implementation prescribes) was banned; distances requested {}", fmt_ds(&ds))));
            }
            if !same_id && (!evs.is_empty() || (banned_now && !was_banned)) {
                failures.push(("C11".into(), "a NODES packet with an unknown request id had an effect".into()));
            }
            if same_id && must_be_complete && (!evs.is_empty() || (banned_now && !was_banned) || user != vec![0]) {
                failures.push(("C11".into(), format!("a NODES packet was processed after the request had completed ({} packets before it)", injected)));
            }
            if same_id && !is_fail {
                injected += 1;
                // the request is over after a packet with total <= 1, after `total` packets, after
                // MAX_NODES_RESPONSES packets, and (user requests) after the first packet
                if total <= 1 || injected >= total || injected >= max_responses as u64 || kind == 1 {
                    must_be_complete = true;
                }
            }
            if is_fail {
                must_be_complete = true;
            }
            was_banned = banned_now;
            if !vs.is_empty() && same_id {
                nontrivial = true;
            }
            all_events.extend(evs.iter().map(|e| recs.vid_of(e)));
            fnv(&mut h, &format!("{}:{}:{}:{}|", if is_fail { "F" } else if same_id { "N" } else { "O" }, banned_now, evs.len().min(9), user[0]));
            if same_id {
                let mut e = Enc::new();
                e.b(banned_now).n(evs.len() as u64);
                for ev in &evs {
                    e.n(recs.vid_of(ev));
                }
                for u in &user {
                    e.n(*u);
                }
                let spec = if is_fail {
                    "XFail".to_string()
                } else {
                    format!("XNodes {} {}", total, coq_list(&vs.iter().map(|i| recs.list[*i].vid.to_string()).collect::<Vec<_>>()))
                };
                coq_steps.push(format!("({}, {})", spec, e.coq()));
            }
        }
        // ---- the same peer is asked again (monitor only, not part of the model's stream): the lookup is repeated /
        // the peer announces a newer record once more. Whatever happened before - the peer was never banned, is banned,
        // or its ban has run out and still sits on the list - an answer with a record at a distance that was not
        // requested gets it banned for the configured time from THAT answer on, and an answer as the protocol
        // prescribes never gets it banned.
        let mut repeat_descr: Vec<J> = vec![];
        if kind != 1 && a.alive() && failures.is_empty() && rng2.chance(2, 3) {
            if short_ban && was_banned {
                // the ban of the first answer runs out (and stays on the list)
                std::thread::sleep(ban_dur.unwrap_or_default() + std::time::Duration::from_millis(5));
                hist.add("c11:repeat_after_the_first_ban_ran_out");
                repeat_descr.push(J::s("real time passes: the ban of the first answer runs out (it stays on the list until the next sweep)"));
            }
            let _ = a.drain();
            let mut second_handle = None;
            if kind == 0 {
                second_handle = Some(tokio::spawn(a.s.discv5.find_node(NodeId::new(&target))));
            } else {
                a.s.inject(HandlerOut::Request(p_addr.clone(), Box::new(Request { id: RequestId(vec![8]), body: RequestBody::Ping { enr_seq: u64::MAX } })));
            }
            settle().await;
            let mut req2: Option<(RequestId, Vec<u64>)> = None;
            for m in a.drain() {
                if let HandlerIn::Request(contact, r) = m {
                    if contact.node_id() == idents[p].node_id() && r.id != rid {
                        if let RequestBody::FindNode { distances } = &r.body {
                            if req2.is_none() {
                                req2 = Some((r.id.clone(), distances.clone()));
                            }
                        }
                    }
                }
            }
            match req2 {
                None => hist.add("c11:repeat_no_second_request"),
                Some((rid2, ds2)) => {
                    let on2: Vec<usize> = on.iter().cloned().filter(|i| ds2.contains(&log2dist(&pid, &idents[*i].id))).collect();
                    let off2: Vec<usize> = off.iter().cloned().filter(|i| !ds2.contains(&log2dist(&pid, &idents[*i].id))).collect();
                    let offend = !off2.is_empty() && rng2.chance(2, 3);
                    let mut vs: Vec<usize> = vec![];
                    for _ in 0..rng2.below(3) {
                        if !on2.is_empty() {
                            vs.push(recs.get(&plain_spec(*rng2.pick(&on2), 1, 0)));
                        }
                    }
                    if offend {
                        let at = rng2.below(vs.len() as u64 + 1) as usize;
                        vs.insert(at, recs.get(&plain_spec(*rng2.pick(&off2), 1, 0)));
                    }
                    let listed_before = {
                        let l = discv5::verif::filter::permit_ban_snapshot();
                        l.ban_nodes.contains_key(&p_addr.node_id) || l.ban_ips.contains_key(&p_addr.socket_addr.ip())
                    };
                    let nodes: Vec<Enr> = vs.iter().map(|i| recs.list[*i].enr.clone()).collect();
                    repeat_descr.push(J::s(format!(
                        "the same peer is asked again ({}), distances {:?}; it answers with NODES total=1 records at distances {:?}",
                        if kind == 0 { "the lookup is repeated" } else { "it announces a newer record in a PING" },
                        ds2,
                        vs.iter().map(|i| log2dist(&pid, &recs.id_of(*i))).collect::<Vec<_>>()
                    )));
                    let t_before = std::time::Instant::now();
                    a.inject(HandlerOut::Response(p_addr.clone(), Box::new(Response { id: rid2, body: ResponseBody::Nodes { total: 1, nodes } }))).await;
                    let _ = a.drain();
                    let _ = a.events();
                    if offend {
                        hist.add(if listed_before { "c11:repeat_offence_of_a_listed_peer" } else { "c11:repeat_offence_of_an_unlisted_peer" });
                        if let Some(m) = ban_in_force(&p_addr, t_before, ban_dur) {
                            failures.push((
                                "C11".into(),
                                format!(
                                    "after a further answer of the same peer with a record at a distance that was not requested ({}) {}",
                                    if listed_before { "the peer was on the ban list from its earlier answer" } else { "the peer was not on the ban list" },
                                    m
                                ),
                            ));
                        }
                    } else {
                        hist.add("c11:repeat_proper_answer");
                        let l = discv5::verif::filter::permit_ban_snapshot();
                        if !listed_before && (l.ban_nodes.contains_key(&p_addr.node_id) || l.ban_ips.contains_key(&p_addr.socket_addr.ip())) {
                            failures.push(("C11".into(), format!("responder banned although every record of its (second) answer is at a requested distance {}", fmt_ds(&ds2))));
                        }
                    }
                }
            }
            drop(second_handle);
        }
        // honest answer that fits the collection limits: every record must have been accepted
        if honest && kind != 1 {
            let fits = (n_regular as u64) <= max_responses as u64 && honest_total_records <= a_max.max(1) && a_max > 0;
            if fits {
                let mut expect: Vec<u64> = vec![];
                for st in steps.iter().take(n_regular) {
                    if let Step::Nodes(_, v) = st {
                        for i in v {
                            if recs.id_of(*i) != lid {
                                expect.push(recs.list[*i].vid);
                            }
                        }
                    }
                }
                let got: Vec<u64> = all_events.clone();
                if got != expect {
                    failures.push(("C11".into(), format!("records of an honest answer were not accepted: {} of {} (distances requested {})", got.len(), expect.len(), fmt_ds(&ds))));
                }
            }
        }
        if let Some(m) = served_failure {
            failures.push(("C14".into(), m));
        }
        if was_banned {
            hist.add("c11:responder_banned");
        }
        hist.add(if honest { "c11:honest_answer" } else { "c11:scripted_answer" });
        fnv(&mut h, &format!("k{}d{}", kind, ds.len()));
        drop(query_handle);

        let rtable = recs.coq();
        let ktable = intern_end();
        let coq = format!(
            "(let K := fun i : N => nth (N.to_nat i) {} 0 in\n ({}, ({}, {}, {}), ({}, {}, {}),\n {},\n [{}]))",
            ktable,
            idx,
            coq_hex_raw(&lid),
            coq_hex_raw(&pid),
            coq_hex_raw(&target),
            kind,
            a_max,
            coq_list(&ds.iter().map(|d| d.to_string()).collect::<Vec<_>>()),
            rtable,
            coq_steps.join(";\n  ")
        );
        let sample = J::obj(vec![
            ("case", J::I(idx as i64)),
            ("local_ident", J::I(l as i64)),
            ("peer_ident", J::I(p as i64)),
            ("target", J::s(hex::encode(target))),
            ("log2_distance_target_peer", J::I(d as i64)),
            ("request_kind", J::s(["lookup", "user_designated", "enr_request"][kind as usize])),
            ("distances_requested", J::A(ds.iter().map(|d| J::I(*d as i64)).collect())),
            ("honest_responder", J::B(honest)),
            ("max_nodes_response", J::I(a_max as i64)),
            ("ban_duration", J::s(format!("{:?}", ban_dur))),
            ("afterwards", J::A(repeat_descr)),
            (
                "packets",
                J::A(steps
                    .iter()
                    .map(|s| match s {
                        Step::Nodes(t, v) => J::s(format!(
                            "NODES total={} records at distances {:?}",
                            t,
                            v.iter().map(|i| log2dist(&pid, &recs.id_of(*i))).collect::<Vec<_>>()
                        )),
                        Step::OtherId(t, v) => J::s(format!("NODES(other id) total={} {} records", t, v.len())),
                        Step::Fail => J::s("RequestFailed"),
                    })
                    .collect()),
            ),
        ]);
        CaseResult { coq: Some(coq), failures, nontrivial, canon: h, steps: coq_steps.len(), sample }
    })
}
