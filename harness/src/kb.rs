//! Routing table (C07, C08, C16): generator, implementation driver, direct property monitors and
//! the Coq case files for the correspondence with Model/KBucket.v.
use crate::common::*;
use discv5::enr::{CombinedKey, NodeId};
use discv5::kbucket::{
    ConnectionState, Entry, FailureReason, InsertResult, KBucketsTable, Key, NodeStatus, UpdateResult,
};
use discv5::{ConnectionDirection, Enr};
use std::collections::{BTreeMap, BTreeSet, HashMap};
use std::net::Ipv4Addr;
use std::time::Duration;

type Table = KBucketsTable<NodeId, Enr>;
type K32 = [u8; 32];

pub struct PoolEnr {
    pub enr: Enr,
    pub vid: u64,
    pub sub: Option<u64>,
}

/// Records per key slot: a record is only ever used as the value of one key (in the real system
/// the key is the record's node id), in `VARIANTS` versions that differ in their addresses.
pub const VARIANTS: usize = 5;
pub const SLOTS: usize = 256;

pub fn make_pool() -> Vec<PoolEnr> {
    let mut pool = vec![];
    for slot in 0..SLOTS {
        let key = CombinedKey::generate_secp256k1();
        for v in 0..VARIANTS {
            let ip: Option<Ipv4Addr> = match v {
                0 => Some(Ipv4Addr::new(10, 0, 0, (slot % 250) as u8 + 1)),
                1 => Some(Ipv4Addr::new(10, 0, (slot % 2) as u8, (slot % 250) as u8 + 1)),
                2 => Some(Ipv4Addr::new(192, 168, (slot % 3) as u8, 7)),
                // an IPv4 address without a UDP port (tcp only): it still has a /24
                4 => Some(Ipv4Addr::new(10, 0, 0, (slot % 250) as u8 + 1)),
                _ => None,
            };
            let mut b = Enr::builder();
            b.seq(v as u64 + 1);
            if let Some(ip) = ip {
                b.ip4(ip);
                if v == 4 {
                    b.tcp4(9000);
                } else {
                    b.udp4(9000);
                }
            }
            if v == 3 && slot % 2 == 0 {
                b.ip6("2001:db8::1".parse().unwrap());
                b.udp6(9001);
            }
            let enr = b.build(&key).unwrap();
            let sub = ip.map(|ip| {
                let o = ip.octets();
                ((o[0] as u64) << 16) | ((o[1] as u64) << 8) | (o[2] as u64)
            });
            pool.push(PoolEnr { enr, vid: (slot * VARIANTS + v) as u64 + 1, sub });
        }
    }
    pool
}

#[derive(Clone, Debug)]
pub enum Action {
    Look,
    Insert(usize, bool, bool),
    Update(bool, Option<bool>),
    Remove,
    PendingUpdate(bool, bool),
}

#[derive(Clone, Debug)]
pub enum Op {
    InsertOrUpdate(K32, usize, bool, bool),
    UpdateStatus(K32, bool, Option<bool>),
    UpdateNode(K32, usize, Option<bool>),
    Remove(K32),
    Entry(K32, Action),
    Iter,
    TakeApplied,
    NodesByDistances(Vec<u64>, usize),
    Closest(K32),
    ForceReady(usize),
}

fn key_of(k: &K32) -> Key<NodeId> {
    Key::from(NodeId::new(k))
}
fn raw(k: &Key<NodeId>) -> K32 {
    k.preimage().raw()
}
fn status(conn: bool, inc: bool) -> NodeStatus {
    NodeStatus {
        state: if conn { ConnectionState::Connected } else { ConnectionState::Disconnected },
        direction: if inc { ConnectionDirection::Incoming } else { ConnectionDirection::Outgoing },
    }
}
fn st(conn: bool) -> ConnectionState {
    if conn {
        ConnectionState::Connected
    } else {
        ConnectionState::Disconnected
    }
}
fn dir(inc: bool) -> ConnectionDirection {
    if inc {
        ConnectionDirection::Incoming
    } else {
        ConnectionDirection::Outgoing
    }
}

#[derive(Clone, Debug, PartialEq, Eq)]
pub struct NDump {
    pub key: K32,
    pub vid: u64,
    pub conn: bool,
    pub inc: bool,
}
#[derive(Clone, Debug, PartialEq, Eq)]
pub struct BDump {
    pub idx: usize,
    pub fcp: Option<usize>,
    pub nodes: Vec<NDump>,
    pub pending: Option<NDump>,
}
#[derive(Clone, Debug, PartialEq, Eq)]
pub struct TDump {
    pub buckets: Vec<BDump>,
    pub applied: Vec<(K32, Option<K32>)>,
}

pub struct Ctx<'a> {
    pub pool: &'a [PoolEnr],
    pub vid_of: HashMap<Vec<u8>, u64>,
}

impl<'a> Ctx<'a> {
    pub fn new(pool: &'a [PoolEnr]) -> Self {
        let mut vid_of = HashMap::new();
        for p in pool {
            vid_of.insert(alloy_rlp::encode(&p.enr), p.vid);
        }
        Ctx { pool, vid_of }
    }
    fn vid(&self, e: &Enr) -> u64 {
        *self.vid_of.get(&alloy_rlp::encode(e)).unwrap_or(&0)
    }
    fn sub(&self, vid: u64) -> Option<u64> {
        self.pool.iter().find(|p| p.vid == vid).and_then(|p| p.sub)
    }
}

pub fn dump(ctx: &Ctx, t: &Table) -> TDump {
    let mut buckets = vec![];
    for (idx, b) in t.buckets_iter().enumerate() {
        let nodes: Vec<NDump> = b
            .iter()
            .map(|n| NDump {
                key: raw(&n.key),
                vid: ctx.vid(&n.value),
                conn: n.status.is_connected(),
                inc: n.status.is_incoming(),
            })
            .collect();
        let pending = b.pending().map(|p| NDump {
            key: raw(b.verif_pending_key().unwrap()),
            vid: ctx.vid(p.value()),
            conn: p.status().is_connected(),
            inc: p.status().is_incoming(),
        });
        if nodes.is_empty() && pending.is_none() {
            continue;
        }
        buckets.push(BDump { idx, fcp: b.verif_first_connected_pos(), nodes, pending });
    }
    let mut c = t.clone();
    let mut applied = vec![];
    while let Some(a) = c.take_applied_pending() {
        applied.push((raw(&a.inserted), a.evicted.map(|n| raw(&n.key))));
    }
    TDump { buckets, applied }
}

fn enc_node(e: &mut Enc, n: &NDump) {
    e.big(&n.key).n(n.vid).b(n.conn).b(n.inc);
}
fn hash_dump(d: &TDump) -> HashEnc {
    fn node(e: &mut HashEnc, n: &NDump) {
        e.big(&n.key).n(n.vid).b(n.conn).b(n.inc);
    }
    let mut e = HashEnc::new();
    e.n(d.buckets.len() as u64);
    for b in &d.buckets {
        e.n(b.idx as u64);
        e.n(b.fcp.map(|p| p as u64 + 1).unwrap_or(0));
        e.n(b.nodes.len() as u64);
        for n in &b.nodes {
            node(&mut e, n);
        }
        match &b.pending {
            Some(p) => {
                e.n(1);
                node(&mut e, p);
            }
            None => {
                e.n(0);
            }
        }
    }
    e.n(d.applied.len() as u64);
    for (i, ev) in &d.applied {
        e.big(i);
        match ev {
            Some(k) => {
                e.n(1).big(k);
            }
            None => {
                e.n(0);
            }
        }
    }
    e
}
#[allow(dead_code)]
fn enc_dump(e: &mut Enc, d: &TDump) {
    e.n(d.buckets.len() as u64);
    for b in &d.buckets {
        e.n(b.idx as u64);
        e.n(b.fcp.map(|p| p as u64 + 1).unwrap_or(0));
        e.n(b.nodes.len() as u64);
        for n in &b.nodes {
            enc_node(e, n);
        }
        match &b.pending {
            Some(p) => {
                e.n(1);
                enc_node(e, p);
            }
            None => {
                e.n(0);
            }
        }
    }
    e.n(d.applied.len() as u64);
    for (i, ev) in &d.applied {
        e.big(i);
        match ev {
            Some(k) => {
                e.n(1).big(k);
            }
            None => {
                e.n(0);
            }
        }
    }
}
fn enc_fail(f: &FailureReason) -> u64 {
    match f {
        FailureReason::TooManyIncoming => 0,
        FailureReason::BucketFilter => 1,
        FailureReason::TableFilter => 2,
        FailureReason::KeyNonExistent => 3,
        FailureReason::BucketFull => 4,
        FailureReason::InvalidSelfUpdate => 5,
    }
}
fn enc_upd(e: &mut Enc, r: &UpdateResult) {
    match r {
        UpdateResult::Updated => e.n(0),
        UpdateResult::UpdatedAndPromoted => e.n(1),
        UpdateResult::UpdatedPending => e.n(2),
        UpdateResult::Failed(f) => e.n(3).n(enc_fail(f)),
        UpdateResult::NotModified => e.n(4),
    };
}
fn enc_tins(e: &mut Enc, r: &InsertResult<NodeId>) {
    match r {
        InsertResult::Inserted => e.n(0),
        InsertResult::Pending { disconnected } => e.n(1).big(&raw(disconnected)),
        InsertResult::StatusUpdated { promoted_to_connected } => e.n(2).b(*promoted_to_connected),
        InsertResult::ValueUpdated => e.n(3),
        InsertResult::Updated { promoted_to_connected } => e.n(4).b(*promoted_to_connected),
        InsertResult::UpdatedPending => e.n(5),
        InsertResult::Failed(f) => e.n(6).n(enc_fail(f)),
    };
}

/// What an operation returned, in a form the monitors can use.
#[derive(Clone, Debug)]
pub enum Ret {
    Ins(String),
    Upd(String),
    Bool(bool),
    Entry(u8),
    Nodes(Vec<NDump>),
    Applied,
    Unit,
}

/// Applies one operation to the real table; returns the encoding of its result and a summary.
pub fn apply(ctx: &Ctx, t: &mut Table, op: &Op) -> (Enc, Ret) {
    let mut e = Enc::new();
    let ret;
    match op {
        Op::InsertOrUpdate(k, v, conn, inc) => {
            let r = t.insert_or_update(&key_of(k), ctx.pool[*v].enr.clone(), status(*conn, *inc));
            e.n(1);
            enc_tins(&mut e, &r);
            ret = Ret::Ins(format!("{:?}", r).split(|c| c == ' ' || c == '(' || c == '{').next().unwrap().to_string()
                + &match &r {
                    InsertResult::Failed(f) => format!(":{:?}", f),
                    _ => String::new(),
                });
        }
        Op::UpdateStatus(k, conn, d) => {
            let r = t.update_node_status(&key_of(k), st(*conn), d.map(dir));
            e.n(2);
            enc_upd(&mut e, &r);
            ret = Ret::Upd(format!("{:?}", r));
        }
        Op::UpdateNode(k, v, s) => {
            let r = t.update_node(&key_of(k), ctx.pool[*v].enr.clone(), s.map(st));
            e.n(2);
            enc_upd(&mut e, &r);
            ret = Ret::Upd(format!("{:?}", r));
        }
        Op::Remove(k) => {
            let r = t.remove(&key_of(k));
            e.n(3).b(r);
            ret = Ret::Bool(r);
        }
        Op::Entry(k, a) => {
            let key = key_of(k);
            e.n(4);
            let kind;
            match t.entry(&key) {
                Entry::Present(p, s) => {
                    kind = 0;
                    e.n(0).b(s.is_connected()).b(s.is_incoming());
                    match a {
                        Action::Update(conn, d) => match p.update(st(*conn), d.map(dir)) {
                            Ok(_) => {
                                e.n(2).n(0);
                            }
                            Err(f) => {
                                e.n(2).n(1).n(enc_fail(&f));
                            }
                        },
                        Action::Remove => {
                            p.remove();
                            e.n(3);
                        }
                        _ => {
                            e.n(3);
                        }
                    }
                }
                Entry::Pending(p, s) => {
                    kind = 1;
                    e.n(1).b(s.is_connected()).b(s.is_incoming());
                    match a {
                        Action::Remove => {
                            p.remove();
                        }
                        Action::PendingUpdate(conn, inc) => {
                            let _ = p.update(status(*conn, *inc));
                        }
                        _ => {}
                    }
                    e.n(3);
                }
                Entry::Absent(ab) => {
                    kind = 2;
                    e.n(2);
                    match a {
                        Action::Insert(v, conn, inc) => {
                            let r = ab.insert(ctx.pool[*v].enr.clone(), status(*conn, *inc));
                            e.n(1);
                            use discv5::kbucket::BucketInsertResult as B;
                            match r {
                                B::Inserted => e.n(0),
                                B::Pending { disconnected } => e.n(1).big(&raw(&disconnected)),
                                B::FailedFilter => e.n(2),
                                B::TooManyIncoming => e.n(3),
                                B::Full => e.n(4),
                                B::NodeExists => e.n(5),
                            };
                        }
                        _ => {
                            e.n(3);
                        }
                    }
                }
                Entry::SelfEntry => {
                    kind = 3;
                    e.n(3).n(3);
                }
            }
            ret = Ret::Entry(kind);
        }
        Op::Iter => {
            let l: Vec<NDump> = t
                .iter()
                .map(|x| NDump {
                    key: raw(x.node.key),
                    vid: ctx.vid(x.node.value),
                    conn: x.status.is_connected(),
                    inc: x.status.is_incoming(),
                })
                .collect();
            e.n(5).n(l.len() as u64);
            for n in &l {
                enc_node(&mut e, n);
            }
            ret = Ret::Nodes(l);
        }
        Op::TakeApplied => {
            e.n(6);
            match t.take_applied_pending() {
                Some(a) => {
                    e.n(1).big(&raw(&a.inserted));
                    match a.evicted {
                        Some(n) => {
                            e.n(1).big(&raw(&n.key));
                        }
                        None => {
                            e.n(0);
                        }
                    }
                }
                None => {
                    e.n(0);
                }
            }
            ret = Ret::Applied;
        }
        Op::NodesByDistances(ds, m) => {
            let l: Vec<NDump> = t
                .nodes_by_distances(ds, *m)
                .into_iter()
                .map(|x| NDump {
                    key: raw(x.node.key),
                    vid: ctx.vid(x.node.value),
                    conn: x.status.is_connected(),
                    inc: x.status.is_incoming(),
                })
                .collect();
            e.n(5).n(l.len() as u64);
            for n in &l {
                enc_node(&mut e, n);
            }
            ret = Ret::Nodes(l);
        }
        Op::Closest(target) => {
            let tk = key_of(target);
            // the predicate variant yields key, value and flag; the status is read back from the table
            let items: Vec<(K32, u64, bool)> = t
                .closest_values_predicate(&tk, |enr: &Enr| enr.ip4().is_some())
                .map(|pv| (raw(&pv.key), ctx.vid(&pv.value), pv.predicate_match))
                .collect();
            let stat: HashMap<K32, (bool, bool)> = t
                .iter_ref()
                .map(|x| (raw(x.node.key), (x.status.is_connected(), x.status.is_incoming())))
                .collect();
            let l: Vec<NDump> = items
                .iter()
                .map(|(k, v, _)| {
                    let (c, i) = stat.get(k).cloned().unwrap_or((false, false));
                    NDump { key: *k, vid: *v, conn: c, inc: i }
                })
                .collect();
            // cross-check the three variants against each other (monitor, see check_closest)
            let keys: Vec<K32> = t.closest_keys(&tk).map(|k| raw(&k)).collect();
            let vals: Vec<(K32, u64)> = t.closest_values(&tk).map(|cv| (raw(&cv.key), ctx.vid(&cv.value))).collect();
            let flags_ok = items.iter().all(|(_, v, f)| *f == ctx.sub(*v).is_some());
            let variants_agree = keys == items.iter().map(|x| x.0).collect::<Vec<_>>()
                && vals == items.iter().map(|x| (x.0, x.1)).collect::<Vec<_>>();
            e.n(5).n(l.len() as u64);
            for n in &l {
                enc_node(&mut e, n);
            }
            ret = if flags_ok && variants_agree { Ret::Nodes(l) } else { Ret::Unit };
        }
        Op::ForceReady(i) => {
            t.verif_force_pending_ready(*i);
            e.n(7);
            ret = Ret::Unit;
        }
    }
    (e, ret)
}

fn coq_val(ctx: &Ctx, v: usize) -> String {
    let p = &ctx.pool[v];
    format!("(V {} {})", p.vid, coq_opt(p.sub.map(|s| s.to_string())))
}
fn coq_ob(b: Option<bool>) -> String {
    coq_opt(b.map(|x| coq_bool(x).to_string()))
}
pub fn coq_op(ctx: &Ctx, op: &Op) -> String {
    match op {
        Op::InsertOrUpdate(k, v, c, i) => {
            format!("OInsertOrUpdate {} {} {} {}", coq_hex(k), coq_val(ctx, *v), coq_bool(*c), coq_bool(*i))
        }
        Op::UpdateStatus(k, c, d) => format!("OUpdateStatus {} {} {}", coq_hex(k), coq_bool(*c), coq_ob(*d)),
        Op::UpdateNode(k, v, s) => format!("OUpdateNode {} {} {}", coq_hex(k), coq_val(ctx, *v), coq_ob(*s)),
        Op::Remove(k) => format!("ORemove {}", coq_hex(k)),
        Op::Entry(k, a) => {
            let a = match a {
                Action::Look => "ALook".to_string(),
                Action::Insert(v, c, i) => format!("(AInsert {} {} {})", coq_val(ctx, *v), coq_bool(*c), coq_bool(*i)),
                Action::Update(c, d) => format!("(AUpdate {} {})", coq_bool(*c), coq_ob(*d)),
                Action::Remove => "ARemove".to_string(),
                Action::PendingUpdate(c, i) => format!("(APendingUpdate {} {})", coq_bool(*c), coq_bool(*i)),
            };
            format!("OEntry {} {}", coq_hex(k), a)
        }
        Op::Iter => "OIter".to_string(),
        Op::TakeApplied => "OTakeApplied".to_string(),
        Op::NodesByDistances(ds, m) => format!(
            "ONodesByDistances {} {}%nat",
            coq_list(&ds.iter().map(|d| d.to_string()).collect::<Vec<_>>()),
            m
        ),
        Op::Closest(t) => format!("OClosest {}", coq_hex(t)),
        Op::ForceReady(i) => format!("OForceReady {}%nat", i),
    }
}

// --------------------------------------------------------------------------------------------
// 256-bit helpers

pub fn xor(a: &K32, b: &K32) -> K32 {
    let mut r = [0u8; 32];
    for i in 0..32 {
        r[i] = a[i] ^ b[i];
    }
    r
}
/// floor(log2) of a non-zero 256-bit big-endian number
pub fn log2(a: &K32) -> Option<usize> {
    for i in 0..32 {
        if a[i] != 0 {
            return Some((31 - i) * 8 + (7 - a[i].leading_zeros() as usize));
        }
    }
    None
}
/// a random key whose xor-distance from `local` has floor(log2) = idx.  The distance is
/// 2^idx + (r << s) with a 16-bit r, so that the Coq case file can state it symbolically
/// (`kx L idx r s`) instead of as a 256-bit literal.
pub fn key_at(rng: &mut Rng, local: &K32, idx: usize) -> K32 {
    let rbits = idx.min(16);
    let r = if rbits == 0 { 0 } else { rng.below(1u64 << rbits) };
    let s = if idx > 16 { rng.below((idx - 16) as u64 + 1) as usize } else { 0 };
    let mut d = [0u8; 32];
    d[31 - idx / 8] |= 1u8 << (idx % 8);
    for b in 0..16 {
        if (r >> b) & 1 == 1 {
            let bit = b + s;
            d[31 - bit / 8] |= 1u8 << (bit % 8);
        }
    }
    let k = xor(local, &d);
    register_recipe(&k, format!("(kx L {} {} {})", idx, r, s));
    k
}
pub fn distance_with_low_bits(rng: &mut Rng) -> K32 {
    // distances whose low bits follow the patterns called out by C08
    let mut d = [0u8; 32];
    match rng.below(8) {
        0 => {}
        1 => d[31] = 1,
        2 => d[31] = 2,
        3 => d[31] = 3,
        4 => {
            let k = rng.below(256) as usize;
            d[31 - k / 8] |= 1 << (k % 8);
        }
        5 => {
            let k = rng.below(256) as usize;
            d[31 - k / 8] |= 1 << (k % 8);
            d[31] |= 1;
        }
        6 => d = [0xff; 32],
        _ => {
            let rb = rng.bytes(32);
            d.copy_from_slice(&rb);
            let k = rng.below(256) as usize;
            for bit in (k + 1)..256 {
                d[31 - bit / 8] &= !(1u8 << (bit % 8));
            }
            if rng.chance(1, 2) {
                d[31] |= 1;
            }
        }
    }
    d
}

/// a distance whose set bits form a run across the boundary between two 64-bit words (bit 64k-1 and
/// bit 64k both set), optionally with a few more bits above and below
pub fn distance_word_run(rng: &mut Rng, k: usize) -> K32 {
    let mut d = [0u8; 32];
    let (wa, wb) = (*rng.pick(&[1u64, 3, 20, 63]), *rng.pick(&[1u64, 2, 8, 63]));
    let a = 64 * k - 1 - rng.below(wa) as usize;
    let b = (64 * k + rng.below(wb) as usize).min(255);
    for bit in a..=b {
        d[31 - bit / 8] |= 1u8 << (bit % 8);
    }
    for _ in 0..rng.below(3) {
        let bit = rng.below(256) as usize;
        d[31 - bit / 8] |= 1u8 << (bit % 8);
    }
    if rng.chance(1, 3) {
        d[31] |= 1 << rng.below(3);
    }
    d
}

// --------------------------------------------------------------------------------------------
// Monitors: written from the property text, evaluated on the implementation only.

pub struct Ledger {
    /// time of the last status report per key (operation index)
    pub stamp: BTreeMap<K32, u64>,
}

pub struct CaseCfg {
    pub max_incoming: usize,
    pub timeout_zero: bool,
    pub filters: bool,
    pub local: K32,
}

/// C07 structural invariants on a dump. Returns a violation description.
pub fn check_c07(cfg: &CaseCfg, d: &TDump, ledger: &Ledger) -> Option<String> {
    let mut seen: BTreeSet<K32> = BTreeSet::new();
    for b in &d.buckets {
        if b.nodes.len() > 16 {
            return Some(format!("bucket {} holds {} nodes", b.idx, b.nodes.len()));
        }
        let mut all: Vec<&NDump> = b.nodes.iter().collect();
        if let Some(p) = &b.pending {
            all.push(p);
        }
        for n in &all {
            if n.key == cfg.local {
                return Some("local id stored".into());
            }
            let lg = log2(&xor(&cfg.local, &n.key));
            if lg != Some(b.idx) {
                return Some(format!("node in bucket {} has log2 distance {:?}", b.idx, lg));
            }
            if !seen.insert(n.key) {
                return Some(format!("node id {} occurs twice", hex::encode(n.key)));
            }
        }
        // disconnected before connected
        let first_conn = b.nodes.iter().position(|n| n.conn);
        if let Some(p) = first_conn {
            if b.nodes[p..].iter().any(|n| !n.conn) {
                return Some(format!("bucket {}: disconnected node after a connected one", b.idx));
            }
        }
        if b.fcp != first_conn {
            return Some(format!("bucket {}: first_connected_pos {:?} but statuses say {:?}", b.idx, b.fcp, first_conn));
        }
        // groups ordered by time of last status report
        let split = first_conn.unwrap_or(b.nodes.len());
        for grp in [&b.nodes[..split], &b.nodes[split..]] {
            for w in grp.windows(2) {
                let a = ledger.stamp.get(&w[0].key).cloned().unwrap_or(0);
                let c = ledger.stamp.get(&w[1].key).cloned().unwrap_or(0);
                if a > c {
                    if std::env::var("VERIF_DEBUG").is_ok() {
                        for n in &b.nodes {
                            eprintln!("  {} conn={} inc={} stamp={:?}", hex::encode(&n.key[28..]), n.conn, n.inc, ledger.stamp.get(&n.key));
                        }
                    }
                    return Some(format!("bucket {}: group not ordered by last status report ({} > {})", b.idx, a, c));
                }
            }
        }
        let inc = b.nodes.iter().filter(|n| n.conn && n.inc).count();
        if inc > cfg.max_incoming {
            return Some(format!("bucket {}: {} connected incoming nodes > limit {}", b.idx, inc, cfg.max_incoming));
        }
    }
    None
}

/// C07 pending life cycle, by comparing the dumps before and after an operation.
pub fn check_pending_lifecycle(before: &TDump, after: &TDump, op: &Op, forced: &BTreeSet<usize>, cfg: &CaseCfg) -> Option<String> {
    let bmap: BTreeMap<usize, &BDump> = before.buckets.iter().map(|b| (b.idx, b)).collect();
    for a in &after.buckets {
        let b = match bmap.get(&a.idx) {
            Some(b) => *b,
            None => continue,
        };
        if let Some(p) = &b.pending {
            let promoted = a.nodes.iter().any(|n| n.key == p.key);
            let direct = matches!(op, Op::InsertOrUpdate(k, ..) | Op::Entry(k, Action::Insert(..)) if *k == p.key);
            if promoted && !direct {
                if !(cfg.timeout_zero || forced.contains(&a.idx)) {
                    return Some(format!("bucket {}: pending node promoted before its timeout", a.idx));
                }
                if b.nodes.len() == 16 {
                    // removal of a node by this very op frees a slot; otherwise the head must be evicted
                    let removed: Vec<&NDump> = b.nodes.iter().filter(|n| !a.nodes.iter().any(|m| m.key == n.key)).collect();
                    let op_removed = match op {
                        Op::Remove(k) | Op::Entry(k, Action::Remove) | Op::UpdateNode(k, ..) | Op::UpdateStatus(k, ..) | Op::InsertOrUpdate(k, ..) | Op::Entry(k, Action::Update(..)) => Some(*k),
                        _ => None,
                    };
                    for r in &removed {
                        if Some(r.key) == op_removed {
                            continue;
                        }
                        if r.key != b.nodes[0].key {
                            return Some(format!("bucket {}: promotion evicted a node that was not the head", a.idx));
                        }
                        if r.conn {
                            return Some(format!("bucket {}: promotion evicted a connected node", a.idx));
                        }
                    }
                }
            }
            // head reconnects => pending discarded
            if b.nodes.len() > 0 {
                let head = b.nodes[0].key;
                let reconnect = match op {
                    Op::UpdateStatus(k, true, _) | Op::InsertOrUpdate(k, _, true, _) | Op::Entry(k, Action::Update(true, _)) | Op::UpdateNode(k, _, Some(true)) => *k == head,
                    _ => false,
                };
                // only if the pending node was not already eligible (then it is applied first)
                if reconnect && !(cfg.timeout_zero || forced.contains(&a.idx)) && !b.nodes[0].conn {
                    let still_there = a.nodes.iter().any(|n| n.key == head);
                    if still_there && a.pending.as_ref().map(|q| q.key) == Some(p.key) {
                        // update_node with a table-filter failure removes the node instead; then head is gone
                        return Some(format!("bucket {}: head reconnected but pending node kept", a.idx));
                    }
                }
            }
        }
        // a waiting candidate keeps its slot until it is promoted, discarded or removed: another
        // candidate cannot take the slot over (it would inherit the first one's deadline)
        if let (Some(p), Some(q)) = (&b.pending, &a.pending) {
            if p.key != q.key && !a.nodes.iter().any(|n| n.key == p.key) {
                return Some(format!("bucket {}: a waiting pending candidate was displaced by another candidate", a.idx));
            }
        }
        // a pending slot is created only on a full bucket
        if b.pending.is_none() {
            if let Some(p) = &a.pending {
                let _ = p;
                if a.nodes.len() != 16 {
                    return Some(format!("bucket {}: pending slot created on a non-full bucket", a.idx));
                }
            }
        }
    }
    None
}

/// C07, "a pending node ... is discarded if that node reconnects first": a candidate waits in the
/// pending slot on the least recently active node of its bucket (the head, disconnected).  When a
/// status report `Connected` for that head reaches the bucket before the candidate's timeout, the
/// candidate is discarded by that report: afterwards it is neither in the pending slot nor among
/// the nodes - also when the head's reconnection itself is refused (the limit on incoming
/// connections; the head is then dropped from the bucket).  The report does not reach the bucket
/// when the record carried by the same operation is refused by a record filter first (the head is
/// then dropped without a status report).
pub fn check_head_reconnect(before: &TDump, after: &TDump, op: &Op, ret: &Ret, forced: &BTreeSet<usize>, cfg: &CaseCfg) -> Option<String> {
    let (k, record_refused) = match (op, ret) {
        (Op::UpdateStatus(k, true, _), _) => (*k, false),
        (Op::Entry(k, Action::Update(true, _)), Ret::Entry(0)) => (*k, false),
        (Op::InsertOrUpdate(k, _, true, _), Ret::Ins(s)) => (*k, s == "Failed:TableFilter"),
        (Op::UpdateNode(k, _, Some(true)), Ret::Upd(s)) => (*k, s == "Failed(TableFilter)" || s == "Failed(BucketFilter)"),
        _ => return None,
    };
    if record_refused || cfg.timeout_zero {
        return None;
    }
    let b = before.buckets.iter().find(|b| b.nodes.first().map(|n| n.key) == Some(k))?;
    let p = b.pending.as_ref()?;
    if forced.contains(&b.idx) || b.nodes[0].conn {
        return None;
    }
    let a = after.buckets.iter().find(|a| a.idx == b.idx);
    let still_pending = a.and_then(|a| a.pending.as_ref()).map(|q| q.key) == Some(p.key);
    let among_nodes = a.map(|a| a.nodes.iter().any(|n| n.key == p.key)).unwrap_or(false);
    if still_pending || among_nodes {
        let head_kept = a.map(|a| a.nodes.iter().any(|n| n.key == k)).unwrap_or(false);
        return Some(format!(
            "bucket {}: the node the pending candidate waits on reported Connected before the timeout ({}) but the candidate {}",
            b.idx,
            if head_kept { "and stays in the bucket" } else { "its reconnection was refused and it was dropped" },
            if still_pending { "still waits in the pending slot" } else { "entered the bucket" }
        ));
    }
    None
}

/// C16, "nodes without an IPv4 address are unaffected": with the /24 filters configured, an
/// operation that offers a record without an IPv4 address is never refused by the bucket or the
/// table filter.
pub fn check_c16_no_ip4(ctx: &Ctx, op: &Op, ret: &Ret) -> Option<String> {
    let v = match op {
        Op::InsertOrUpdate(_, v, ..) | Op::UpdateNode(_, v, _) | Op::Entry(_, Action::Insert(v, ..)) => *v,
        _ => return None,
    };
    if ctx.pool[v].sub.is_some() {
        return None;
    }
    let refused = match ret {
        Ret::Ins(s) => s == "Failed:TableFilter" || s == "Failed:BucketFilter",
        Ret::Upd(s) => s == "Failed(TableFilter)" || s == "Failed(BucketFilter)",
        _ => false,
    };
    if refused {
        return Some(format!(
            "a record without an IPv4 address was refused by the {} filter",
            match ret {
                Ret::Ins(s) | Ret::Upd(s) if s.contains("Table") => "table",
                _ => "bucket",
            }
        ));
    }
    None
}

/// C08: the closest iteration equals the sorted full scan.
pub fn check_closest(target: &K32, out: &[NDump], after: &TDump) -> Option<String> {
    let mut scan: Vec<K32> = after.buckets.iter().flat_map(|b| b.nodes.iter().map(|n| n.key)).collect();
    scan.sort_by(|a, b| xor(target, a).cmp(&xor(target, b)));
    let got: Vec<K32> = out.iter().map(|n| n.key).collect();
    if got != scan {
        let dup = {
            let mut s = BTreeSet::new();
            got.iter().any(|k| !s.insert(*k))
        };
        return Some(if dup {
            "closest: a stored node is yielded twice".to_string()
        } else if got.len() != scan.len() {
            "closest: a stored node is missing".to_string()
        } else {
            "closest: not in non-decreasing distance order".to_string()
        });
    }
    None
}

/// C08: nodes_by_distances.
pub fn check_nbd(cfg: &CaseCfg, ds: &[u64], maxn: usize, out: &[NDump], after: &TDump) -> Option<String> {
    for n in out {
        let lg = log2(&xor(&cfg.local, &n.key)).map(|x| x as u64 + 1);
        match lg {
            Some(l) if ds.contains(&l) && l >= 1 && l <= 256 => {}
            _ => return Some("nodes_by_distances: node at a distance that was not requested".into()),
        }
    }
    // completeness for distinct distances
    let mut dd = ds.to_vec();
    dd.sort();
    dd.dedup();
    if dd.len() == ds.len() {
        let stored: usize = after
            .buckets
            .iter()
            .filter(|b| ds.contains(&(b.idx as u64 + 1)))
            .map(|b| b.nodes.len())
            .sum();
        let cap = std::cmp::max(maxn, 1); // the code returns after the first push, so a cap of 0 acts like 1
        let expect = std::cmp::min(stored, cap);
        if out.len() != expect {
            return Some(format!("nodes_by_distances: {} nodes returned, {} expected", out.len(), expect));
        }
        let mut s = BTreeSet::new();
        if out.iter().any(|n| !s.insert(n.key)) {
            return Some("nodes_by_distances: duplicate node".into());
        }
    }
    None
}

/// C16: subnet limits, pending nodes included in the table count.
pub fn check_c16(ctx: &Ctx, d: &TDump) -> Option<String> {
    let mut table: BTreeMap<u64, usize> = BTreeMap::new();
    for b in &d.buckets {
        let mut per: BTreeMap<u64, usize> = BTreeMap::new();
        for n in &b.nodes {
            if let Some(s) = ctx.sub(n.vid) {
                *per.entry(s).or_insert(0) += 1;
                *table.entry(s).or_insert(0) += 1;
            }
        }
        // a pending node is part of the table count: it enters its bucket without a further
        // table-filter check
        if let Some(p) = &b.pending {
            if let Some(s) = ctx.sub(p.vid) {
                *table.entry(s).or_insert(0) += 1;
            }
        }
        if let Some((s, c)) = per.iter().find(|(_, c)| **c > 2) {
            return Some(format!("bucket {} holds {} nodes of subnet {:x}", b.idx, c, s));
        }
    }
    if let Some((s, c)) = table.iter().find(|(_, c)| **c > 10) {
        return Some(format!("table holds {} nodes of subnet {:x}", c, s));
    }
    None
}

/// Every stored record (pending slot included) is a record of the id it is stored under: the
/// routing table maps a node id to that node's own record (C01: what the service hands to the
/// handler for a who-are-you query about X is X's record; C12: a record replaces a stored one only
/// if it is for the same id).
pub fn check_keyed(owner: &HashMap<K32, usize>, d: &TDump) -> Option<String> {
    for b in &d.buckets {
        for n in b.nodes.iter().chain(b.pending.iter()) {
            if n.vid == 0 {
                return Some(format!("bucket {}: a record that was never offered is stored under id {}", b.idx, hex::encode(&n.key[28..])));
            }
            let slot = (n.vid as usize - 1) / VARIANTS;
            if owner.get(&n.key) != Some(&slot) {
                return Some(format!("bucket {}: the record stored under an id is a record of another node", b.idx));
            }
        }
    }
    None
}

/// Frame condition on records: the record stored under an id appears or changes only by an
/// operation addressed to that id, and then it is the record carried by that operation.
pub fn check_record_frame(ctx: &Ctx, before: &TDump, after: &TDump, op: &Op) -> Option<String> {
    let offered: Option<(K32, u64)> = match op {
        Op::InsertOrUpdate(k, v, ..) | Op::UpdateNode(k, v, _) | Op::Entry(k, Action::Insert(v, ..)) => Some((*k, ctx.pool[*v].vid)),
        _ => None,
    };
    let mut old: HashMap<K32, u64> = HashMap::new();
    for b in &before.buckets {
        for n in b.nodes.iter().chain(b.pending.iter()) {
            old.insert(n.key, n.vid);
        }
    }
    for b in &after.buckets {
        for n in b.nodes.iter().chain(b.pending.iter()) {
            match old.get(&n.key) {
                Some(v) if *v == n.vid => {}
                Some(_) => {
                    if offered != Some((n.key, n.vid)) {
                        return Some(format!(
                            "bucket {}: the record of an entry changed although the operation {}",
                            b.idx,
                            if offered.map(|o| o.0) == Some(n.key) { "carried another record" } else { "was not addressed to that id" }
                        ));
                    }
                }
                None => {
                    if offered != Some((n.key, n.vid)) {
                        return Some(format!("bucket {}: an entry appeared that the operation did not offer", b.idx));
                    }
                }
            }
        }
    }
    None
}

/// C07: a node leaves the nodes of its bucket only because an operation addressed to it removed it
/// (remove, a status or record update refused by a limit), or as the eviction victim of a promoted
/// pending node - and then it was disconnected, at the head of a full bucket.  In particular a
/// connected node is never evicted in favour of a pending one.
pub fn check_departures(before: &TDump, after: &TDump, op: &Op) -> Option<String> {
    let addressed: Option<K32> = match op {
        Op::Remove(k) | Op::Entry(k, Action::Remove) | Op::Entry(k, Action::Update(..)) | Op::UpdateNode(k, ..) | Op::UpdateStatus(k, ..) | Op::InsertOrUpdate(k, ..) => Some(*k),
        _ => None,
    };
    for b in &before.buckets {
        let a_bucket = after.buckets.iter().find(|a| a.idx == b.idx);
        let a_nodes: &[NDump] = a_bucket.map(|a| &a.nodes[..]).unwrap_or(&[]);
        // the pending node is among the nodes now - or the operation was addressed to it and removed it
        // after its promotion (remove, a record update refused by a filter): it is nowhere any more
        let promoted = b
            .pending
            .as_ref()
            .map(|p| {
                a_nodes.iter().any(|n| n.key == p.key)
                    || (Some(p.key) == addressed && a_bucket.and_then(|a| a.pending.as_ref()).map(|q| q.key) != Some(p.key))
            })
            .unwrap_or(false);
        for (pos, n) in b.nodes.iter().enumerate() {
            if a_nodes.iter().any(|m| m.key == n.key) || Some(n.key) == addressed {
                continue;
            }
            if !promoted {
                return Some(format!("bucket {}: a node left the bucket although no operation addressed it and no pending node was promoted", b.idx));
            }
            if n.conn {
                return Some(format!("bucket {}: a connected node was evicted in favour of a pending node", b.idx));
            }
            if pos != 0 {
                return Some(format!("bucket {}: the node evicted by a pending node was not the head of the bucket", b.idx));
            }
            if b.nodes.len() != 16 {
                return Some(format!("bucket {}: a node was evicted from a bucket that was not full", b.idx));
            }
        }
    }
    None
}

/// C12 (with the IP filters configured as the table filter): when an operation stores a new record
/// for an id - admission or replacement of the stored record - the entry passes the configured
/// table filter: fewer than 10 other records of the table (pending slots included) share its /24.
pub fn check_c12_record(ctx: &Ctx, before: &TDump, after: &TDump, op: &Op) -> Option<String> {
    let (k, vid) = match op {
        Op::InsertOrUpdate(k, v, ..) | Op::UpdateNode(k, v, _) => (*k, ctx.pool[*v].vid),
        _ => return None,
    };
    let find = |d: &TDump| d.buckets.iter().flat_map(|b| b.nodes.iter().chain(b.pending.iter())).find(|n| n.key == k).map(|n| n.vid);
    if find(after) != Some(vid) || find(before) == Some(vid) {
        return None;
    }
    let s = ctx.sub(vid)?;
    let others = after
        .buckets
        .iter()
        .flat_map(|b| b.nodes.iter().chain(b.pending.iter()))
        .filter(|n| n.key != k && ctx.sub(n.vid) == Some(s))
        .count();
    if others >= 10 {
        return Some(format!(
            "{}: the stored record was replaced by (or the node admitted with) a record that does not pass the table filter: {} other records of subnet {:x}",
            if find(before).is_some() { "record update" } else { "admission" },
            others,
            s
        ));
    }
    None
}

/// C08 for the public lookup `Discv5::nodes_by_distance`, on a `Discv5` that owns a copy of the
/// table as it is before the operation: the answer consists of stored nodes at the requested
/// distances (distance 0: the local record first), all of them up to `max_nodes_response`, where
/// "stored" is what a full scan of the table (`iter`) yields afterwards; and the answer and the
/// table afterwards are those of `KBucketsTable::nodes_by_distances` on the same table.
pub fn check_discv5_nbd(ctx: &Ctx, g: &GenCase, disc: &discv5::Discv5, pre: &Table, ds: &[u64]) -> Option<String> {
    disc.with_kbuckets(|kb| *kb.write() = pre.clone());
    let got: Vec<Enr> = disc.nodes_by_distance(ds.to_vec());
    let post: Table = disc.with_kbuckets(|kb| kb.read().clone());
    let mut dd = ds.to_vec();
    dd.sort_unstable();
    dd.dedup();
    let mut rest: &[Enr] = &got;
    if dd.first() == Some(&0) {
        dd.remove(0);
        if rest.first() != Some(&g.local_enr) {
            return Some("Discv5::nodes_by_distance: distance 0 requested but the local record is not the first node".into());
        }
        rest = &rest[1..];
    }
    let mut scan_t = post.clone();
    let scan: Vec<(K32, u64)> = scan_t.iter().map(|x| (raw(x.node.key), ctx.vid(x.node.value))).collect();
    let at = |k: &K32| log2(&xor(&g.cfg.local, k)).map(|x| x as u64 + 1);
    let mut seen = BTreeSet::new();
    for e in rest {
        let v = ctx.vid(e);
        match scan.iter().find(|(_, sv)| *sv == v && v != 0) {
            None => return Some("Discv5::nodes_by_distance: a returned node is not stored in the table".into()),
            Some((k, _)) => {
                if !at(k).map(|d| dd.contains(&d)).unwrap_or(false) {
                    return Some("Discv5::nodes_by_distance: node at a distance that was not requested".into());
                }
                if !seen.insert(*k) {
                    return Some("Discv5::nodes_by_distance: duplicate node".into());
                }
            }
        }
    }
    let stored = scan.iter().filter(|(k, _)| at(k).map(|d| dd.contains(&d)).unwrap_or(false)).count();
    let expect = std::cmp::min(stored, std::cmp::max(g.disc_cap, 1));
    if rest.len() != expect {
        return Some(format!("Discv5::nodes_by_distance: {} nodes returned, {} expected", rest.len(), expect));
    }
    // the routing table's own lookup on the same table
    let mut r = pre.clone();
    let want: Vec<Enr> = r.nodes_by_distances(&dd, g.disc_cap).into_iter().map(|e| e.node.value.clone()).collect();
    if want != rest {
        return Some("Discv5::nodes_by_distance: answer differs from KBucketsTable::nodes_by_distances on the same table".into());
    }
    if dump(ctx, &post) != dump(ctx, &r) {
        return Some("Discv5::nodes_by_distance: leaves the table in another state than KBucketsTable::nodes_by_distances".into());
    }
    None
}

pub fn new_discv5(g: &GenCase) -> Option<discv5::Discv5> {
    let key = CombinedKey::secp256k1_from_bytes(&mut g.local_key.clone()).ok()?;
    let mut b = discv5::ConfigBuilder::new(discv5::ListenConfig::Ipv4 { ip: Ipv4Addr::new(127, 0, 0, 1), port: 9000 });
    b.incoming_bucket_limit(g.cfg.max_incoming).max_nodes_response(g.disc_cap);
    if g.cfg.filters {
        b.ip_limit();
    }
    discv5::Discv5::new(g.local_enr.clone(), key, b.build()).ok()
}

// --------------------------------------------------------------------------------------------
// Generator

pub struct GenCase {
    pub cfg: CaseCfg,
    pub ops: Vec<Op>,
    pub bucket_choice: Vec<usize>,
    /// the key slot (see `make_pool`) of every candidate id of the case: the records of slot s are
    /// the records "of" that id (in the running node the id is the hash of the record's key)
    pub owner: HashMap<K32, usize>,
    /// the local node: its id is the table's local key (so that a `Discv5` can own the table)
    pub local_enr: Enr,
    pub local_key: Vec<u8>,
    /// `max_nodes_response` of the `Discv5` instance used for `Discv5::nodes_by_distance`
    pub disc_cap: usize,
    pub opening: &'static str,
}

pub fn gen_case(rng: &mut Rng, pool_len: usize, focus: &str, nops: usize) -> GenCase {
    // the local id is the node id of a record signed with a PRNG-derived key
    let (local_enr, local_key) = loop {
        let kb = rng.bytes(32);
        if let Ok(k) = CombinedKey::secp256k1_from_bytes(&mut kb.clone()) {
            let enr = Enr::builder().ip4(Ipv4Addr::new(127, 0, 0, 1)).udp4(9000).build(&k).unwrap();
            break (enr, kb);
        }
    };
    let local: K32 = local_enr.node_id().raw();
    let filters = match focus {
        "c16" => true,
        "c07" => false,
        "c08" => rng.chance(1, 5),
        "rec" => rng.chance(3, 4),
        _ => rng.chance(1, 2),
    };
    let max_incoming: usize = match rng.below(4) {
        0 => 16,
        1 => rng.below(3) as usize,
        _ => rng.below(17) as usize,
    };
    let mut timeout_zero = rng.chance(1, 2);
    // scripted scenario around the incoming limit and the pending slot (see below)
    let scripted_incoming = focus == "c07" && rng.chance(1, 4);
    let max_incoming = if scripted_incoming { rng.range(1, 4) as usize } else { max_incoming };
    if scripted_incoming {
        timeout_zero = false;
    }
    // buckets in play: a few, weighted towards the ends
    let scripted_c16 = focus == "c16" && rng.chance(1, 2);
    let c16_kind = if scripted_c16 { rng.below(4) } else { 9 };
    if c16_kind == 1 {
        // the candidate must stay pending while a slot is freed
        timeout_zero = false;
    }
    // scripted opening around a pending candidate whose timeout elapses mid-sequence (see below)
    let (due_num, due_den) = match focus {
        "rec" => (3, 4),
        "c16" => (1, 2),
        "c08" => (2, 5),
        _ => (1, 4),
    };
    let scripted_due = !scripted_incoming && !scripted_c16 && rng.chance(due_num, due_den);
    if scripted_due {
        timeout_zero = false;
    }
    // `crowd`: ten records of one /24 spread over the other buckets (the table limit is reached)
    let due_crowd = scripted_due && filters && rng.chance(2, 3);
    let wide = scripted_c16 || due_crowd;
    let nb = if wide { 7 } else { rng.range(2, 5) as usize };
    let mut bucket_choice = vec![];
    while bucket_choice.len() < nb {
        let i = match if wide { 9 } else { rng.below(10) } {
            0..=2 => rng.below(8) as usize,
            3..=4 => 250 + rng.below(6) as usize,
            5..=7 => 4 + rng.below(6) as usize,
            _ if wide => 8 + rng.below(248) as usize,
            _ => rng.below(256) as usize,
        };
        if !bucket_choice.contains(&i) {
            bucket_choice.push(i);
        }
    }
    if focus == "c08" && !bucket_choice.contains(&0) && rng.chance(3, 4) {
        bucket_choice[0] = 0;
    }
    // a bucket at (or next to) a 64-bit word boundary of the distance: the bucket visiting order is
    // computed from the words of distance(local, target)
    let mut word_b: Option<usize> = None;
    if focus == "c08" && !wide && rng.chance(2, 5) {
        let k = rng.range(1, 3) as usize;
        let i = 64 * k + *rng.pick(&[0usize, 0, 0, 0, 1]) - *rng.pick(&[0usize, 0, 0, 0, 1]);
        if !bucket_choice.contains(&i) {
            let at = bucket_choice.len() - 1;
            bucket_choice[at] = i;
        }
        word_b = Some(k);
    }
    // at least one bucket that can fill up
    if !bucket_choice.iter().any(|i| *i >= 5) {
        bucket_choice.push(200 + rng.below(56) as usize);
    }
    let mut keys: Vec<Vec<K32>> = vec![];
    for &i in &bucket_choice {
        let want = if i >= 5 { 20 } else { 1usize << i };
        let mut ks: Vec<K32> = vec![];
        let mut tries = 0;
        while ks.len() < want && tries < 200 {
            let k = key_at(rng, &local, i);
            if !ks.contains(&k) {
                ks.push(k);
            }
            tries += 1;
        }
        keys.push(ks);
    }
    let big: Vec<usize> = (0..bucket_choice.len()).filter(|j| bucket_choice[*j] >= 5).collect();
    let focus_b = *rng.pick(&big);
    let cfg = CaseCfg { max_incoming, timeout_zero, filters, local };
    let mut ops = vec![];
    // slot of a key = its position in the flattened key list (the local key has the last slot)
    let mut offset = vec![];
    let mut acc = 0usize;
    for ks in &keys {
        offset.push(acc);
        acc += ks.len();
    }
    let local_slot = SLOTS - 1;
    let _ = pool_len;
    let mut owner: HashMap<K32, usize> = HashMap::new();
    for (j, ks) in keys.iter().enumerate() {
        for (i, k) in ks.iter().enumerate() {
            owner.insert(*k, (offset[j] + i) % (SLOTS - 1));
        }
    }
    owner.insert(local, local_slot);
    let disc_cap = *rng.pick(&[1usize, 3, 16, 16, 16, 16, 20]);
    let mut opening: &'static str = "none";
    let pick_key = |rng: &mut Rng| -> (K32, usize) {
        let j = if rng.chance(3, 5) { focus_b } else { rng.below(keys.len() as u64) as usize };
        if rng.chance(1, 60) {
            return (local, local_slot);
        }
        let i = rng.below(keys[j].len() as u64) as usize;
        (keys[j][i], (offset[j] + i) % (SLOTS - 1))
    };
    let pick_val = |rng: &mut Rng, slot: usize| -> usize {
        // mostly subnet A (variant 0) so that the limits are reached
        let v = if filters {
            *rng.pick(&[0usize, 0, 0, 4, 4, 1, 1, 2, 3])
        } else {
            rng.below(VARIANTS as u64) as usize
        };
        slot * VARIANTS + v
    };
    // scripted preambles, then random operations
    let slot_of = |j: usize, i: usize| (offset[j] + i) % (SLOTS - 1);
    if c16_kind == 1 {
        // bucket `focus_b` is full (two subnet-A nodes, 14 without IPv4, head disconnected) and has a
        // pending candidate without IPv4 whose timeout has not elapsed; a member is removed, then
        // the candidate is offered again with a subnet-A record (or after a member moved into
        // subnet A): the bucket filter must still be asked
        let tcp_only = rng.chance(1, 3);
        let a_var = if tcp_only { 4 } else { 0 };
        for i in 0..16 {
            let var = if i == 5 || i == 9 { a_var } else { 3 };
            ops.push(Op::InsertOrUpdate(keys[focus_b][i], slot_of(focus_b, i) * VARIANTS + var, i >= 3 && rng.chance(2, 3), false));
        }
        ops.push(Op::InsertOrUpdate(keys[focus_b][16], slot_of(focus_b, 16) * VARIANTS + 3, true, false));
        ops.push(Op::Remove(keys[focus_b][6 + rng.below(3) as usize * 4 / 3]));
        let cand_var = if rng.chance(1, 2) { a_var } else { 4 - a_var };
        ops.push(Op::InsertOrUpdate(keys[focus_b][16], slot_of(focus_b, 16) * VARIANTS + cand_var, true, rng.chance(1, 3)));
        ops.push(Op::Iter);
    } else if c16_kind == 2 {
        // the table limit: ten subnet-A nodes spread over the other buckets; bucket `focus_b` is full
        // of nodes without IPv4 (head disconnected) and has a pending candidate from elsewhere; the
        // candidate's record is updated into subnet A (refused by the table filter) and its timeout
        // elapses: whatever is promoted, the table must not hold an eleventh subnet-A node
        for i in 0..16 {
            ops.push(Op::InsertOrUpdate(keys[focus_b][i], slot_of(focus_b, i) * VARIANTS + 3, i >= 3 && rng.chance(2, 3), false));
        }
        let mut placed = 0;
        for j in 0..keys.len() {
            if j == focus_b {
                continue;
            }
            for i in 0..2 {
                if placed < 10 && i < keys[j].len() {
                    let var = if rng.chance(1, 4) { 4 } else { 0 };
                    ops.push(Op::InsertOrUpdate(keys[j][i], slot_of(j, i) * VARIANTS + var, rng.chance(1, 2), false));
                    placed += 1;
                }
            }
        }
        let cand_var = if rng.chance(1, 2) { 3 } else { 2 };
        ops.push(Op::InsertOrUpdate(keys[focus_b][16], slot_of(focus_b, 16) * VARIANTS + cand_var, true, false));
        ops.push(Op::UpdateNode(keys[focus_b][16], slot_of(focus_b, 16) * VARIANTS + if rng.chance(1, 3) { 4 } else { 0 }, None));
        ops.push(Op::ForceReady(bucket_choice[focus_b]));
        ops.push(Op::Iter);
    } else if c16_kind == 0 {
        // bucket `focus_b`: two subnet-A nodes and 14 nodes without IPv4, head disconnected; a
        // candidate without IPv4 becomes pending; its record is then updated into subnet A (or a
        // member's record is), its timeout elapses: the promotion must be refused by the bucket filter
        let tcp_only = rng.chance(1, 3);
        let a_var = if tcp_only { 4 } else { 0 };
        for i in 0..16 {
            let var = if i == 5 || i == 9 { a_var } else { 3 };
            ops.push(Op::InsertOrUpdate(keys[focus_b][i], slot_of(focus_b, i) * VARIANTS + var, i >= 3 && rng.chance(2, 3), false));
        }
        ops.push(Op::InsertOrUpdate(keys[focus_b][16], slot_of(focus_b, 16) * VARIANTS + 3, true, false));
        ops.push(Op::UpdateNode(keys[focus_b][16], slot_of(focus_b, 16) * VARIANTS + if rng.chance(1, 2) { 0 } else { 4 }, None));
        ops.push(Op::ForceReady(bucket_choice[focus_b]));
        ops.push(Op::Iter);
        // and a third subnet-A member offered directly
        ops.push(Op::InsertOrUpdate(keys[focus_b][17], slot_of(focus_b, 17) * VARIANTS + a_var, true, false));
    } else if scripted_c16 {
        // bucket `focus_b` is filled with 16 nodes without IPv4 (head disconnected), the other
        // buckets receive subnet-A nodes; the random phase then adds pending candidates.
        for i in 0..16 {
            ops.push(Op::InsertOrUpdate(keys[focus_b][i], slot_of(focus_b, i) * VARIANTS + 3, i >= 4 && rng.chance(1, 2), false));
        }
        let mut placed = 0;
        for j in 0..keys.len() {
            if j == focus_b {
                continue;
            }
            for i in 0..2 {
                if placed < 9 && i < keys[j].len() {
                    ops.push(Op::InsertOrUpdate(keys[j][i], slot_of(j, i) * VARIANTS, rng.chance(1, 2), false));
                    placed += 1;
                }
            }
        }
        if rng.chance(1, 2) {
            let i = 16 + rng.below(4) as usize;
            ops.push(Op::InsertOrUpdate(keys[focus_b][i], slot_of(focus_b, i) * VARIANTS, true, false));
        }
    } else if scripted_incoming {
        // a full bucket whose head is disconnected and which is one short of the incoming limit; a
        // connected incoming candidate becomes pending; then the bucket reaches the limit by a status
        // report (or the candidate's own status changes) and the candidate's timeout elapses
        let lim = max_incoming;
        // variants 3.. : the bucket reaches the limit and then the node the candidate waits on (the
        // head) reports Connected as an incoming peer - its reconnection is refused, the candidate is
        // discarded all the same
        let variant = rng.below(6);
        let head_inc = variant >= 3 && rng.chance(1, 2);
        for i in 0..16 {
            let (conn, inc) = if i < 3 { (false, i == 1 || (i == 0 && head_inc)) } else if i < 3 + lim - 1 { (true, true) } else { (rng.chance(1, 2), false) };
            let v = pick_val(rng, slot_of(focus_b, i));
            ops.push(Op::InsertOrUpdate(keys[focus_b][i], v, conn, inc));
        }
        let v = pick_val(rng, slot_of(focus_b, 16));
        let cand_inc = rng.chance(2, 3);
        ops.push(Op::InsertOrUpdate(keys[focus_b][16], v, true, cand_inc));
        // a second candidate arrives while the first one waits: the slot is taken
        if rng.chance(1, 2) {
            let v2 = pick_val(rng, slot_of(focus_b, 17));
            ops.push(Op::InsertOrUpdate(keys[focus_b][17], v2, true, false));
        }
        match variant {
            0 => ops.push(Op::UpdateStatus(keys[focus_b][1 + rng.below(2) as usize], true, Some(true))),
            1 => ops.push(Op::Entry(keys[focus_b][16], Action::PendingUpdate(true, true))),
            2 => {
                ops.push(Op::UpdateStatus(keys[focus_b][2], true, Some(true)));
                ops.push(Op::UpdateStatus(keys[focus_b][16], true, Some(true)));
            }
            _ => {
                ops.push(Op::UpdateStatus(keys[focus_b][2], true, Some(true)));
                let d = if head_inc && rng.chance(1, 2) { None } else { Some(true) };
                let k0 = keys[focus_b][0];
                ops.push(match rng.below(4) {
                    0 => Op::Entry(k0, Action::Update(true, d)),
                    1 => {
                        let v = pick_val(rng, slot_of(focus_b, 0));
                        Op::InsertOrUpdate(k0, v, true, true)
                    }
                    _ => Op::UpdateStatus(k0, true, d),
                });
            }
        }
        ops.push(Op::ForceReady(bucket_choice[focus_b]));
        ops.push(if rng.chance(1, 2) { Op::Iter } else { Op::Entry(keys[focus_b][0], Action::Look) });
    } else if scripted_due {
        // A full bucket whose least recently active node(s) are disconnected, and a connected candidate
        // waiting in the pending slot.  Before the candidate's timeout elapses the eviction candidates
        // may leave the bucket (remove, Entry::remove, a record update refused by a filter) and
        // connected nodes may take the free slots; then the timeout elapses (hook) and ONE operation
        // of each kind is the first to touch the bucket.  With `due_crowd` ten records of one /24 sit
        // in the other buckets, so that a record update into that /24 meets the table limit.
        opening = if due_crowd { "due+crowd" } else { "due" };
        let fb = focus_b;
        let bidx = bucket_choice[fb];
        let a_var = if rng.chance(1, 3) { 4 } else { 0 };
        let mut vars: Vec<usize> = vec![];
        for i in 0..20 {
            vars.push(if filters {
                // a full bucket under the bucket limit: records without IPv4, at most two of subnet A
                if i == 7 {
                    2
                } else if !due_crowd && (i == 5 || i == 9) {
                    a_var
                } else {
                    3
                }
            } else {
                rng.below(VARIANTS as u64) as usize
            });
        }
        let val = |i: usize, var: usize| slot_of(fb, i) * VARIANTS + var;
        // (one case in six: every member of the bucket is disconnected)
        let nd = if rng.chance(1, if matches!(focus, "c08" | "c07") { 4 } else { 6 }) { 16 } else { rng.range(1, 3) as usize };
        let mut n_inc = 0usize;
        for i in 0..16 {
            let conn = i >= nd;
            let inc = conn && n_inc + 1 < max_incoming && rng.chance(1, 4);
            if inc {
                n_inc += 1;
            }
            ops.push(Op::InsertOrUpdate(keys[fb][i], val(i, vars[i]), conn, inc));
        }
        if due_crowd {
            let mut placed = 0;
            for j in 0..keys.len() {
                if j == fb {
                    continue;
                }
                for i in 0..2 {
                    if placed < 10 && i < keys[j].len() {
                        let var = if rng.chance(1, 4) { 4 } else { 0 };
                        ops.push(Op::InsertOrUpdate(keys[j][i], slot_of(j, i) * VARIANTS + var, rng.chance(1, 2), false));
                        placed += 1;
                    }
                }
            }
        }
        // the candidate
        let cand_inc = n_inc + 1 < max_incoming && rng.chance(1, 3);
        ops.push(Op::InsertOrUpdate(keys[fb][16], val(16, vars[16]), true, cand_inc));
        // the eviction candidates stay (0), leave and are replaced by connected nodes (1), or leave (2)
        let leave = rng.weighted(if focus == "c08" { &[2, 2, 3] } else { &[3, 2, 1] });
        // (a bucket of disconnected nodes only: mostly one of them leaves and nobody takes its place -
        // the candidate is then promoted into a bucket without a single connected node)
        let lonely = nd == 16 && rng.chance(2, 3);
        let leave = if lonely { 2 } else { leave };
        let mut next_new = 17usize;
        if leave > 0 {
            for i in 0..nd.min(3) {
                match rng.below(if filters { 3 } else { 2 }) {
                    0 => ops.push(Op::Remove(keys[fb][i])),
                    1 => ops.push(Op::Entry(keys[fb][i], Action::Remove)),
                    // a record update into a /24 that is full (in the bucket, or with `due_crowd` in
                    // the table) drops the node
                    _ => ops.push(Op::UpdateNode(keys[fb][i], val(i, a_var), None)),
                }
                if lonely {
                    break;
                }
                if leave == 1 || rng.chance(1, 2) {
                    ops.push(Op::InsertOrUpdate(keys[fb][next_new], val(next_new, vars[next_new]), true, false));
                    next_new += 1;
                }
            }
        }
        // the candidate may lose its connection while it waits (it is then promoted into the
        // disconnected group, as its most recently active member)
        if rng.chance(1, 3) {
            ops.push(Op::UpdateStatus(keys[fb][16], false, None));
        }
        // while the candidate waits: an operation for an id X of this bucket that is neither stored
        // nor pending, with a record of X (a lookup that answers with the pending slot whatever the
        // id would hand the candidate's slot to X)
        if rng.chance(if focus == "rec" { 3 } else { 1 }, 6) {
            let x = keys[fb][19];
            let xv = val(19, vars[19]);
            ops.push(match rng.below(5) {
                0 | 1 => Op::UpdateNode(x, xv, *rng.pick(&[None, Some(true), Some(false)])),
                2 => Op::InsertOrUpdate(x, xv, rng.chance(1, 2), rng.chance(1, 3)),
                3 => Op::Entry(x, Action::Update(rng.chance(1, 2), None)),
                _ => Op::Entry(x, Action::PendingUpdate(rng.chance(1, 2), rng.chance(1, 2))),
            });
            if rng.chance(1, 2) {
                ops.push(Op::UpdateNode(x, xv, None));
            }
        }
        // the timeout elapses
        if rng.chance(5, 6) {
            ops.push(Op::ForceReady(bidx));
        }
        // the first operation that touches the bucket afterwards
        let m = rng.range(nd.min(14) as u64, 15) as usize;
        let other_var = |rng: &mut Rng| -> usize {
            if filters {
                *rng.pick(&[3usize, 2, 2, 0, 4, 1])
            } else {
                rng.below(VARIANTS as u64) as usize
            }
        };
        let ost = |rng: &mut Rng| match rng.below(3) {
            0 => None,
            1 => Some(true),
            _ => Some(false),
        };
        let cw: u64 = if due_crowd { 1 } else { 0 };
        let kind = rng.weighted(&match focus {
            "c08" => [1, 1, 1, 1, 1, 1, 12, 6, 1, 1, 2 * cw, cw, cw, 1],
            // record-carrying operations
            "rec" => [6, 2, 3, 1, 1, 1, 1, 1, 1, 1, 6 * cw, 3 * cw, 3 * cw, 3],
            "c16" => [2, 1, 1, 1, 1, 1, 1, 1, 1, 1, 4 * cw, 5 * cw, 5 * cw, 1],
            _ => [2, 1, 1, 1, 1, 1, 1, 1, 1, 1, 4 * cw, 2 * cw, 2 * cw, 1],
        });
        let probe = match kind {
            0 => {
                // a session of a member is (re-)established: the same or another record of that node
                let var = if rng.chance(1, 3) { vars[m] } else { other_var(rng) };
                Op::InsertOrUpdate(keys[fb][m], val(m, var), rng.chance(4, 5), false)
            }
            1 => Op::InsertOrUpdate(keys[fb][19], val(19, vars[19]), true, false),
            2 => {
                let var = other_var(rng);
                Op::UpdateNode(keys[fb][m], val(m, var), ost(rng))
            }
            3 => Op::UpdateStatus(keys[fb][m], rng.chance(1, 2), ost(rng)),
            4 => {
                let who = *rng.pick(&[m, m, 16, 19, 0]);
                let a = match rng.below(3) {
                    0 => Action::Look,
                    1 => Action::Update(rng.chance(1, 2), ost(rng)),
                    _ => Action::Remove,
                };
                Op::Entry(keys[fb][who], a)
            }
            5 => Op::Iter,
            6 => {
                let mut ds = vec![bidx as u64 + 1];
                if rng.chance(1, 3) {
                    ds.insert(rng.below(2) as usize, *rng.pick(&bucket_choice) as u64 + 1);
                }
                if rng.chance(1, 6) {
                    ds.push(0);
                }
                Op::NodesByDistances(ds, *rng.pick(&[1usize, 3, 16, 16, 16, 17, 20, 40, 40]))
            }
            7 => Op::Closest(if rng.chance(1, 2) { keys[fb][m] } else { local }),
            8 => Op::Remove(keys[fb][m]),
            9 => Op::UpdateStatus(keys[fb][0], true, None),
            // a newer record moves a member into the crowded /24
            10 => Op::UpdateNode(keys[fb][m], val(m, if rng.chance(1, 3) { 4 } else { 0 }), ost(rng)),
            // a new node of the crowded /24 arrives (what the bucket looked like before the due
            // candidate was applied says nothing about whether the table filter must be asked)
            11 => Op::InsertOrUpdate(keys[fb][19], val(19, if rng.chance(1, 3) { 4 } else { 0 }), true, rng.chance(1, 4)),
            // the due candidate itself is offered again with a record of the crowded /24
            12 => Op::InsertOrUpdate(keys[fb][16], val(16, if rng.chance(1, 3) { 4 } else { 0 }), true, rng.chance(1, 4)),
            // an id that is neither stored nor pending, with its record
            _ => Op::UpdateNode(keys[fb][19], val(19, vars[19]), ost(rng)),
        };
        ops.push(probe);
        if rng.chance(1, 2) {
            ops.push(Op::Iter);
        }
    } else if rng.chance(3, 4) {
        // fill the focus bucket: mostly disconnected nodes so that a pending slot can arise
        let n_fill = 15 + rng.below(4) as usize;
        for i in 0..n_fill.min(keys[focus_b].len()) {
            let conn = rng.chance(1, 3);
            let v = pick_val(rng, slot_of(focus_b, i));
            ops.push(Op::InsertOrUpdate(keys[focus_b][i], v, conn, conn && rng.chance(1, 3)));
            if rng.chance(1, 4) {
                ops.push(Op::UpdateStatus(pick_key(rng).0, rng.chance(1, 2), None));
            }
        }
    }
    let fill = 0;
    for n in 0..nops {
        let w: &[u64] = if n < fill {
            &[60, 8, 4, 2, 6, 1, 2, 0, 0, 2]
        } else if focus == "c08" {
            &[20, 10, 6, 6, 8, 2, 3, 12, 30, 3]
        } else {
            // closest / nodes_by_distances results are C08's observations
            &[25, 18, 12, 8, 14, 3, 5, 0, 0, 4]
        };
        let op = match rng.weighted(w) {
            0 => {
                // more disconnected nodes early so that pending slots occur
                let conn = if n < fill { rng.chance(1, 2) } else { rng.chance(4, 5) };
                let (k, sl) = pick_key(rng);
                Op::InsertOrUpdate(k, pick_val(rng, sl), conn, rng.chance(1, 2))
            }
            1 => Op::UpdateStatus(
                pick_key(rng).0,
                rng.chance(1, 2),
                match rng.below(3) {
                    0 => None,
                    1 => Some(true),
                    _ => Some(false),
                },
            ),
            2 => {
                let (k, sl) = pick_key(rng);
                Op::UpdateNode(
                k,
                pick_val(rng, sl),
                match rng.below(3) {
                    0 => None,
                    1 => Some(true),
                    _ => Some(false),
                },
            )},
            3 => Op::Remove(pick_key(rng).0),
            4 => {
                let (k, sl) = pick_key(rng);
                let a = match rng.below(6) {
                    0 => Action::Look,
                    1 | 2 if !filters => Action::Insert(pick_val(rng, sl), rng.chance(1, 2), rng.chance(1, 2)),
                    1 | 2 => Action::Look,
                    3 => Action::Update(rng.chance(1, 2), if rng.chance(1, 2) { Some(rng.chance(1, 2)) } else { None }),
                    4 => Action::Remove,
                    _ => Action::PendingUpdate(rng.chance(1, 2), rng.chance(1, 2)),
                };
                Op::Entry(k, a)
            }
            5 => Op::Iter,
            6 => Op::TakeApplied,
            7 => {
                let nd = rng.below(5) as usize;
                let mut ds = vec![];
                for _ in 0..nd {
                    ds.push(match rng.below(8) {
                        0 => 0,
                        1 => 257 + rng.below(10),
                        2 => rng.below(300),
                        _ => *rng.pick(&bucket_choice) as u64 + 1,
                    });
                }
                Op::NodesByDistances(ds, *rng.pick(&[0usize, 1, 3, 16, 16, 16, 20, 40]))
            }
            8 => {
                let t = match rng.below(5) {
                    _ if word_b.is_some() && rng.chance(1, 4) => xor(&local, &distance_word_run(rng, word_b.unwrap())),
                    0 => local,
                    1 => pick_key(rng).0,
                    2 => {
                        let i = *rng.pick(&bucket_choice);
                        key_at(rng, &local, i)
                    }
                    _ => xor(&local, &distance_with_low_bits(rng)),
                };
                Op::Closest(t)
            }
            _ => Op::ForceReady(*rng.pick(&bucket_choice)),
        };
        ops.push(op);
    }
    GenCase { cfg, ops, bucket_choice, owner, local_enr, local_key, disc_cap, opening }
}

pub fn new_table(cfg: &CaseCfg) -> Table {
    let (tf, bf) = if cfg.filters {
        (Some(discv5::verif::kbucket::ip_table_filter()), Some(discv5::verif::kbucket::ip_bucket_filter()))
    } else {
        (None, None)
    };
    KBucketsTable::new(
        key_of(&cfg.local),
        if cfg.timeout_zero { Duration::from_secs(0) } else { Duration::from_secs(3600) },
        cfg.max_incoming,
        tf,
        bf,
    )
}

pub const HEADER: &str = "From Coq Require Import List NArith.\nImport ListNotations.\nFrom Discv5V Require Import Model.KBucket Run.Common Run.KBucketRun.\nOpen Scope N_scope.";

pub struct CaseResult {
    pub coq: String,
    pub failures: Vec<(String, String, usize)>, // (property, description, step)
    pub nontrivial: bool,
    pub canon: u64,
    pub steps: usize,
}

/// Runs one generated case on the implementation; produces the Coq case and monitor verdicts.
pub static FOCUS_PROP: std::sync::OnceLock<String> = std::sync::OnceLock::new();

pub fn run_case(ctx: &Ctx, id: u64, g: &GenCase, hist: &mut Hist) -> CaseResult {
    let mut t = new_table(&g.cfg);
    intern_begin();
    let mut ledger = Ledger { stamp: BTreeMap::new() };
    let mut forced: BTreeSet<usize> = BTreeSet::new();
    let mut steps = vec![];
    let mut failures = vec![];
    let mut before = dump(ctx, &t);
    let mut saw_pending = false;
    let mut saw_mixed = false;
    let mut saw_promotion = false;
    let mut h: u64 = 1469598103934665603;
    let mut disc: Option<discv5::Discv5> = None;
    hist.add(&format!("opening:{}", g.opening));
    for (i, op) in g.ops.iter().enumerate() {
        let now = i as u64 + 1;
        let pre: Option<Table> = if matches!(op, Op::NodesByDistances(..)) { Some(t.clone()) } else { None };
        let res = catch(std::panic::AssertUnwindSafe(|| apply(ctx, &mut t, op)));
        let (mut e, ret) = match res {
            Ok(x) => x,
            Err(m) => {
                failures.push(("C07".to_string(), format!("panic: {}", m), i));
                break;
            }
        };
        let after = dump(ctx, &t);
        e.n(hash_dump(&after).value());
        steps.push(format!("({}, {}, {})", coq_op(ctx, op), now, e.coq()));
        hist.add(&format!(
            "op:{}",
            match op {
                Op::InsertOrUpdate(..) => "insert_or_update",
                Op::UpdateStatus(..) => "update_node_status",
                Op::UpdateNode(..) => "update_node",
                Op::Remove(..) => "remove",
                Op::Entry(..) => "entry",
                Op::Iter => "iter",
                Op::TakeApplied => "take_applied",
                Op::NodesByDistances(..) => "nodes_by_distances",
                Op::Closest(..) => "closest",
                Op::ForceReady(..) => "force_ready",
            }
        ));
        match &ret {
            Ret::Ins(s) => hist.add(&format!("ins:{}", s)),
            Ret::Upd(s) => hist.add(&format!("upd:{}", s)),
            _ => {}
        }
        // ledger of status reports
        let touched: Option<K32> = match op {
            Op::InsertOrUpdate(k, ..) => Some(*k),
            Op::UpdateStatus(k, ..) => Some(*k),
            Op::UpdateNode(k, _, Some(_)) => Some(*k),
            Op::Entry(k, Action::Insert(..)) if matches!(ret, Ret::Entry(2)) => Some(*k),
            Op::Entry(k, Action::Update(..)) if matches!(ret, Ret::Entry(0)) => Some(*k),
            _ => None,
        };
        let was_in_nodes = |d: &TDump, k: &K32| d.buckets.iter().any(|b| b.nodes.iter().any(|n| &n.key == k));
        if let Some(k) = touched {
            if was_in_nodes(&after, &k) {
                ledger.stamp.insert(k, now);
            }
        }
        // promotions: keys pending before and in nodes now
        for b in &before.buckets {
            if let Some(p) = &b.pending {
                if was_in_nodes(&after, &p.key) && !was_in_nodes(&before, &p.key) {
                    ledger.stamp.insert(p.key, now);
                    saw_promotion = true;
                }
            }
        }
        // monitors
        if let Some(m) = check_c07(&g.cfg, &after, &ledger) {
            failures.push(("C07".into(), m, i));
        }
        if let Some(m) = check_pending_lifecycle(&before, &after, op, &forced, &g.cfg) {
            failures.push(("C07".into(), m, i));
        }
        if g.cfg.filters {
            if let Some(m) = check_c16(ctx, &after) {
                failures.push(("C16".into(), m, i));
            }
            if let Some(m) = check_c12_record(ctx, &before, &after, op) {
                failures.push(("C12".into(), m, i));
            }
        }
        if let Some(m) = check_departures(&before, &after, op) {
            failures.push(("C07".into(), m, i));
        }
        if let Some(m) = check_head_reconnect(&before, &after, op, &ret, &forced, &g.cfg) {
            failures.push(("C07".into(), m, i));
        }
        if g.cfg.filters {
            if let Some(m) = check_c16_no_ip4(ctx, op, &ret) {
                failures.push(("C16".into(), m, i));
            }
        }
        // C01: the record handed out for a who-are-you query about X is X's; C12: a record replaces a
        // stored one only if it is for the same id; C02: a handshake claiming id P is verified against
        // the record stored under P - if that is the record of another node X, X's handshake passes
        // as P's and X's requests are delivered as coming from P
        let keyed = check_keyed(&g.owner, &after);
        if let Some(m) = &keyed {
            failures.push(("C02".into(), m.clone(), i));
        }
        for m in [keyed, check_record_frame(ctx, &before, &after, op)].into_iter().flatten() {
            failures.push(("C01".into(), m.clone(), i));
            failures.push(("C12".into(), m, i));
        }
        if let (Op::NodesByDistances(ds, _), Some(pre)) = (op, &pre) {
            if disc.is_none() {
                disc = new_discv5(g);
            }
            match &disc {
                Some(d) => {
                    let r = catch(std::panic::AssertUnwindSafe(|| check_discv5_nbd(ctx, g, d, pre, ds)));
                    match r {
                        Ok(Some(m)) => failures.push(("C08".into(), m, i)),
                        Ok(None) => {}
                        Err(m) => failures.push(("C08".into(), format!("Discv5::nodes_by_distance: panic: {}", m), i)),
                    }
                }
                None => failures.push(("C08".into(), "Discv5::new refused the local record".into(), i)),
            }
        }
        match (op, &ret) {
            (Op::Closest(target), Ret::Nodes(l)) => {
                if let Some(m) = check_closest(target, l, &after) {
                    failures.push(("C08".into(), m, i));
                }
            }
            (Op::Closest(_), Ret::Unit) => {
                failures.push(("C08".into(), "closest: variants disagree or wrong predicate flag".into(), i));
            }
            (Op::NodesByDistances(ds, m), Ret::Nodes(l)) => {
                if let Some(x) = check_nbd(&g.cfg, ds, *m, l, &after) {
                    failures.push(("C08".into(), x, i));
                }
            }
            _ => {}
        }
        if let Op::ForceReady(i) = op {
            forced.insert(*i);
        }
        for b in &after.buckets {
            if b.pending.is_some() {
                saw_pending = true;
            } else {
                forced.remove(&b.idx);
            }
            if b.nodes.len() >= 2 && b.nodes.iter().any(|n| n.conn) && b.nodes.iter().any(|n| !n.conn) {
                saw_mixed = true;
            }
        }
        // canonical hash of the shape of the trace (results only, ids abstracted away)
        for s in e.0.iter().take(3) {
            for c in s.bytes() {
                h = (h ^ c as u64).wrapping_mul(1099511628211);
            }
        }
        h = (h ^ after.buckets.iter().map(|b| b.nodes.len() as u64 * 31 + b.pending.is_some() as u64).sum::<u64>()).wrapping_mul(1099511628211);
        before = after;
        // a case ends at the first failure of the property in focus; failures of other properties are
        // recorded (their own checks report them) but do not cut the history short
        let fp = FOCUS_PROP.get().map(|x| x.as_str()).unwrap_or("");
        if failures.iter().any(|f: &(String, String, usize)| f.0 == fp) || failures.len() > 12 {
            break;
        }
    }
    if saw_pending {
        hist.add("case:pending_slot_seen");
    }
    if saw_promotion {
        hist.add("case:promotion_seen");
    }
    if saw_mixed {
        hist.add("case:mixed_status_bucket");
    }
    let local = "L".to_string();
    let table = intern_end();
    let coq = format!(
        "(let L := {} in let K := fun i : N => nth (N.to_nat i) {} 0 in\n ({}, ({}, {}, {}), {},\n [{}]))",
        coq_hex_raw(&g.cfg.local),
        table,
        id,
        g.cfg.max_incoming,
        if g.cfg.timeout_zero { "0".to_string() } else { "1000000000".to_string() },
        coq_bool(g.cfg.filters),
        local,
        steps.join(";\n  ")
    );
    CaseResult { coq, failures, nontrivial: saw_pending || saw_mixed, canon: h, steps: steps.len() }
}

pub fn case_rng(seed: u64, idx: u64) -> Rng {
    Rng::new(seed.wrapping_mul(0x9E3779B97F4A7C15).wrapping_add(idx.wrapping_mul(0xD1B54A32D192ED03)).wrapping_add(17))
}

/// `harness kb --focus c07|c08|c16 --seed S --cases N --out DIR [--only I]`
pub fn main(args: &[String]) {
    let o = parse_opts(args);
    let mut focus = "c07".to_string();
    let mut only: Option<u64> = None;
    // the property whose first failure ends a case (default: the one named by the focus)
    let mut prop: Option<String> = None;
    let mut i = 0;
    while i < o.rest.len() {
        match o.rest[i].as_str() {
            "--focus" => {
                focus = o.rest[i + 1].clone();
                i += 1;
            }
            "--prop" => {
                prop = Some(o.rest[i + 1].to_uppercase());
                i += 1;
            }
            "--only" => {
                only = Some(o.rest[i + 1].parse().unwrap());
                i += 1;
            }
            _ => {}
        }
        i += 1;
    }
    let _ = FOCUS_PROP.set(prop.unwrap_or(focus.to_uppercase()));
    let pool = make_pool();
    let ctx = Ctx::new(&pool);
    let mut sum = Summary::new(&format!("kb/{}", focus));
    let mut w = CaseWriter::new(&o.out, "kb_cases", HEADER, "kcase", "check_all", 8);
    let mut canon: BTreeSet<u64> = BTreeSet::new();
    let mut seen_sig: BTreeSet<String> = BTreeSet::new();
    let range: Vec<u64> = match only {
        Some(x) => vec![x],
        None => (0..o.cases).collect(),
    };
    for idx in range {
        let mut rng = case_rng(o.seed, idx);
        let nops = if o.thorough { rng.range(60, 260) } else { rng.range(40, 140) } as usize;
        let g = gen_case(&mut rng, pool.len(), &focus, nops);
        let r = run_case(&ctx, idx, &g, &mut sum.hist);
        sum.evaluations += 1;
        sum.steps += r.steps as u64;
        if r.nontrivial && canon.insert(r.canon) {
            sum.distinct_nontrivial += 1;
        }
        if sum.samples.len() < 2 {
            sum.samples.push(J::obj(vec![
                ("case", J::I(idx as i64)),
                ("seed", J::I(o.seed as i64)),
                ("max_incoming", J::I(g.cfg.max_incoming as i64)),
                ("pending_timeout_zero", J::B(g.cfg.timeout_zero)),
                ("ip_filters", J::B(g.cfg.filters)),
                ("buckets_in_play", J::A(g.bucket_choice.iter().map(|b| J::I(*b as i64)).collect())),
                ("first_ops", J::A(g.ops.iter().take(6).map(|op| J::s(coq_op(&ctx, op))).collect())),
            ]));
        }
        for (prop, desc, step) in &r.failures {
            // signature: property + description with numbers abstracted
            let sig: String = desc.chars().map(|c| if c.is_ascii_digit() { '#' } else { c }).collect();
            let sig = format!("{}:{}", prop, sig);
            if seen_sig.insert(sig.clone()) || only.is_some() {
                let file = o.out.join(format!("failure_{}_{}.json", prop, idx));
                let j = J::obj(vec![
                    ("component", J::s("kb")),
                    ("focus", J::s(focus.clone())),
                    ("property", J::s(prop.clone())),
                    ("seed", J::I(o.seed as i64)),
                    ("case", J::I(idx as i64)),
                    ("thorough", J::B(o.thorough)),
                    ("step", J::I(*step as i64)),
                    ("what", J::s(desc.clone())),
                    ("ops", J::A(g.ops.iter().take(step + 1).map(|op| J::s(coq_op(&ctx, op))).collect())),
                ]);
                std::fs::write(&file, j.render()).unwrap();
                sum.monitor_failures.push((sig, desc.clone(), file.to_string_lossy().to_string()));
            }
        }
        w.push(r.coq);
    }
    w.flush();
    sum.case_files = w.files.clone();
    sum.rule = "operation sequences over a real KBucketsTable<NodeId, Enr>: 2-6 buckets in play chosen with extra weight on indices 0-7 and 250-255, up to 20 candidate ids per bucket, records of 256 key slots in 5 versions from few /24 subnets plus records without IPv4; scripted openings (incoming limit and pending slot; /24 limits and pending slot; a pending candidate whose timeout elapses mid-sequence after its eviction candidates stayed, left or were replaced, followed by one operation of each kind, optionally with one /24 at the table limit and then a new node or the due candidate itself offered with a record of that /24; operations for an id of the bucket that is neither stored nor pending while a candidate waits; the head of a bucket at its incoming limit reporting Connected as an incoming peer while a candidate waits on it); for c08 buckets at the 64-bit word boundaries of the distance and targets whose distance has a run of set bits across such a boundary; every nodes_by_distances step is also put to Discv5::nodes_by_distance on a Discv5 owning a copy of the table; a case is non-trivial if some bucket held nodes of mixed status or a pending slot, and distinct if the hash of its result/occupancy trace is new in this run".into();
    sum.write(&o.out);
    println!(
        "kb: {} cases, {} steps, {} distinct non-trivial, {} monitor failure signatures",
        sum.evaluations,
        sum.steps,
        sum.distinct_nontrivial,
        sum.monitor_failures.len()
    );
}
