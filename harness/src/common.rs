//! Shared helpers: PRNG, Coq literal printing, JSON output, summaries.
use std::collections::BTreeMap;
use std::fmt::Write as _;
use std::io::Write as _;
use std::path::{Path, PathBuf};

/// xorshift64* - every random choice of a run derives from one state seeded by VERIF_SEED.
#[derive(Clone)]
pub struct Rng(pub u64);

impl Rng {
    pub fn new(seed: u64) -> Self {
        let mut r = Rng(seed ^ 0x9E37_79B9_7F4A_7C15);
        if r.0 == 0 {
            r.0 = 0x1234_5678_9abc_def1;
        }
        for _ in 0..8 {
            r.next();
        }
        r
    }
    pub fn next(&mut self) -> u64 {
        let mut x = self.0;
        x ^= x >> 12;
        x ^= x << 25;
        x ^= x >> 27;
        self.0 = x;
        x.wrapping_mul(0x2545_F491_4F6C_DD1D)
    }
    /// uniform in 0..n (n > 0)
    pub fn below(&mut self, n: u64) -> u64 {
        self.next() % n
    }
    pub fn range(&mut self, lo: u64, hi_incl: u64) -> u64 {
        lo + self.below(hi_incl - lo + 1)
    }
    pub fn chance(&mut self, num: u64, den: u64) -> bool {
        self.below(den) < num
    }
    pub fn pick<'a, T>(&mut self, xs: &'a [T]) -> &'a T {
        &xs[self.below(xs.len() as u64) as usize]
    }
    pub fn bytes(&mut self, n: usize) -> Vec<u8> {
        let mut v = Vec::with_capacity(n);
        while v.len() < n {
            let x = self.next().to_le_bytes();
            for b in x {
                if v.len() < n {
                    v.push(b);
                }
            }
        }
        v
    }
    /// weighted choice: returns the index
    pub fn weighted(&mut self, weights: &[u64]) -> usize {
        let total: u64 = weights.iter().sum();
        let mut r = self.below(total);
        for (i, w) in weights.iter().enumerate() {
            if r < *w {
                return i;
            }
            r -= *w;
        }
        weights.len() - 1
    }
}

pub fn fork(rng: &mut Rng) -> Rng {
    Rng::new(rng.next())
}

/// Coq literal helpers (N_scope is open in the generated files).
pub fn coq_bool(b: bool) -> &'static str {
    if b {
        "true"
    } else {
        "false"
    }
}
thread_local! {
    /// Per-case interning of large numbers: a number in the table is printed as `(K i)`; the case
    /// file binds `K` to the table, so Coq parses each large literal only once per case.
    pub static INTERN: std::cell::RefCell<Option<(std::collections::HashMap<Vec<u8>, usize>, Vec<Vec<u8>>)>> = std::cell::RefCell::new(None);
}
thread_local! {
    /// Optional symbolic recipes for large numbers (printed in the table instead of the literal).
    pub static RECIPES: std::cell::RefCell<std::collections::HashMap<Vec<u8>, String>> = std::cell::RefCell::new(Default::default());
}
pub fn register_recipe(bytes: &[u8], recipe: String) {
    RECIPES.with(|r| {
        r.borrow_mut().insert(bytes.to_vec(), recipe);
    });
}
pub fn intern_begin() {
    INTERN.with(|t| *t.borrow_mut() = Some((Default::default(), vec![])));
}
/// Ends interning; returns the Coq list literal of the table.
pub fn intern_end() -> String {
    INTERN.with(|t| {
        let (_, v) = t.borrow_mut().take().unwrap_or_default();
        let out = RECIPES.with(|r| {
            let r = r.borrow();
            coq_list(&v.iter().map(|b| r.get(b).cloned().unwrap_or_else(|| coq_hex_raw(b))).collect::<Vec<_>>())
        });
        RECIPES.with(|r| r.borrow_mut().clear());
        out
    })
}
pub fn coq_hex(bytes: &[u8]) -> String {
    if bytes.len() <= 8 {
        return coq_hex_raw(bytes);
    }
    INTERN.with(|t| {
        let mut t = t.borrow_mut();
        match t.as_mut() {
            Some((m, v)) => {
                let i = match m.get(bytes) {
                    Some(i) => *i,
                    None => {
                        let i = v.len();
                        m.insert(bytes.to_vec(), i);
                        v.push(bytes.to_vec());
                        i
                    }
                };
                format!("(K {})", i)
            }
            None => coq_hex_raw(bytes),
        }
    })
}
pub fn coq_hex_raw(bytes: &[u8]) -> String {
    // big-endian bytes as a hexadecimal N literal
    let h = hex::encode(bytes);
    let t = h.trim_start_matches('0');
    if t.is_empty() {
        "0".to_string()
    } else {
        format!("0x{}", t)
    }
}
pub fn coq_list<T: AsRef<str>>(xs: &[T]) -> String {
    let mut s = String::from("[");
    for (i, x) in xs.iter().enumerate() {
        if i > 0 {
            s.push_str("; ");
        }
        s.push_str(x.as_ref());
    }
    s.push(']');
    s
}
pub fn coq_nlist(xs: &[String]) -> String {
    coq_list(xs)
}
pub fn coq_opt(x: Option<String>) -> String {
    match x {
        Some(s) => format!("(Some {})", s),
        None => "None".to_string(),
    }
}

/// A flat encoding of observables: a list of numbers printed as Coq N literals.
#[derive(Default, Clone, PartialEq, Eq, Debug)]
pub struct Enc(pub Vec<String>);
impl Enc {
    pub fn new() -> Self {
        Enc(Vec::new())
    }
    pub fn n(&mut self, x: u64) -> &mut Self {
        self.0.push(x.to_string());
        self
    }
    pub fn b(&mut self, x: bool) -> &mut Self {
        self.0.push(if x { "1".into() } else { "0".into() });
        self
    }
    pub fn big(&mut self, be: &[u8]) -> &mut Self {
        self.0.push(coq_hex(be));
        self
    }
    pub fn ext(&mut self, o: &Enc) -> &mut Self {
        self.0.extend(o.0.iter().cloned());
        self
    }
    pub fn coq(&self) -> String {
        coq_list(&self.0)
    }
}

/// The hash of Run/Common.v (`hashN`) over a flat encoding whose big numbers are kept as bytes.
#[derive(Default, Clone)]
pub struct HashEnc {
    h: u128,
    pub items: Vec<String>,
    started: bool,
}
pub const HMASK: u128 = (1u128 << 60) - 1;
impl HashEnc {
    pub fn new() -> Self {
        HashEnc { h: 7, items: vec![], started: true }
    }
    fn feed(&mut self, x: u128) {
        self.h = (self.h * 1000003 + x + 1) & HMASK;
    }
    pub fn n(&mut self, x: u64) -> &mut Self {
        if (x as u128) <= HMASK {
            self.feed(x as u128);
        } else {
            self.feed(x as u128 & HMASK);
            self.feed((x as u128) >> 60);
            self.feed(0);
            self.feed(0);
            self.feed(0);
        }
        self.items.push(x.to_string());
        self
    }
    pub fn b(&mut self, x: bool) -> &mut Self {
        self.n(x as u64)
    }
    /// a big-endian number of at most 300 bits
    pub fn big(&mut self, be: &[u8]) -> &mut Self {
        // little-endian bit extraction of 60-bit limbs
        let bit = |i: usize| -> u128 {
            let byte = i / 8;
            if byte >= be.len() {
                0
            } else {
                ((be[be.len() - 1 - byte] >> (i % 8)) & 1) as u128
            }
        };
        let limb = |k: usize| -> u128 {
            let mut r = 0u128;
            for j in 0..60 {
                r |= bit(k * 60 + j) << j;
            }
            r
        };
        let small = (60..be.len() * 8).all(|i| bit(i) == 0);
        if small {
            self.feed(limb(0));
        } else {
            for k in 0..4 {
                self.feed(limb(k));
            }
            // the top limb is everything from bit 240 up (at most 60 bits for <= 300-bit inputs)
            self.feed(limb(4));
        }
        self.items.push(format!("0x{}", hex::encode(be)));
        self
    }
    pub fn value(&self) -> u64 {
        let _ = self.started;
        self.h as u64
    }
}

/// Minimal JSON value (no external crates).
#[derive(Clone, Debug)]
pub enum J {
    Null,
    B(bool),
    I(i64),
    F(f64),
    S(String),
    A(Vec<J>),
    O(Vec<(String, J)>),
}
impl J {
    pub fn s<T: Into<String>>(x: T) -> J {
        J::S(x.into())
    }
    pub fn obj(kv: Vec<(&str, J)>) -> J {
        J::O(kv.into_iter().map(|(k, v)| (k.to_string(), v)).collect())
    }
    pub fn hist(m: &BTreeMap<String, u64>) -> J {
        J::O(m.iter().map(|(k, v)| (k.clone(), J::I(*v as i64))).collect())
    }
    pub fn render(&self) -> String {
        let mut s = String::new();
        self.write(&mut s);
        s
    }
    fn write(&self, s: &mut String) {
        match self {
            J::Null => s.push_str("null"),
            J::B(b) => s.push_str(if *b { "true" } else { "false" }),
            J::I(i) => {
                let _ = write!(s, "{}", i);
            }
            J::F(f) => {
                let _ = write!(s, "{}", f);
            }
            J::S(x) => {
                s.push('"');
                for c in x.chars() {
                    match c {
                        '"' => s.push_str("\\\""),
                        '\\' => s.push_str("\\\\"),
                        '\n' => s.push_str("\\n"),
                        '\t' => s.push_str("\\t"),
                        '\r' => s.push_str("\\r"),
                        c if (c as u32) < 0x20 => {
                            let _ = write!(s, "\\u{:04x}", c as u32);
                        }
                        c => s.push(c),
                    }
                }
                s.push('"');
            }
            J::A(a) => {
                s.push('[');
                for (i, x) in a.iter().enumerate() {
                    if i > 0 {
                        s.push(',');
                    }
                    x.write(s);
                }
                s.push(']');
            }
            J::O(o) => {
                s.push('{');
                for (i, (k, v)) in o.iter().enumerate() {
                    if i > 0 {
                        s.push(',');
                    }
                    J::S(k.clone()).write(s);
                    s.push(':');
                    v.write(s);
                }
                s.push('}');
            }
        }
    }
}

/// Histogram helper.
#[derive(Default, Clone)]
pub struct Hist(pub BTreeMap<String, u64>);
impl Hist {
    pub fn add(&mut self, k: &str) {
        *self.0.entry(k.to_string()).or_insert(0) += 1;
    }
    pub fn addn(&mut self, k: &str, n: u64) {
        *self.0.entry(k.to_string()).or_insert(0) += n;
    }
}

/// What a sub-command reports back to the orchestrator.
pub struct Summary {
    pub component: String,
    pub evaluations: u64,
    pub distinct_nontrivial: u64,
    pub steps: u64,
    pub rule: String,
    pub hist: Hist,
    pub samples: Vec<J>,
    /// failures of the direct property monitor on the implementation: (signature, description, replay file)
    pub monitor_failures: Vec<(String, String, String)>,
    pub case_files: Vec<String>,
    pub extra: Vec<(String, J)>,
}

impl Summary {
    pub fn new(component: &str) -> Self {
        Summary {
            component: component.to_string(),
            evaluations: 0,
            distinct_nontrivial: 0,
            steps: 0,
            rule: String::new(),
            hist: Hist::default(),
            samples: vec![],
            monitor_failures: vec![],
            case_files: vec![],
            extra: vec![],
        }
    }
    pub fn write(&self, out: &Path) {
        let mut kv = vec![
            ("component", J::s(self.component.clone())),
            ("evaluations", J::I(self.evaluations as i64)),
            ("distinct_nontrivial", J::I(self.distinct_nontrivial as i64)),
            ("steps", J::I(self.steps as i64)),
            ("rule", J::s(self.rule.clone())),
            ("distribution", J::hist(&self.hist.0)),
            ("samples", J::A(self.samples.clone())),
            (
                "monitor_failures",
                J::A(self
                    .monitor_failures
                    .iter()
                    .map(|(sig, d, f)| {
                        J::obj(vec![
                            ("signature", J::s(sig.clone())),
                            ("description", J::s(d.clone())),
                            ("replay", J::s(f.clone())),
                        ])
                    })
                    .collect()),
            ),
            (
                "case_files",
                J::A(self.case_files.iter().map(|f| J::s(f.clone())).collect()),
            ),
        ];
        let extra: Vec<(String, J)> = self.extra.clone();
        let mut o: Vec<(String, J)> = kv.drain(..).map(|(k, v)| (k.to_string(), v)).collect();
        o.extend(extra);
        let p = out.join("summary.json");
        std::fs::write(&p, J::O(o).render()).expect("write summary");
    }
}

/// Writes Coq case files in shards. `header` must import the runner and open N_scope; each file
/// defines `cases : list <ty>` and ends with `Eval vm_compute in (<check> cases).`
pub struct CaseWriter {
    dir: PathBuf,
    prefix: String,
    header: String,
    ty: String,
    check: String,
    per_file: usize,
    cur: Vec<String>,
    pub files: Vec<String>,
}

impl CaseWriter {
    pub fn new(dir: &Path, prefix: &str, header: &str, ty: &str, check: &str, per_file: usize) -> Self {
        std::fs::create_dir_all(dir).expect("mkdir");
        CaseWriter {
            dir: dir.to_path_buf(),
            prefix: prefix.to_string(),
            header: header.to_string(),
            ty: ty.to_string(),
            check: check.to_string(),
            per_file,
            cur: vec![],
            files: vec![],
        }
    }
    pub fn push(&mut self, case: String) {
        self.cur.push(case);
        if self.cur.len() >= self.per_file {
            self.flush();
        }
    }
    pub fn flush(&mut self) {
        if self.cur.is_empty() {
            return;
        }
        let name = format!("{}_{:03}.v", self.prefix, self.files.len());
        let path = self.dir.join(&name);
        let mut f = std::io::BufWriter::new(std::fs::File::create(&path).expect("create case file"));
        writeln!(f, "{}", self.header).unwrap();
        writeln!(f, "Definition cases : list {} := [", self.ty).unwrap();
        for (i, c) in self.cur.iter().enumerate() {
            if i > 0 {
                writeln!(f, ";").unwrap();
            }
            write!(f, "{}", c).unwrap();
        }
        writeln!(f, "\n].").unwrap();
        writeln!(f, "Set Printing Width 1000000.\nSet Printing Depth 1000000.").unwrap();
        writeln!(f, "Eval vm_compute in ({} cases).", self.check).unwrap();
        f.flush().unwrap();
        self.files.push(path.to_string_lossy().to_string());
        self.cur.clear();
    }
}

/// Command-line options common to every sub-command.
pub struct Opts {
    pub seed: u64,
    pub cases: u64,
    pub out: PathBuf,
    pub thorough: bool,
    pub replay: Option<String>,
    pub rest: Vec<String>,
}

pub fn parse_opts(args: &[String]) -> Opts {
    let mut o = Opts {
        seed: 1,
        cases: 100,
        out: PathBuf::from("/verif/out/tmp"),
        thorough: false,
        replay: None,
        rest: vec![],
    };
    let mut i = 0;
    while i < args.len() {
        match args[i].as_str() {
            "--seed" => {
                o.seed = args[i + 1].parse().expect("seed");
                i += 1;
            }
            "--cases" => {
                o.cases = args[i + 1].parse().expect("cases");
                i += 1;
            }
            "--out" => {
                o.out = PathBuf::from(&args[i + 1]);
                i += 1;
            }
            "--tier" => {
                o.thorough = args[i + 1] == "thorough";
                i += 1;
            }
            "--replay" => {
                o.replay = Some(args[i + 1].clone());
                i += 1;
            }
            x => o.rest.push(x.to_string()),
        }
        i += 1;
    }
    o
}

/// Runs a closure catching panics; returns Err(message) on panic.
pub fn catch<T, F: FnOnce() -> T + std::panic::UnwindSafe>(f: F) -> Result<T, String> {
    match std::panic::catch_unwind(f) {
        Ok(v) => Ok(v),
        Err(e) => {
            if let Some(s) = e.downcast_ref::<&str>() {
                Err(s.to_string())
            } else if let Some(s) = e.downcast_ref::<String>() {
                Err(s.clone())
            } else {
                Err("panic".to_string())
            }
        }
    }
}
