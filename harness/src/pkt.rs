//! Packet wire codec (C05): generator of valid packets and of malformed datagrams built in the
//! unmasked domain, driver of the real `Packet::encode` / `Packet::decode` (through the hook facade
//! `discv5::verif::packet`), direct property monitor, and the Coq case files for the correspondence
//! with Model/Packet.v.
use crate::common::*;
use aes::cipher::{KeyIvInit, StreamCipher};
use alloy_rlp::Decodable;
use discv5::enr::CombinedKey;
use discv5::verif::packet::{packet_authenticated_data, packet_constants, packet_decode, packet_encode, KindDesc, PacketDesc};
use discv5::Enr;
use std::collections::BTreeSet;

type Aes128Ctr64BE = ctr::Ctr64BE<aes::Aes128>;
type Id = [u8; 32];

pub const HEADER: &str = "From Coq Require Import List NArith.\nImport ListNotations.\nFrom Discv5V Require Import Lib.Bytes Model.Packet Run.Common Run.PacketRun.\nOpen Scope N_scope.";

// The numbers of the property text / the discv5.1 wire specification, used by the monitor and the
// reference layout (deliberately not read from the implementation).
const SPEC_MIN: usize = 63;
const SPEC_MAX: usize = 1280;
const SPEC_IV: usize = 16;
const SPEC_STATIC: usize = 23;
const SPEC_PROTOCOL: &[u8; 6] = b"discv5";
const SPEC_VERSION: [u8; 2] = [0, 1];

/// The real AES-128-CTR keystream for (key = id[..16], iv), `n` bytes.
fn keystream(id: &Id, iv: &[u8], n: usize) -> Vec<u8> {
    let mut z = vec![0u8; n];
    let mut c = Aes128Ctr64BE::new_from_slices(&id[..16], iv).expect("key/iv sizes");
    c.apply_keystream(&mut z);
    z
}

fn xor(a: &[u8], k: &[u8]) -> Vec<u8> {
    a.iter().zip(k.iter()).map(|(x, y)| x ^ y).collect()
}

/// A datagram in the unmasked domain.
#[derive(Clone, Debug)]
struct Raw {
    iv: [u8; 16],
    /// static header (23 bytes) followed by the auth-data, unmasked
    header: Vec<u8>,
    body: Vec<u8>,
}

impl Raw {
    fn mask(&self, id: &Id) -> Vec<u8> {
        let ks = keystream(id, &self.iv, self.header.len());
        let mut out = self.iv.to_vec();
        out.extend_from_slice(&xor(&self.header, &ks));
        out.extend_from_slice(&self.body);
        out
    }
    fn set_authsize(&mut self, v: u16) {
        self.header[21] = (v >> 8) as u8;
        self.header[22] = (v & 0xff) as u8;
    }
}

/// The discv5.1 layout written from the specification: auth-data per kind.
fn spec_authdata(k: &KindDesc) -> Vec<u8> {
    match k {
        KindDesc::Message { src_id } => src_id.to_vec(),
        KindDesc::WhoAreYou { id_nonce, enr_seq } => {
            let mut v = id_nonce.to_vec();
            v.extend_from_slice(&enr_seq.to_be_bytes());
            v
        }
        KindDesc::Handshake { src_id, id_nonce_sig, ephem_pubkey, enr_record } => {
            let mut v = src_id.to_vec();
            v.push(id_nonce_sig.len() as u8);
            v.push(ephem_pubkey.len() as u8);
            v.extend_from_slice(id_nonce_sig);
            v.extend_from_slice(ephem_pubkey);
            if let Some(r) = enr_record {
                v.extend_from_slice(&alloy_rlp::encode(r));
            }
            v
        }
    }
}
fn spec_flag(k: &KindDesc) -> u8 {
    match k {
        KindDesc::Message { .. } => 0,
        KindDesc::WhoAreYou { .. } => 1,
        KindDesc::Handshake { .. } => 2,
    }
}
fn spec_raw(d: &PacketDesc) -> Raw {
    let ad = spec_authdata(&d.kind);
    let mut h = SPEC_PROTOCOL.to_vec();
    h.extend_from_slice(&SPEC_VERSION);
    h.push(spec_flag(&d.kind));
    h.extend_from_slice(&d.message_nonce);
    h.extend_from_slice(&(ad.len() as u16).to_be_bytes());
    h.extend_from_slice(&ad);
    Raw { iv: d.iv.to_be_bytes(), header: h, body: d.message.clone() }
}

/// Is the description inside the quantifier of the property (well-formed packet)?
fn well_formed(d: &PacketDesc) -> bool {
    let ok_kind = match &d.kind {
        KindDesc::Handshake { id_nonce_sig, ephem_pubkey, .. } => id_nonce_sig.len() <= 255 && ephem_pubkey.len() <= 255,
        KindDesc::WhoAreYou { .. } => d.message.is_empty(),
        KindDesc::Message { .. } => true,
    };
    let ad = spec_authdata(&d.kind).len();
    let total = SPEC_IV + SPEC_STATIC + ad + d.message.len();
    ok_kind && ad < 65536 && (SPEC_MIN..=SPEC_MAX).contains(&total)
}

/// The strictness clauses of the property text, evaluated by the harness on the datagram unmasked
/// with the real keystream. Some(reason) = the property says this datagram must be rejected.
fn must_reject(local: &Id, data: &[u8]) -> Option<&'static str> {
    if data.len() < SPEC_MIN {
        return Some("shorter than 63 bytes");
    }
    if data.len() > SPEC_MAX {
        return Some("longer than 1280 bytes");
    }
    let ks = keystream(local, &data[..16], data.len() - 16);
    let h = xor(&data[16..], &ks);
    if &h[..6] != SPEC_PROTOCOL {
        return Some("foreign protocol id");
    }
    if h[6..8] != SPEC_VERSION {
        return Some("foreign version");
    }
    let flag = h[8];
    if flag > 2 {
        return Some("unknown kind");
    }
    let asz = ((h[21] as usize) << 8) | h[22] as usize;
    let remaining = data.len() - SPEC_IV - SPEC_STATIC;
    if asz > remaining {
        return Some("auth-data size exceeds the datagram");
    }
    match flag {
        0 if asz != 32 => return Some("message auth-data size is not 32"),
        1 if asz != 24 => return Some("WHOAREYOU auth-data size is not 24"),
        2 => {
            if asz < 34 {
                return Some("handshake auth-data shorter than its fixed part");
            }
            let sig = h[23 + 32] as usize;
            let key = h[23 + 33] as usize;
            if asz < 34 + sig + key {
                return Some("handshake auth-data shorter than its signature and key");
            }
        }
        _ => {}
    }
    if flag == 1 && remaining > asz {
        return Some("WHOAREYOU carrying a body");
    }
    None
}

// ---------------------------------------------------------------------------------------------
// Coq printing and the canonical encodings (must match Run/PacketRun.v)

fn coq_b(b: &[u8]) -> String {
    let h = hex::encode(b);
    let t = h.trim_start_matches('0');
    if t.is_empty() {
        format!("(B {} 0)", b.len())
    } else {
        format!("(B {} 0x{})", b.len(), t)
    }
}

fn coq_desc(d: &PacketDesc) -> String {
    let k = match &d.kind {
        KindDesc::Message { src_id } => format!("(KM {})", coq_b(src_id)),
        KindDesc::WhoAreYou { id_nonce, enr_seq } => format!("(KW {} {})", coq_b(id_nonce), enr_seq),
        KindDesc::Handshake { src_id, id_nonce_sig, ephem_pubkey, enr_record } => format!(
            "(KH {} {} {} {})",
            coq_b(src_id),
            coq_b(id_nonce_sig),
            coq_b(ephem_pubkey),
            coq_opt(enr_record.as_ref().map(|r| coq_b(&alloy_rlp::encode(r))))
        ),
    };
    format!("(P {} {} {} {})", coq_hex_raw(&d.iv.to_be_bytes()), coq_b(&d.message_nonce), k, coq_b(&d.message))
}

fn h_bytes(h: &mut HashEnc, b: &[u8]) {
    h.n(b.len() as u64);
    for x in b {
        h.n(*x as u64);
    }
}

fn enc_desc(h: &mut HashEnc, d: &PacketDesc) {
    h.big(&d.iv.to_be_bytes());
    h_bytes(h, &d.message_nonce);
    match &d.kind {
        KindDesc::Message { src_id } => {
            h.n(0);
            h_bytes(h, src_id);
        }
        KindDesc::WhoAreYou { id_nonce, enr_seq } => {
            h.n(1);
            h_bytes(h, id_nonce);
            h.n(*enr_seq);
        }
        KindDesc::Handshake { src_id, id_nonce_sig, ephem_pubkey, enr_record } => {
            h.n(2);
            h_bytes(h, src_id);
            h_bytes(h, id_nonce_sig);
            h_bytes(h, ephem_pubkey);
            match enr_record {
                Some(r) => {
                    h.n(1);
                    h_bytes(h, &alloy_rlp::encode(r));
                }
                None => {
                    h.n(0);
                }
            }
        }
    }
    h_bytes(h, &d.message);
}

/// Result of the real decoder: Ok / error name (Debug rendering) / panic message.
#[derive(Clone, Debug)]
enum DecRes {
    Ok(PacketDesc, Vec<u8>),
    Err(String),
    Panic(String),
}

fn err_code(e: &str) -> Vec<u64> {
    let name = e.split('(').next().unwrap_or("");
    let payload = || -> u64 {
        e.split('(').nth(1).and_then(|s| s.trim_end_matches(')').parse::<u64>().ok()).unwrap_or(u64::MAX)
    };
    match name {
        "UnknownPacket" => vec![0],
        "TooLarge" => vec![1],
        "TooSmall" => vec![2],
        "InvalidNodeId" => vec![3],
        "HeaderLengthInvalid" => vec![4, payload()],
        "HeaderDecryptionFailed" => vec![5],
        "InvalidAuthDataSize" => vec![6],
        "InvalidVersion" => vec![7, payload()],
        "InvalidEnr" => vec![8],
        _ => vec![99],
    }
}

fn enc_decres(r: &DecRes) -> u64 {
    let mut h = HashEnc::new();
    match r {
        DecRes::Ok(d, aad) => {
            h.n(0);
            enc_desc(&mut h, d);
            h_bytes(&mut h, aad);
        }
        DecRes::Err(e) => {
            h.n(1);
            for x in err_code(e) {
                h.n(x);
            }
        }
        DecRes::Panic(_) => {
            h.n(2);
        }
    }
    h.value()
}

fn run_decode(local: &Id, data: &[u8]) -> DecRes {
    let l = *local;
    let d = data.to_vec();
    match catch(move || packet_decode(&l, &d)) {
        Ok(Ok((p, aad))) => DecRes::Ok(p, aad),
        Ok(Err(e)) => DecRes::Err(e),
        Err(m) => DecRes::Panic(m),
    }
}

// ---------------------------------------------------------------------------------------------
// Generator

fn rid(rng: &mut Rng) -> Id {
    let mut id = [0u8; 32];
    id.copy_from_slice(&rng.bytes(32));
    id
}
fn arr<const N: usize>(rng: &mut Rng) -> [u8; N] {
    let mut a = [0u8; N];
    a.copy_from_slice(&rng.bytes(N));
    a
}
fn rand_iv(rng: &mut Rng) -> u128 {
    match rng.below(8) {
        0 => 0,
        1 => u128::MAX,
        2 => rng.below(256) as u128,
        _ => u128::from_be_bytes(arr::<16>(rng)),
    }
}
fn emph_size(rng: &mut Rng) -> usize {
    if rng.chance(3, 5) {
        *rng.pick(&[0usize, 1, 33, 64, 255])
    } else {
        rng.below(256) as usize
    }
}

/// Real signed records of about 100..300 bytes, keys derived from the run's seed.
pub fn make_enrs(seed: u64) -> Vec<Enr> {
    let mut rng = Rng::new(seed ^ 0xE17A_5EED);
    let mut out = vec![];
    // the first one is the smallest record the builder makes (no address, no padding)
    let targets = [0usize, 130, 170, 220, 260, 290, 300];
    for (i, t) in targets.iter().enumerate() {
        let key = loop {
            let mut b = rng.bytes(32);
            if let Ok(k) = CombinedKey::secp256k1_from_bytes(&mut b) {
                break k;
            }
        };
        // grow a padding value until the record reaches the target size
        let mut pad = 0usize;
        let mut best: Option<Enr> = None;
        loop {
            let mut b = Enr::builder();
            b.seq(1 + i as u64 * 1000 + rng.below(1000));
            if i % 2 == 0 && i > 0 {
                b.ip4(std::net::Ipv4Addr::new(10, 1, i as u8, 7));
                b.udp4(9000 + i as u16);
            }
            if pad > 0 {
                let v = alloy_rlp::Bytes::from(vec![0xabu8; pad]);
                b.add_value("pad", &v);
            }
            match b.build(&key) {
                Ok(e) => {
                    let n = alloy_rlp::encode(&e).len();
                    if n > *t && *t > 0 {
                        break;
                    }
                    best = Some(e);
                    if n == *t || *t == 0 {
                        break;
                    }
                    pad += 1;
                }
                Err(_) => break,
            }
        }
        if let Some(e) = best {
            out.push(e);
        }
    }
    out
}

fn gen_kind(rng: &mut Rng, which: u64, enrs: &[Enr], with_record: Option<bool>) -> KindDesc {
    match which {
        0 => KindDesc::Message { src_id: rid(rng) },
        1 => KindDesc::WhoAreYou {
            id_nonce: arr::<16>(rng),
            enr_seq: match rng.below(5) {
                0 => 0,
                1 => u64::MAX,
                2 => rng.below(300),
                _ => rng.next(),
            },
        },
        _ => {
            let (mut s, mut k) = (emph_size(rng), emph_size(rng));
            // one handshake in five has a corner pair of sizes (both empty, one empty, both at the limit)
            let corner = rng.chance(1, 5);
            if corner {
                let (a, b) = *rng.pick(&[(0usize, 0usize), (0, 0), (0, 1), (1, 0), (0, 255), (255, 0), (255, 255), (255, 1), (200, 100)]);
                s = a;
                k = b;
            }
            let rec = match with_record {
                Some(true) => true,
                Some(false) => false,
                None => if corner { rng.chance(1, 4) } else { rng.chance(1, 2) },
            };
            KindDesc::Handshake {
                src_id: rid(rng),
                id_nonce_sig: rng.bytes(s),
                ephem_pubkey: rng.bytes(k),
                enr_record: if rec { Some(rng.pick(enrs).clone()) } else { None },
            }
        }
    }
}

fn max_body(k: &KindDesc) -> usize {
    SPEC_MAX - SPEC_IV - SPEC_STATIC - spec_authdata(k).len()
}

fn gen_body_len(rng: &mut Rng, max: usize) -> usize {
    match rng.below(10) {
        0 => 0,
        1 => 1,
        2 => max,
        3 => max.saturating_sub(1),
        4 => 44.min(max),
        5 | 6 => rng.range(0, max as u64) as usize,
        _ => rng.range(0, 200.min(max) as u64) as usize,
    }
}

fn gen_valid(rng: &mut Rng, which: u64, enrs: &[Enr], with_record: Option<bool>) -> PacketDesc {
    gen_valid_sized(rng, which, enrs, with_record, None)
}

/// `below_max`: Some(k) = a body that makes the datagram exactly 1280 - k bytes long (the largest
/// legal datagram for k = 0); WHOAREYOU packets have no body.
fn gen_valid_sized(rng: &mut Rng, which: u64, enrs: &[Enr], with_record: Option<bool>, below_max: Option<usize>) -> PacketDesc {
    let kind = gen_kind(rng, which, enrs, with_record);
    let body = match (which, below_max) {
        (1, _) => 0,
        (_, Some(k)) => max_body(&kind).saturating_sub(k),
        _ => gen_body_len(rng, max_body(&kind)),
    };
    PacketDesc { iv: rand_iv(rng), message_nonce: arr::<12>(rng), kind, message: rng.bytes(body) }
}

#[derive(Clone, Debug)]
enum Step {
    Encode(PacketDesc, Id),
    DecodePrev(Id),
    Decode(Id, Vec<u8>),
}

struct Gen {
    class: String,
    steps: Vec<Step>,
    /// expectations the monitor derives from how the case was built (not from the model)
    roundtrip: bool,
    foreign_decode: bool,
}

pub const NCLASSES: u64 = 20;

fn gen_case(rng: &mut Rng, idx: u64, enrs: &[Enr]) -> Gen {
    let class = idx % NCLASSES;
    let dst = rid(rng);
    let mut other = rid(rng);
    if other[..16] == dst[..16] {
        other[0] ^= 1;
    }
    let mk = |class: &str, steps: Vec<Step>| Gen { class: class.to_string(), steps, roundtrip: false, foreign_decode: false };
    // a valid template for the mutation classes
    let tmpl_kind = rng.below(3);
    match class {
        // ---- valid packets: encode, decode with the destination id, decode with another id
        0 | 1 | 2 | 3 | 4 => {
            let (which, rec, name) = match class {
                0 => (0, None, "valid/message"),
                1 => (1, None, "valid/whoareyou"),
                2 => (2, Some(false), "valid/handshake"),
                3 => (2, Some(true), "valid/handshake+record"),
                _ => (rng.below(3), None, "valid/mixed"),
            };
            // every run holds well-formed packets of each kind whose datagram is exactly 1280 bytes
            // (the largest legal size) and 1279 bytes: every third round of the classes each
            let d = match (idx / NCLASSES) % 3 {
                0 => gen_valid_sized(rng, which, enrs, rec, Some(0)),
                1 => gen_valid_sized(rng, which, enrs, rec, Some(1)),
                _ => gen_valid(rng, which, enrs, rec),
            };
            let mut g = mk(name, vec![Step::Encode(d, dst), Step::DecodePrev(dst), Step::DecodePrev(other)]);
            g.roundtrip = true;
            g.foreign_decode = true;
            g
        }
        // ---- outside the quantifier: too long / length bytes that wrap
        5 => {
            // (every fourth round: a datagram of exactly 1281 bytes)
            let exact = (idx / NCLASSES) % 4 == 0;
            let sub = if exact { 0 } else { rng.below(4) };
            let d = match sub {
                0 => {
                    // one byte too many
                    let kind = gen_kind(rng, 0, enrs, None);
                    let n = max_body(&kind) + 1 + if exact { 0 } else { rng.below(3) as usize };
                    PacketDesc { iv: rand_iv(rng), message_nonce: arr::<12>(rng), kind, message: rng.bytes(n) }
                }
                1 => {
                    // WHOAREYOU with a body, through the encoder
                    let kind = gen_kind(rng, 1, enrs, None);
                    let n = rng.range(1, 40) as usize;
                    PacketDesc { iv: rand_iv(rng), message_nonce: arr::<12>(rng), kind, message: rng.bytes(n) }
                }
                _ => {
                    // signature / key of 256.. bytes: the size byte wraps
                    let s = if rng.chance(1, 2) { 256 + rng.below(40) as usize } else { emph_size(rng) };
                    let k = if s < 256 || rng.chance(1, 2) { 256 + rng.below(40) as usize } else { emph_size(rng) };
                    let kind = KindDesc::Handshake { src_id: rid(rng), id_nonce_sig: rng.bytes(s), ephem_pubkey: rng.bytes(k), enr_record: None };
                    let n = rng.below(30) as usize;
                    PacketDesc { iv: rand_iv(rng), message_nonce: arr::<12>(rng), kind, message: rng.bytes(n) }
                }
            };
            mk("encode/outside-quantifier", vec![Step::Encode(d, dst), Step::DecodePrev(dst)])
        }
        // ---- arbitrary byte strings
        6 => {
            let n = match rng.below(14) {
                0 => 0,
                1 => 1,
                2 => 62,
                3 => 63,
                4 => 64,
                5 => 1279,
                6 => 1280,
                7 => 1281,
                8 => 1400,
                9 => 38,
                10 => 39,
                _ => rng.range(0, 1400) as usize,
            };
            // every run also visits the short lengths around the guards of the decoder
            let mut steps = vec![Step::Decode(dst, rng.bytes(n))];
            for m in [0usize, 15, 16, 17, 38, 39, 62, 63] {
                steps.push(Step::Decode(dst, rng.bytes(m)));
            }
            mk("random/bytes", steps)
        }
        // ---- valid static header, everything after it random
        7 => {
            let n = match rng.below(6) {
                0 => 63,
                1 => 64,
                2 => 1280,
                _ => rng.range(63, 700) as usize,
            };
            let mut raw = Raw { iv: arr::<16>(rng), header: vec![], body: vec![] };
            let mut h = SPEC_PROTOCOL.to_vec();
            h.extend_from_slice(&SPEC_VERSION);
            h.push(rng.below(3) as u8);
            h.extend_from_slice(&rng.bytes(12));
            let rem = n - 39;
            let asz = match rng.below(6) {
                0 => 32,
                1 => 24,
                2 => rem,
                3 => rem + 1,
                4 => rng.range(34, 400) as usize,
                _ => rng.range(0, rem as u64) as usize,
            };
            h.extend_from_slice(&(asz as u16).to_be_bytes());
            h.extend_from_slice(&rng.bytes(rem));
            if h[8] == 2 && rng.chance(2, 3) && rem >= 34 {
                // plausible signature / key sizes
                h[23 + 32] = rng.below(40) as u8;
                h[23 + 33] = rng.below(40) as u8;
            }
            raw.header = h;
            mk("random/after-static-header", vec![Step::Decode(dst, raw.mask(&dst))])
        }
        // ---- total length: truncations / extensions of a valid datagram at every guard boundary
        8 => {
            let d = gen_valid(rng, tmpl_kind, enrs, None);
            let raw = spec_raw(&d);
            let full = raw.mask(&dst);
            let hl = 16 + raw.header.len();
            let cands = [62usize, 63, 64, hl.saturating_sub(1), hl, hl + 1, full.len().saturating_sub(1), 1279, 1280, 1281];
            let resize = |n: usize, rng: &mut Rng| -> Vec<u8> {
                let mut data = full.clone();
                if n <= data.len() {
                    data.truncate(n);
                } else {
                    let extra = rng.bytes(n - data.len());
                    data.extend_from_slice(&extra);
                }
                data
            };
            // one of the long boundaries (cycled over the run) and all the short ones
            let n = cands[((idx / NCLASSES) as usize) % cands.len()];
            let mut steps = vec![Step::Decode(dst, resize(n, rng))];
            let n2 = *rng.pick(&cands);
            if n2 != n {
                steps.push(Step::Decode(dst, resize(n2, rng)));
            }
            for m in [0usize, 1, 16, 22, 38, 39, 40, 61, 62] {
                steps.push(Step::Decode(dst, resize(m, rng)));
            }
            mk("mutate/total-length", steps)
        }
        // ---- unknown kind
        9 => {
            let d = gen_valid(rng, tmpl_kind, enrs, None);
            let mut raw = spec_raw(&d);
            raw.header[8] = match rng.below(4) {
                0 => 3,
                1 => 255,
                _ => rng.range(3, 255) as u8,
            };
            mk("mutate/kind", vec![Step::Decode(dst, raw.mask(&dst))])
        }
        // ---- foreign protocol id
        10 => {
            let d = gen_valid(rng, tmpl_kind, enrs, None);
            let mut raw = spec_raw(&d);
            let i = rng.below(6) as usize;
            if rng.chance(1, 2) {
                raw.header[i] ^= 1 << rng.below(8);
            } else {
                let v = rng.below(256) as u8;
                raw.header[i] = if v == raw.header[i] { v ^ 0x20 } else { v };
            }
            mk("mutate/protocol-id", vec![Step::Decode(dst, raw.mask(&dst))])
        }
        // ---- foreign version
        11 => {
            let d = gen_valid(rng, tmpl_kind, enrs, None);
            let mut raw = spec_raw(&d);
            let v: [u8; 2] = match rng.below(5) {
                0 => [0, 0],
                1 => [0, 2],
                2 => [1, 0],
                3 => [1, 1],
                _ => {
                    let x = rng.bytes(2);
                    if x[0] == 0 && x[1] == 1 {
                        [0xff, 0xff]
                    } else {
                        [x[0], x[1]]
                    }
                }
            };
            raw.header[6] = v[0];
            raw.header[7] = v[1];
            mk("mutate/version", vec![Step::Decode(dst, raw.mask(&dst))])
        }
        // ---- auth-data size lies
        12 => {
            let d = gen_valid(rng, tmpl_kind, enrs, None);
            let mut raw = spec_raw(&d);
            let real = raw.header.len() - 23;
            let remaining = real + raw.body.len();
            let v = match rng.below(8) {
                0 => 0,
                1 => real.saturating_sub(1),
                2 => real + 1,
                3 => remaining,
                4 => remaining + 1,
                5 => 0xffff,
                6 => remaining.saturating_sub(1),
                _ => rng.below(65536) as usize,
            };
            raw.set_authsize(v as u16);
            // masking covers header ++ body prefix when the size claims more than the header
            let mut all = raw.header.clone();
            all.extend_from_slice(&raw.body);
            let claimed = (23 + v).min(all.len());
            let r2 = Raw { iv: raw.iv, header: all[..claimed.max(raw.header.len())].to_vec(), body: all[claimed.max(raw.header.len())..].to_vec() };
            mk("mutate/authdata-size", vec![Step::Decode(dst, r2.mask(&dst))])
        }
        // ---- WHOAREYOU carrying a body
        13 => {
            let d = gen_valid(rng, 1, enrs, None);
            let mut raw = spec_raw(&d);
            let n = match rng.below(4) {
                0 => 1,
                1 => 2,
                2 => SPEC_MAX - 63,
                _ => rng.range(1, 300) as usize,
            };
            raw.body = rng.bytes(n);
            mk("mutate/whoareyou+body", vec![Step::Decode(dst, raw.mask(&dst))])
        }
        // ---- auth-data of the wrong size for the kind (size field consistent with the datagram)
        14 => {
            let which = rng.below(2);
            let d = gen_valid(rng, which, enrs, None);
            let mut raw = spec_raw(&d);
            let real = raw.header.len() - 23;
            let delta: i64 = *rng.pick(&[-1i64, 1, -8, 8, 2]);
            let new = (real as i64 + delta) as usize;
            if new < real {
                raw.header.truncate(23 + new);
            } else {
                let extra = rng.bytes(new - real);
                raw.header.extend_from_slice(&extra);
            }
            raw.set_authsize(new as u16);
            // keep the datagram at least 63 bytes so that the size rule is the one that decides
            while 16 + raw.header.len() + raw.body.len() < SPEC_MIN {
                raw.body.push(rng.below(256) as u8);
            }
            if which == 1 && 16 + raw.header.len() >= SPEC_MIN {
                raw.body.clear();
            }
            mk("mutate/kind-authdata-size", vec![Step::Decode(dst, raw.mask(&dst))])
        }
        // ---- handshake with truncated signature / key
        15 => {
            let d = gen_valid(rng, 2, enrs, Some(false));
            let mut raw = spec_raw(&d);
            let real = raw.header.len() - 23;
            match rng.below(6) {
                0 => {
                    // fixed part cut
                    let new = rng.range(0, 33) as usize;
                    raw.header.truncate(23 + new);
                    raw.set_authsize(new as u16);
                }
                1 => {
                    // one byte short of signature + key
                    if real > 34 {
                        raw.header.truncate(23 + real - 1);
                        raw.set_authsize((real - 1) as u16);
                    } else {
                        raw.header[23 + 32] = 1;
                    }
                }
                2 => {
                    // signature size byte inflated
                    let s = raw.header[23 + 32];
                    raw.header[23 + 32] = if s == 255 { 255 } else { s + 1 };
                    if s == 255 {
                        raw.header[23 + 33] = raw.header[23 + 33].wrapping_add(1).max(1);
                    }
                }
                3 => {
                    raw.header[23 + 33] = 255;
                    raw.header[23 + 32] = 255;
                }
                4 => {
                    // exactly 34 bytes with non-zero sizes
                    raw.header.truncate(23 + 34);
                    raw.set_authsize(34);
                    raw.header[23 + 32] = rng.range(0, 2) as u8;
                    raw.header[23 + 33] = rng.range(0, 2) as u8;
                }
                _ => {
                    // sizes shifted between signature and key (still consistent: accepted)
                    let s = raw.header[23 + 32] as usize;
                    let k = raw.header[23 + 33] as usize;
                    let t = s + k;
                    let s2 = rng.range(0, t.min(255) as u64) as usize;
                    if t - s2 <= 255 {
                        raw.header[23 + 32] = s2 as u8;
                        raw.header[23 + 33] = (t - s2) as u8;
                    }
                }
            }
            while 16 + raw.header.len() + raw.body.len() < SPEC_MIN {
                raw.body.push(rng.below(256) as u8);
            }
            mk("mutate/handshake-sizes", vec![Step::Decode(dst, raw.mask(&dst))])
        }
        // ---- garbage / damaged record
        16 | 17 => {
            let d = gen_valid(rng, 2, enrs, Some(true));
            let mut raw = spec_raw(&d);
            let (s, k) = match &d.kind {
                KindDesc::Handshake { id_nonce_sig, ephem_pubkey, .. } => (id_nonce_sig.len(), ephem_pubkey.len()),
                _ => unreachable!(),
            };
            let rstart = 23 + 34 + s + k;
            let rlen = raw.header.len() - rstart;
            let name;
            match rng.below(7) {
                0 => {
                    name = "record/random-bytes";
                    let n = rng.range(1, 320) as usize;
                    raw.header.truncate(rstart);
                    let g = rng.bytes(n);
                    raw.header.extend_from_slice(&g);
                }
                1 => {
                    name = "record/valid+trailing";
                    let n = *rng.pick(&[1usize, 2, 5, 20]);
                    let g = rng.bytes(n);
                    raw.header.extend_from_slice(&g);
                }
                2 => {
                    name = "record/truncated";
                    let cut = rng.range(1, (rlen - 1) as u64) as usize;
                    raw.header.truncate(rstart + cut);
                }
                3 => {
                    name = "record/bit-flip";
                    let i = rstart + rng.below(rlen as u64) as usize;
                    raw.header[i] ^= 1 << rng.below(8);
                }
                4 => {
                    name = "record/valid+trailing-over-300";
                    let n = 301usize.saturating_sub(rlen).max(1) + rng.below(10) as usize;
                    let g = rng.bytes(n);
                    raw.header.extend_from_slice(&g);
                }
                5 => {
                    name = "record/one-byte";
                    raw.header.truncate(rstart);
                    raw.header.push(*rng.pick(&[0xc0u8, 0x80, 0x00, 0xf8, 0xff]));
                }
                _ => {
                    name = "record/valid+trailing-up-to-300";
                    let n = 300usize.saturating_sub(rlen);
                    let g = rng.bytes(n);
                    raw.header.extend_from_slice(&g);
                }
            }
            let new = raw.header.len() - 23;
            raw.set_authsize(new as u16);
            // keep inside the maximum
            let total = 16 + raw.header.len() + raw.body.len();
            if total > SPEC_MAX {
                let cut = total - SPEC_MAX;
                let bl = raw.body.len();
                raw.body.truncate(bl.saturating_sub(cut));
            }
            mk(name, vec![Step::Decode(dst, raw.mask(&dst))])
        }
        // ---- masked for another node id
        18 => {
            let d = gen_valid(rng, tmpl_kind, enrs, None);
            let raw = spec_raw(&d);
            let data = raw.mask(&dst);
            if rng.chance(1, 3) {
                // an id with the same first 16 bytes shares the masking key (discv5.1: masking-key = dest-id[:16])
                let mut same_prefix = dst;
                for b in same_prefix[16..].iter_mut() {
                    *b = rng.below(256) as u8;
                }
                mk("other-id/same-16-byte-prefix", vec![Step::Decode(dst, data), Step::DecodePrev(same_prefix)])
            } else {
                let mut o = dst;
                // differ in one bit of the key half, or entirely
                if rng.chance(1, 2) {
                    o[rng.below(16) as usize] ^= 1 << rng.below(8);
                } else {
                    o = other;
                }
                let mut g = mk("other-id/different-key", vec![Step::Decode(dst, data), Step::DecodePrev(o)]);
                g.foreign_decode = true;
                g
            }
        }
        // ---- single bit flips of a valid datagram in the masked domain (header region)
        _ => {
            let d = gen_valid(rng, tmpl_kind, enrs, None);
            let raw = spec_raw(&d);
            let mut data = raw.mask(&dst);
            let region = 16 + raw.header.len();
            let i = rng.below(region as u64) as usize;
            data[i] ^= 1 << rng.below(8);
            mk("mutate/bit-flip", vec![Step::Decode(dst, data)])
        }
    }
}

// ---------------------------------------------------------------------------------------------
// Running a case

pub struct CaseResult {
    pub coq: String,
    pub failures: Vec<(String, usize)>,
    pub nontrivial: bool,
    pub canon: u64,
    pub steps: usize,
    pub sample: J,
}

/// What the model needs to know about a decode: the keystream for (local[..16], iv) and the verdict
/// of the real ENR decoder on the record bytes of a handshake.
fn oracles_for_decode(local: &Id, data: &[u8], ks: &mut Vec<(Vec<u8>, Vec<u8>, Vec<u8>)>, enr: &mut Vec<(Vec<u8>, Option<Vec<u8>>)>, hist: &mut Hist) {
    if data.len() < 39 {
        return;
    }
    let iv = data[..16].to_vec();
    let key = local[..16].to_vec();
    let sh = xor(&data[16..39], &keystream(local, &iv, 23));
    let asz = ((sh[21] as usize) << 8) | sh[22] as usize;
    let need = (23 + asz).min(data.len() - 16);
    let stream = keystream(local, &iv, need);
    if let Some(e) = ks.iter_mut().find(|e| e.0 == key && e.1 == iv) {
        if e.2.len() < stream.len() {
            e.2 = stream.clone();
        }
    } else {
        ks.push((key, iv, stream.clone()));
    }
    // the record bytes of a handshake, if the datagram gets that far
    if sh[8] == 2 && 23 + asz <= data.len() - 16 && asz >= 34 {
        let ad = xor(&data[39..39 + asz], &stream[23..]);
        let s = ad[32] as usize;
        let k = ad[33] as usize;
        if asz > 34 + s + k {
            let rec = ad[34 + s + k..].to_vec();
            if !enr.iter().any(|e| e.0 == rec) {
                let r2 = rec.clone();
                let verdict = catch(move || <Enr as Decodable>::decode(&mut &r2[..]).ok().map(|e| alloy_rlp::encode(&e)));
                let v = match verdict {
                    Ok(v) => v,
                    Err(_) => {
                        hist.add("enr-decoder-panic");
                        None
                    }
                };
                if let Some(c) = &v {
                    if *c != rec {
                        hist.add("looseness/record-accepted-with-ignored-trailing-bytes");
                    }
                }
                enr.push((rec, v));
            }
        }
    }
}

fn describe(r: &DecRes) -> String {
    match r {
        DecRes::Ok(d, _) => format!("Ok/{}", match d.kind {
            KindDesc::Message { .. } => "message",
            KindDesc::WhoAreYou { .. } => "whoareyou",
            KindDesc::Handshake { enr_record: None, .. } => "handshake",
            KindDesc::Handshake { .. } => "handshake+record",
        }),
        DecRes::Err(e) => format!("Err/{}", e.split('(').next().unwrap_or("")),
        DecRes::Panic(_) => "PANIC".to_string(),
    }
}

fn size_bucket(n: usize) -> &'static str {
    match n {
        0 => "0",
        1..=62 => "1-62",
        63 => "63",
        64..=200 => "64-200",
        201..=600 => "201-600",
        601..=1279 => "601-1279",
        1280 => "1280",
        _ => ">1280",
    }
}

fn run_case(idx: u64, g: &Gen, hist: &mut Hist) -> CaseResult {
    let mut ks: Vec<(Vec<u8>, Vec<u8>, Vec<u8>)> = vec![];
    let mut enr: Vec<(Vec<u8>, Option<Vec<u8>>)> = vec![];
    let mut steps_coq: Vec<String> = vec![];
    let mut failures: Vec<(String, usize)> = vec![];
    let mut prev: Vec<u8> = vec![];
    let mut prev_desc: Option<(PacketDesc, Id)> = None;
    let mut canon = HashEnc::new();
    let mut nontrivial = false;
    let mut outcomes: Vec<String> = vec![];
    hist.add(&format!("class/{}", g.class));
    for (si, st) in g.steps.iter().enumerate() {
        match st {
            Step::Encode(d, dst) => {
                let (d2, dst2) = (d.clone(), *dst);
                let enc = catch(move || (packet_encode(&d2, &dst2), packet_authenticated_data(&d2)));
                let raw = spec_raw(d);
                // keystream for the model
                let stream = keystream(dst, &raw.iv, raw.header.len());
                ks.push((dst[..16].to_vec(), raw.iv.to_vec(), stream));
                let mut h = HashEnc::new();
                match &enc {
                    Ok((bytes, aad)) => {
                        h_bytes(&mut h, bytes);
                        h_bytes(&mut h, aad);
                        prev = bytes.clone();
                        hist.add(&format!("encoded-size/{}", size_bucket(bytes.len())));
                        if let KindDesc::Handshake { id_nonce_sig, ephem_pubkey, .. } = &d.kind {
                            for n in [id_nonce_sig.len(), ephem_pubkey.len()] {
                                hist.add(&format!("sig-or-key-size/{}", match n {
                                    0 => "0",
                                    1 => "1",
                                    33 => "33",
                                    64 => "64",
                                    255 => "255",
                                    256.. => ">255",
                                    _ => "other",
                                }));
                            }
                        }
                        // monitor: the datagram equals the discv5.1 layout; the authenticated bytes are iv ++ header
                        if well_formed(d) {
                            if *bytes != raw.mask(dst) {
                                failures.push(("C05: encoded datagram differs from the specified layout (iv, masked header, body)".into(), si));
                            }
                            let mut want = raw.iv.to_vec();
                            want.extend_from_slice(&raw.header);
                            if *aad != want {
                                failures.push(("C05: authenticated data of the packet is not iv ++ unmasked header".into(), si));
                            }
                        }
                    }
                    Err(m) => {
                        h.n(2);
                        prev = vec![];
                        failures.push((format!("C05: Packet::encode panicked: {}", m), si));
                    }
                }
                prev_desc = Some((d.clone(), *dst));
                canon.n(10).n(spec_flag(&d.kind) as u64).n(d.message.len() as u64).n(raw.header.len() as u64);
                steps_coq.push(format!("(OEncode {} {}, {})", coq_desc(d), coq_b(dst), h.value()));
            }
            Step::DecodePrev(_) | Step::Decode(_, _) => {
                let (local, data, coq_op) = match st {
                    Step::DecodePrev(l) => (*l, prev.clone(), format!("ODecodePrev {}", coq_b(l))),
                    Step::Decode(l, d) => (*l, d.clone(), format!("ODecode {} {}", coq_b(l), coq_b(d))),
                    _ => unreachable!(),
                };
                prev = data.clone();
                oracles_for_decode(&local, &data, &mut ks, &mut enr, hist);
                let r = run_decode(&local, &data);
                let what = describe(&r);
                hist.add(&format!("decode/{}", what));
                hist.add(&format!("datagram-size/{}", size_bucket(data.len())));
                outcomes.push(what.clone());
                canon.n(20).n(data.len() as u64);
                for b in what.bytes() {
                    canon.n(b as u64);
                }
                // ---- direct monitor, from the property text
                let reject = must_reject(&local, &data);
                match &r {
                    DecRes::Panic(m) => failures.push((format!("C05: Packet::decode panicked: {}", m), si)),
                    DecRes::Ok(p, aad) => {
                        nontrivial = true;
                        if let Some(why) = reject {
                            failures.push((format!("C05: accepted a datagram that must be rejected: {}", why), si));
                        }
                        if let KindDesc::Handshake { id_nonce_sig, ephem_pubkey, enr_record, .. } = &p.kind {
                            canon.n(id_nonce_sig.len() as u64).n(ephem_pubkey.len() as u64).n(enr_record.is_some() as u64);
                        }
                        canon.n(p.message.len() as u64).n(aad.len() as u64);
                        // the authenticated bytes are the received iv and the unmasked header; the body is the rest
                        if data.len() >= 39 {
                            let n = aad.len();
                            if n < 39 || n > data.len() {
                                failures.push(("C05: authenticated data has an impossible length".into(), si));
                            } else {
                                let stream = keystream(&local, &data[..16], n - 16);
                                let mut want = data[..16].to_vec();
                                want.extend_from_slice(&xor(&data[16..n], &stream));
                                if *aad != want {
                                    failures.push(("C05: authenticated data differs from the received iv ++ unmasked header".into(), si));
                                }
                                if p.message != data[n..] {
                                    failures.push(("C05: decoded body differs from the bytes after the header".into(), si));
                                }
                            }
                        }
                    }
                    DecRes::Err(e) => {
                        if !(e.starts_with("TooSmall") || e.starts_with("TooLarge")) {
                            nontrivial = true;
                        }
                    }
                }
                // round trip: decoding the encoded datagram with the destination id returns the same
                // packet and the same authenticated bytes
                if let (Step::DecodePrev(l), Some((d, dst))) = (st, &prev_desc) {
                    if g.roundtrip && l == dst && well_formed(d) {
                        let d2 = d.clone();
                        let aad0 = catch(move || packet_authenticated_data(&d2)).unwrap_or_default();
                        match &r {
                            DecRes::Ok(p, aad) if p == d && *aad == aad0 => {
                                hist.add("roundtrip/ok");
                                if data.len() >= 1279 {
                                    hist.add(&format!("roundtrip/ok at {} bytes", data.len()));
                                }
                            }
                            _ => failures.push((format!("C05: round trip failed: decode(encode(p)) = {}", describe(&r)), si)),
                        }
                        // the same packet under a configured protocol identity (ConfigBuilder::protocol_identity;
                        // the model and the case files are for the default identity): it must come back
                        // unchanged, the identity of its header included, and a decoder configured with
                        // another id or version must reject the datagram
                        let h = idx.wrapping_mul(0x9E3779B97F4A7C15).wrapping_add(si as u64);
                        let pid = [b'd', b'i', b's', b'c', b'v', (h & 0xff) as u8];
                        let ver = [0u8, ((h >> 8) & 0x7) as u8 + 2];
                        let (d3, dst3) = (d.clone(), *dst);
                        match catch(move || discv5::verif::packet::packet_roundtrip_with_identity(&d3, &dst3, pid, ver)) {
                            Ok(Ok(true)) => hist.add("roundtrip/configured-identity-ok"),
                            Ok(Ok(false)) => failures.push(("C05: round trip under a configured protocol identity returned another packet (identity or fields differ)".into(), si)),
                            Ok(Err(e)) => failures.push((format!("C05: round trip under a configured protocol identity failed: {}", e), si)),
                            Err(m) => failures.push((format!("C05: Packet::decode panicked under a configured protocol identity: {}", m), si)),
                        }
                        let (d4, dst4) = (d.clone(), *dst);
                        let other = if h & 0x100 == 0 { (pid, [0u8, 1]) } else { (*b"discv5", ver) };
                        // (the drawn id can be "discv5" itself: the other identity must differ in something)
                        let other = if other == (pid, ver) { (pid, [0u8, 1]) } else { other };
                        if let Ok(false) = catch(move || discv5::verif::packet::packet_foreign_identity_rejected(&d4, &dst4, (pid, ver), other)) {
                            failures.push(("C05: a datagram with a foreign protocol id or version was accepted".into(), si));
                        }
                    }
                    if g.foreign_decode && l != dst && l[..16] != dst[..16] {
                        if let DecRes::Ok(..) = &r {
                            let a = keystream(l, &data[..16.min(data.len())], 8);
                            let b = keystream(dst, &data[..16.min(data.len())], 8);
                            if a != b {
                                failures.push(("C05: a datagram masked for another node id was accepted".into(), si));
                            }
                        } else {
                            hist.add("other-id/rejected");
                        }
                    }
                }
                if g.class == "other-id/different-key" && si == 1 {
                    if let DecRes::Ok(..) = &r {
                        failures.push(("C05: a datagram masked for another node id was accepted".into(), si));
                    } else {
                        hist.add("other-id/rejected");
                    }
                }
                if g.class == "other-id/same-16-byte-prefix" && si == 1 {
                    if let DecRes::Ok(..) = &r {
                        hist.add("note/id-with-same-16-byte-prefix-accepts (masking-key = dest-id[:16])");
                    }
                }
                steps_coq.push(format!("({}, {})", coq_op, enc_decres(&r)));
            }
        }
    }
    let ks_coq: Vec<String> = ks.iter().map(|(k, iv, s)| format!("({}, {}, {})", coq_b(k), coq_b(iv), coq_b(s))).collect();
    let enr_coq: Vec<String> = enr.iter().map(|(i, o)| format!("({}, {})", coq_b(i), coq_opt(o.as_ref().map(|b| coq_b(b))))).collect();
    for (_, o) in &enr {
        hist.add(if o.is_some() { "enr-oracle/accepted" } else { "enr-oracle/rejected" });
    }
    let coq = format!("({}, {}, {}, {})", idx, coq_list(&ks_coq), coq_list(&enr_coq), coq_list(&steps_coq));
    let sample = J::obj(vec![
        ("case", J::I(idx as i64)),
        ("class", J::s(g.class.clone())),
        ("outcomes", J::A(outcomes.iter().map(|o| J::s(o.clone())).collect())),
        ("datagram_len", J::I(prev.len() as i64)),
    ]);
    CaseResult { coq, failures, nontrivial, canon: canon.value(), steps: g.steps.len(), sample }
}

pub fn case_rng(seed: u64, idx: u64) -> Rng {
    Rng::new(seed.wrapping_mul(0x9E3779B97F4A7C15).wrapping_add(idx.wrapping_mul(0xD1B54A32D192ED03)).wrapping_add(0xC05))
}

/// `harness pkt --seed S --cases N --out DIR [--only I]`
pub fn main(args: &[String]) {
    let o = parse_opts(args);
    let mut only: Option<u64> = None;
    let mut i = 0;
    while i < o.rest.len() {
        if o.rest[i] == "--only" {
            only = Some(o.rest[i + 1].parse().unwrap());
            i += 1;
        }
        i += 1;
    }
    let enrs = make_enrs(o.seed);
    let mut sum = Summary::new("pkt");
    let per_file = ((o.cases as usize) + 15) / 16;
    let mut w = CaseWriter::new(&o.out, "pkt_cases", HEADER, "pcase", "check_all", per_file.max(1));
    let mut canon: BTreeSet<u64> = BTreeSet::new();
    let mut seen_sig: BTreeSet<String> = BTreeSet::new();
    for e in &enrs {
        sum.hist.add(&format!("record-size/{}", alloy_rlp::encode(e).len()));
    }
    // the constants the monitor takes from the specification must be the implementation's
    for (name, v) in packet_constants() {
        let want = match name {
            "IV_LENGTH" => SPEC_IV as u64,
            "STATIC_HEADER_LENGTH" => SPEC_STATIC as u64,
            "MAX_PACKET_SIZE" => SPEC_MAX as u64,
            "MESSAGE_NONCE_LENGTH" => 12,
            "ID_NONCE_LENGTH" => 16,
            _ => v,
        };
        if v != want {
            sum.hist.add(&format!("constant-differs-from-specification/{}={}", name, v));
        }
    }
    let range: Vec<u64> = match only {
        Some(x) => vec![x],
        None => (0..o.cases).collect(),
    };
    for idx in range {
        let mut rng = case_rng(o.seed, idx);
        let g = gen_case(&mut rng, idx, &enrs);
        let r = run_case(idx, &g, &mut sum.hist);
        sum.evaluations += 1;
        sum.steps += r.steps as u64;
        if r.nontrivial && canon.insert(r.canon) {
            sum.distinct_nontrivial += 1;
        }
        if sum.samples.len() < 3 && (idx % 7 == 3 || only.is_some()) {
            sum.samples.push(r.sample.clone());
        }
        for (desc, step) in &r.failures {
            let rest = desc.strip_prefix("C05:").unwrap_or(desc);
            // numbers abstracted (a run of digits becomes one '#')
            let mut abs = String::new();
            for c in rest.chars() {
                if c.is_ascii_digit() {
                    if !abs.ends_with('#') {
                        abs.push('#');
                    }
                } else {
                    abs.push(c);
                }
            }
            let sig: String = format!("C05:{}", abs);
            if seen_sig.insert(sig.clone()) || only.is_some() {
                let file = o.out.join(format!("failure_C05_{}.json", idx));
                let steps: Vec<J> = g
                    .steps
                    .iter()
                    .map(|s| match s {
                        Step::Encode(d, dst) => J::obj(vec![("op", J::s("encode")), ("packet", J::s(format!("{:?}", d))), ("dst", J::s(hex::encode(dst)))]),
                        Step::DecodePrev(l) => J::obj(vec![("op", J::s("decode-previous-datagram")), ("local", J::s(hex::encode(l)))]),
                        Step::Decode(l, d) => J::obj(vec![("op", J::s("decode")), ("local", J::s(hex::encode(l))), ("datagram", J::s(hex::encode(d)))]),
                    })
                    .collect();
                let j = J::obj(vec![
                    ("component", J::s("pkt")),
                    ("property", J::s("C05")),
                    ("seed", J::I(o.seed as i64)),
                    ("case", J::I(idx as i64)),
                    ("thorough", J::B(o.thorough)),
                    ("class", J::s(g.class.clone())),
                    ("step", J::I(*step as i64)),
                    ("what", J::s(desc.clone())),
                    ("steps", J::A(steps)),
                ]);
                std::fs::write(&file, j.render()).unwrap();
                sum.monitor_failures.push((sig, desc.clone(), file.to_string_lossy().to_string()));
            }
        }
        w.push(r.coq);
    }
    w.flush();
    sum.case_files = w.files.clone();
    sum.rule = "packets of the three kinds built from one PRNG (signature/key sizes 0..255 with emphasis on 0,1,33,64,255; real signed records of 100-300 bytes; bodies 0..maximum) encoded and decoded by the real Packet::encode/Packet::decode, plus datagrams malformed in the unmasked domain and re-masked with the real AES-CTR keystream (20 classes, cycled); a case is non-trivial if the decoder returned Ok or failed at a guard other than the two length tests, and distinct if the hash of (class outcome, datagram length, field sizes) is new in this run".into();
    let count = |k: &str| -> i64 { sum.hist.0.get(k).copied().unwrap_or(0) as i64 };
    let notes = J::obj(vec![
        (
            "handshakes_accepted_with_ignored_bytes_after_the_record (known looseness, not claimed by the property: encode(decode(bs)) != bs)",
            J::I(count("looseness/record-accepted-with-ignored-trailing-bytes")),
        ),
        (
            "datagrams_accepted_by_an_id_sharing_the_first_16_bytes_of_the_destination (masking-key = dest-id[:16] by the specification)",
            J::I(count("note/id-with-same-16-byte-prefix-accepts (masking-key = dest-id[:16])")),
        ),
        ("datagrams_for_another_id_rejected", J::I(count("other-id/rejected"))),
        ("round_trips_checked", J::I(count("roundtrip/ok"))),
    ]);
    sum.extra.push(("x_c05_notes".to_string(), notes));
    sum.write(&o.out);
    println!(
        "pkt: {} cases, {} steps, {} distinct non-trivial, {} monitor failure signatures",
        sum.evaluations,
        sum.steps,
        sum.distinct_nontrivial,
        sum.monitor_failures.len()
    );
}
