//! Iterative queries (C09, C10): generator, drivers of the real `FindNodeQuery` / `PredicateQuery`
//! state machines (fabricated `Instant`s) and of the real `QueryPool` (real time), direct
//! property monitors and the Coq case files for the correspondence with Model/Query.v.
use crate::common::*;
use discv5::enr::NodeId;
use discv5::kbucket::{Key, PredicateKey};
use discv5::verif::query::{
    add_predicate_query, findnode_config, FindNode, PeerStateDump, Predicate, ProgressDump, QueryDump, QueryPool,
    QueryPoolState, QueryState, TargetKey,
};
use std::collections::{BTreeMap, BTreeSet, HashMap, HashSet};
use std::panic::AssertUnwindSafe;
use std::time::{Duration, Instant};

type K32 = [u8; 32];

/// The result type of the predicate variant: a reported record = (node id, value of the predicate).
#[derive(Clone, Debug)]
pub struct Rep {
    id: NodeId,
    flag: bool,
}
impl From<Rep> for NodeId {
    fn from(r: Rep) -> NodeId {
        r.id
    }
}
impl<'a> From<&'a Rep> for NodeId {
    fn from(r: &'a Rep) -> NodeId {
        r.id
    }
}
pub struct Tgt(NodeId);
impl TargetKey<NodeId> for Tgt {
    fn key(&self) -> Key<NodeId> {
        Key::from(self.0)
    }
}

fn nid(k: &K32) -> NodeId {
    NodeId::new(k)
}
fn xor(a: &K32, b: &K32) -> K32 {
    let mut r = [0u8; 32];
    for i in 0..32 {
        r[i] = a[i] ^ b[i];
    }
    r
}
/// the id at distance r * 2^s from the target (`kd T r s` in the case files)
fn key_at(tname: &str, target: &K32, r: u32, s: u32) -> K32 {
    let mut d = [0u8; 32];
    for b in 0..32u32 {
        if (r >> b) & 1 == 1 {
            let bit = (b + s) as usize;
            if bit < 256 {
                d[31 - bit / 8] |= 1u8 << (bit % 8);
            }
        }
    }
    let k = xor(target, &d);
    register_recipe(&k, format!("(kd {} {} {})", tname, r, s));
    k
}

// --------------------------------------------------------------------------------------------
// The two state machines behind one interface

pub enum Sm {
    F(FindNode<NodeId>),
    P(Predicate<NodeId, Rep>),
}
impl Sm {
    fn next(&mut self, now: Instant) -> QueryState<NodeId> {
        match self {
            Sm::F(q) => q.next(now),
            Sm::P(q) => q.next(now),
        }
    }
    fn on_success(&mut self, p: &K32, reps: &[(K32, bool)]) {
        match self {
            Sm::F(q) => q.on_success(&nid(p), reps.iter().map(|(k, _)| nid(k)).collect()),
            Sm::P(q) => {
                let v: Vec<Rep> = reps.iter().map(|(k, f)| Rep { id: nid(k), flag: *f }).collect();
                q.on_success(&nid(p), &v)
            }
        }
    }
    fn on_failure(&mut self, p: &K32) {
        match self {
            Sm::F(q) => q.on_failure(&nid(p)),
            Sm::P(q) => q.on_failure(&nid(p)),
        }
    }
    fn dump(&self) -> QueryDump<NodeId> {
        match self {
            Sm::F(q) => q.dump(),
            Sm::P(q) => q.dump(),
        }
    }
    fn into_result(self) -> Vec<NodeId> {
        match self {
            Sm::F(q) => q.into_result(),
            Sm::P(q) => q.into_result(),
        }
    }
}

// --------------------------------------------------------------------------------------------
// Encodings (mirror Run/QueryRun.v)

fn ns(base: Instant, t: Instant) -> u64 {
    t.saturating_duration_since(base).as_nanos() as u64
}
fn hash_dump_into(e: &mut HashEnc, base: Instant, d: &QueryDump<NodeId>) {
    e.n(d.predicate as u64);
    match d.progress {
        ProgressDump::Iterating(n) => e.n(0).n(n as u64),
        ProgressDump::Stalled => e.n(1).n(0),
        ProgressDump::Finished => e.n(2).n(0),
    };
    e.n(d.num_waiting as u64).n(d.parallelism as u64).n(d.num_results as u64).n(d.peer_timeout.as_nanos() as u64);
    e.n(d.peers.len() as u64);
    for p in &d.peers {
        e.big(&p.id.raw());
        match p.state {
            PeerStateDump::NotContacted => e.n(0).n(0),
            PeerStateDump::Waiting(t) => e.n(1).n(ns(base, t)),
            PeerStateDump::Unresponsive => e.n(2).n(0),
            PeerStateDump::Failed => e.n(3).n(0),
            PeerStateDump::Succeeded => e.n(4).n(0),
        };
        e.n(p.peers_returned as u64).b(p.predicate_match);
    }
}
fn hash_dump(base: Instant, d: &QueryDump<NodeId>) -> u64 {
    let mut e = HashEnc::new();
    hash_dump_into(&mut e, base, d);
    e.value()
}
fn enc_qstate(e: &mut Enc, s: &QueryState<NodeId>) {
    match s {
        QueryState::Waiting(None) => e.n(0),
        QueryState::Waiting(Some(p)) => e.n(1).big(&p.raw()),
        QueryState::WaitingAtCapacity => e.n(2),
        QueryState::Finished => e.n(3),
    };
}
fn coq_reps(reps: &[(K32, bool)]) -> String {
    coq_list(&reps.iter().map(|(k, f)| format!("({}, {})", coq_hex(k), coq_bool(*f))).collect::<Vec<_>>())
}

// --------------------------------------------------------------------------------------------
// Direct monitor, written from the property texts of C09 and C10.  It sees the calls made on a
// query, what `next` returned, the hook's copy of the state (for num_waiting / progress / peer
// states) and the final result.

pub struct Mon {
    predicate: bool,
    par: usize,
    nres: usize,
    target: K32,
    /// every initial candidate handed to the lookup, with its flag
    initial_all: Vec<(K32, bool)>,
    /// every (id, flag) delivered in an on_success call
    reported: Vec<(K32, bool)>,
    contacted: HashSet<K32>,
    /// peers for which a success was delivered after they were contacted
    answered: HashSet<K32>,
    /// peers contacted and not yet answered / failed, with the deadline of their request
    outstanding: HashMap<K32, u64>,
    ever_stalled: bool,
    finished_by_itself: bool,
    /// peers for which a failure was delivered while their request was unanswered
    failed: HashSet<K32>,
    /// candidates the lookup learned of from answers it accepted (answer of a contacted peer that
    /// had neither answered nor failed before, delivered before the lookup finished)
    learned: HashSet<K32>,
    /// peers for which any failure was delivered after they were contacted
    failure_seen: HashSet<K32>,
    /// answers delivered for contacted peers that had not answered before, since the last answer
    /// that certainly made progress (see `note_answer`): the lookup's own ledger of "consecutive
    /// successful results without progress", independent of the implementation's progress state
    answers_without_progress: usize,
    /// the ledger reached `parallelism` at some point: the lookup may have stalled
    may_have_stalled: bool,
    pub fails: Vec<(String, String)>,
    /// design observations (reported under the signature prefix "note-C10", never a violation)
    pub notes: Vec<String>,
}

impl Mon {
    fn new(predicate: bool, par: usize, nres: usize, target: K32, initial: &[(K32, bool)]) -> Self {
        Mon {
            predicate,
            par,
            nres,
            target,
            initial_all: initial.to_vec(),
            reported: vec![],
            failed: HashSet::new(),
            learned: HashSet::new(),
            failure_seen: HashSet::new(),
            answers_without_progress: 0,
            may_have_stalled: par == 0,
            contacted: HashSet::new(),
            answered: HashSet::new(),
            outstanding: HashMap::new(),
            ever_stalled: false,
            finished_by_itself: false,
            fails: vec![],
            notes: vec![],
        }
    }
    fn fail(&mut self, prop: &str, what: String) {
        self.fails.push((prop.to_string(), what));
    }
    /// after every call: the number of requests in flight
    fn observe(&mut self, d: &QueryDump<NodeId>, now: u64) {
        if matches!(d.progress, ProgressDump::Stalled) {
            self.ever_stalled = true;
        }
        let waiting = d.peers.iter().filter(|p| matches!(p.state, PeerStateDump::Waiting(_))).count();
        if waiting != d.num_waiting {
            self.fail("C09", format!("num_waiting is {} but {} peers are in state Waiting", d.num_waiting, waiting));
        }
        let (par, nres, ever) = (self.par, self.nres, self.ever_stalled);
        let bound_ok = move |n: usize| n <= par || (ever && n <= nres);
        if !bound_ok(d.num_waiting) || !bound_ok(waiting) {
            self.fail(
                "C09",
                format!(
                    "{} requests in flight with parallelism {} and num_results {} (stalled before: {})",
                    waiting.max(d.num_waiting),
                    self.par,
                    self.nres,
                    self.ever_stalled
                ),
            );
        }
        // C09 with "stalled" as documented (no progress after `parallelism` consecutive successful
        // results): without that many answers the bound is the parallelism
        if waiting.max(d.num_waiting) > self.par && !self.may_have_stalled {
            self.fail(
                "C09",
                format!(
                    "{} requests in flight with parallelism {} although the lookup cannot have stalled: fewer than {} answers without progress were delivered ({} since the last progress)",
                    waiting.max(d.num_waiting),
                    self.par,
                    self.par,
                    self.answers_without_progress
                ),
            );
        }
        // the monitor's own ledger: contacted, unanswered, request deadline not reached
        let live = self.outstanding.values().filter(|dl| **dl > now).count();
        if !bound_ok(live) {
            self.fail("C09", format!("{} unanswered unexpired requests exceed the in-flight bound", live));
        }
    }
    /// `next` returned `s`; `before` is the state before the call
    fn after_next(&mut self, before: &QueryDump<NodeId>, s: &QueryState<NodeId>, now: u64, peer_timeout: u64) {
        match s {
            QueryState::Waiting(Some(p)) => {
                let p = p.raw();
                match before.progress {
                    ProgressDump::Iterating(_) => {
                        if before.num_waiting >= self.par {
                            self.fail("C09", format!("a new request was started with {} in flight (parallelism {})", before.num_waiting, self.par));
                        }
                    }
                    ProgressDump::Stalled => {
                        if before.num_waiting >= self.nres {
                            self.fail("C09", format!("a new request was started while stalled with {} in flight (num_results {})", before.num_waiting, self.nres));
                        }
                    }
                    ProgressDump::Finished => self.fail("C09", "a finished lookup started a request".into()),
                }
                // the raised limit is only for a stalled lookup, and a lookup stalls by `parallelism`
                // consecutive answers that bring no progress - failures and silence are no answers
                if before.num_waiting >= self.par && self.answers_without_progress < self.par {
                    self.fail(
                        "C09",
                        format!(
                            "a new request was started with {} in flight (parallelism {}) although the lookup is not stalled: {} answers without progress since the last progress",
                            before.num_waiting, self.par, self.answers_without_progress
                        ),
                    );
                }
                if !self.contacted.insert(p) {
                    self.fail("C09", "the same peer was contacted twice".into());
                }
                let known = self.initial_all.iter().any(|(k, _)| *k == p) || self.reported.iter().any(|(k, _)| *k == p);
                if !known {
                    self.fail("C09", "a peer was contacted that was neither an initial candidate nor reported".into());
                }
                self.outstanding.insert(p, now + peer_timeout);
            }
            QueryState::Finished => self.finished_by_itself = true,
            _ => {}
        }
    }
    /// Ledger of answers for the documented meaning of "stalled"; `before` is the lookup's state
    /// before the answer is delivered.  An answer counts when its peer was contacted and had not
    /// answered before.  The count starts again after an answer that certainly made progress: the
    /// lookup was waiting for it (contacted, no answer and no failure delivered since), it names at
    /// least one peer, and the lookup knew fewer than `num_results` peers.
    /// Returns whether the lookup was certainly waiting for this answer.
    fn note_answer(&mut self, p: &K32, reps: &[(K32, bool)], before: &QueryDump<NodeId>) -> bool {
        if matches!(before.progress, ProgressDump::Finished) || !self.contacted.contains(p) || self.answered.contains(p) {
            return false;
        }
        let certainly_accepted = !self.failure_seen.contains(p);
        if certainly_accepted && !reps.is_empty() && before.peers.len() < self.nres {
            self.answers_without_progress = 0;
        } else {
            self.answers_without_progress += 1;
            if self.answers_without_progress >= self.par {
                self.may_have_stalled = true;
            }
        }
        certainly_accepted
    }
    /// C10, "every candidate it learned of": after an answer the lookup was waiting for, every peer
    /// named in it is held by the lookup as a candidate (a candidate it drops can never be contacted)
    fn learned_are_held(&mut self, reps: &[(K32, bool)], after: &QueryDump<NodeId>) {
        let held: HashSet<K32> = after.peers.iter().map(|x| x.id.raw()).collect();
        let lost = reps.iter().filter(|(k, _)| !held.contains(k)).count();
        if lost > 0 {
            self.fail("C10", format!("{} of the {} peers named in an answer the lookup was waiting for are not among its candidates afterwards", lost, reps.len()));
        }
    }
    fn on_success(&mut self, p: &K32, reps: &[(K32, bool)]) {
        if self.contacted.contains(p) && !self.answered.contains(p) && !self.failed.contains(p) && !self.finished_by_itself {
            for (k, _) in reps {
                self.learned.insert(*k);
            }
        }
        if self.contacted.contains(p) {
            self.answered.insert(*p);
        }
        self.outstanding.remove(p);
        self.reported.extend(reps.iter().cloned());
    }
    fn on_failure(&mut self, p: &K32) {
        if self.contacted.contains(p) {
            self.failure_seen.insert(*p);
        }
        if self.contacted.contains(p) && !self.answered.contains(p) {
            self.failed.insert(*p);
        }
        self.outstanding.remove(p);
    }
    /// the result handed to the caller; `d` is the state it was taken from; `cut_off` = the lookup was
    /// ended by the query timeout
    fn check_result(&mut self, result: &[K32], d: &QueryDump<NodeId>, cut_off: bool, hist: &mut Hist) {
        if result.len() > self.nres {
            self.fail("C10", format!("{} results, more than num_results {}", result.len(), self.nres));
        }
        for w in result.windows(2) {
            if xor(&w[0], &self.target) >= xor(&w[1], &self.target) {
                self.fail("C10", "result not in strictly increasing distance to the target".into());
            }
        }
        let set: BTreeSet<&K32> = result.iter().collect();
        if set.len() != result.len() {
            self.fail("C10", "result contains a node twice".into());
        }
        for r in result {
            if !self.answered.contains(r) {
                self.fail("C10", "result contains a node that did not answer a request of this lookup".into());
            }
            if self.predicate {
                let ok = self.initial_all.iter().any(|(k, f)| k == r && *f) || self.reported.iter().any(|(k, f)| k == r && *f);
                if !ok {
                    self.fail("C10", "predicate lookup returned a node never reported with a matching record".into());
                }
            }
        }
        let by_itself = self.finished_by_itself && !cut_off;
        if by_itself && result.len() < self.nres {
            hist.add("result:short_finished_by_itself");
            // every candidate the lookup holds was contacted
            for p in &d.peers {
                if !self.contacted.contains(&p.id.raw()) {
                    self.fail("C10", "short result although a known candidate was never contacted".into());
                }
            }
            // ... and so was every candidate it learned of from an answer it accepted
            if self.learned.iter().any(|k| !self.contacted.contains(k)) {
                self.fail("C10", "short result although a candidate reported in an accepted answer was never contacted".into());
            }
            // design observation (not a violation, signature prefix "note-C10"): with_config keeps only
            // the first num_results seeds it is given; the others never enter the lookup
            if self.initial_all.iter().any(|(k, _)| !self.contacted.contains(k)) {
                hist.add("note:short_result_with_seed_dropped_by_take(num_results)");
                self.notes.push("observation: short result while a seed beyond the first num_results (dropped by take(num_results)) was never contacted".to_string());
            }
        } else if by_itself {
            hist.add("result:full_finished_by_itself");
        } else if cut_off {
            hist.add("result:cut_off_by_timeout");
        } else {
            hist.add("result:taken_before_finish");
        }
    }
}

// --------------------------------------------------------------------------------------------
// Generator helpers

/// distances are r * 2^s: (r, s)
#[derive(Clone, Copy, Debug)]
struct Dist(u32, u32);

fn rand_dist(rng: &mut Rng) -> Dist {
    let s = match rng.below(4) {
        0 => rng.below(16) as u32,
        1 => 100 + rng.below(60) as u32,
        _ => rng.below(224) as u32,
    };
    Dist(1 + rng.below(0xffff_fffe) as u32, s)
}
fn closer_than(rng: &mut Rng, d: Dist) -> Dist {
    let k = 1 + rng.below(8) as u32;
    if d.1 >= k {
        Dist(d.0, d.1 - k)
    } else {
        Dist(d.0 >> k, 0)
    }
}
fn farther_than(rng: &mut Rng, d: Dist) -> Dist {
    let k = 1 + rng.below(8) as u32;
    Dist(d.0 | 1, (d.1 + k).min(223))
}
fn dist_lt(a: Dist, b: Dist) -> bool {
    // compare r*2^s as 256-bit numbers
    let ka = key_plain(a);
    let kb = key_plain(b);
    ka < kb
}
fn key_plain(d: Dist) -> K32 {
    let mut o = [0u8; 32];
    for b in 0..32u32 {
        if (d.0 >> b) & 1 == 1 {
            let bit = (b + d.1) as usize;
            if bit < 256 {
                o[31 - bit / 8] |= 1u8 << (bit % 8);
            }
        }
    }
    o
}

pub struct QGen {
    tname: String,
    target: K32,
    /// every id the driver has seen so far, with its distance recipe
    known: Vec<(K32, Dist)>,
    min: Option<Dist>,
    max: Option<Dist>,
}
impl QGen {
    fn new(tname: &str, target: K32) -> Self {
        QGen { tname: tname.to_string(), target, known: vec![], min: None, max: None }
    }
    fn mk(&mut self, d: Dist) -> K32 {
        let k = key_at(&self.tname, &self.target, d.0, d.1);
        if !self.known.iter().any(|(x, _)| *x == k) {
            self.known.push((k, d));
        }
        if self.min.map(|m| dist_lt(d, m)).unwrap_or(true) {
            self.min = Some(d);
        }
        if self.max.map(|m| dist_lt(m, d)).unwrap_or(true) {
            self.max = Some(d);
        }
        k
    }
    fn rekey(&self, k: &K32) -> K32 {
        // re-register the recipe of a known key for the current case table
        if let Some((_, d)) = self.known.iter().find(|(x, _)| x == k) {
            key_at(&self.tname, &self.target, d.0, d.1)
        } else {
            *k
        }
    }
    fn initial(&mut self, rng: &mut Rng, hist: &mut Hist) -> Vec<(K32, bool)> {
        let n = match rng.below(10) {
            0 => 0,
            1 => rng.range(1, 3),
            _ => rng.range(0, 30),
        } as usize;
        let mut v: Vec<(K32, bool)> = vec![];
        while v.len() < n {
            let c = rng.below(40);
            if c == 0 {
                v.push((self.mk(Dist(0, 0)), rng.chance(1, 2)));
                hist.add("initial:target_itself");
            } else if c < 4 && !v.is_empty() {
                let k = rng.pick(&v).0;
                v.push((k, rng.chance(1, 2)));
                hist.add("initial:duplicate");
            } else {
                let d = rand_dist(rng);
                v.push((self.mk(d), rng.chance(2, 3)));
            }
        }
        v
    }
    /// 0..6 reported peers: new (closer / farther / anywhere), duplicate, the target, the reporter
    fn reports(&mut self, rng: &mut Rng, reporter: &K32, hist: &mut Hist) -> Vec<(K32, bool)> {
        // now and then an answer with more records than a bucket holds (the service hands over up to
        // max_nodes_response records plus the rest of the last NODES packet)
        let n = match rng.below(12) {
            0 | 1 => 0,
            2 => rng.range(15, 22),
            _ => rng.range(0, 6),
        } as usize;
        if n > 16 {
            hist.add("report:more_than_16_records");
        }
        let mut v = vec![];
        for _ in 0..n {
            let flag = rng.chance(3, 5);
            let k = match rng.weighted(&[20, 14, 22, 22, 4, 6]) {
                0 => {
                    hist.add("report:new_closer_than_all");
                    let m = self.min.unwrap_or(Dist(1, 200));
                    let d = closer_than(rng, m);
                    self.mk(d)
                }
                1 => {
                    hist.add("report:new_farther_than_all");
                    let m = self.max.unwrap_or(Dist(1, 10));
                    let d = farther_than(rng, m);
                    self.mk(d)
                }
                2 => {
                    hist.add("report:new_anywhere");
                    let d = rand_dist(rng);
                    self.mk(d)
                }
                3 if !self.known.is_empty() => {
                    hist.add("report:duplicate");
                    let k = rng.pick(&self.known).0;
                    self.rekey(&k)
                }
                4 => {
                    hist.add("report:target_itself");
                    self.mk(Dist(0, 0))
                }
                _ => {
                    hist.add("report:reporter_itself");
                    self.rekey(reporter)
                }
            };
            v.push((k, flag));
        }
        v
    }
    fn unknown(&mut self, rng: &mut Rng) -> K32 {
        // an id the lookup has never heard of (not recorded as known)
        let d = rand_dist(rng);
        key_at(&self.tname, &self.target, d.0 ^ 0x5a5a_5a5a, d.1)
    }
}

fn state_name(d: &QueryDump<NodeId>, p: &K32) -> &'static str {
    match d.peers.iter().find(|x| x.id.raw() == *p).map(|x| x.state) {
        None => "unknown_peer",
        Some(PeerStateDump::NotContacted) => "not_contacted",
        Some(PeerStateDump::Waiting(_)) => "waiting",
        Some(PeerStateDump::Unresponsive) => "unresponsive_late",
        Some(PeerStateDump::Failed) => "failed",
        Some(PeerStateDump::Succeeded) => "succeeded_again",
    }
}

pub struct CaseResult {
    pub coq: String,
    pub failures: Vec<(String, String, usize)>,
    pub nontrivial: bool,
    pub canon: u64,
    pub steps: usize,
    pub desc: J,
}

fn fnv(h: &mut u64, x: u64) {
    *h = (*h ^ x).wrapping_mul(1099511628211);
}

// --------------------------------------------------------------------------------------------
// State machine cases (fabricated Instants)

pub fn run_sm_case(id: u64, rng: &mut Rng, thorough: bool, hist: &mut Hist) -> CaseResult {
    intern_begin();
    let mut target = [0u8; 32];
    target.copy_from_slice(&rng.bytes(32));
    let predicate = rng.chance(1, 2);
    let par = if rng.chance(1, 40) { 0 } else { rng.range(1, 5) } as usize;
    let nres = if rng.chance(1, 40) { 0 } else if rng.chance(1, 4) { rng.range(1, 3) } else { rng.range(1, 20) } as usize;
    let pt: u64 = *rng.pick(&[1_000u64, 50_000_000, 10_000_000_000]);
    let mut g = QGen::new("T", target);
    let initial = g.initial(rng, hist);
    let base = Instant::now();
    let tkey = Key::from(nid(&target));
    let mut sm = if predicate {
        Sm::P(Predicate::with_config(
            par,
            nres,
            Duration::from_nanos(pt),
            tkey,
            initial.iter().map(|(k, f)| PredicateKey { key: Key::from(nid(k)), predicate_match: *f }).collect(),
            |r: &Rep| r.flag,
        ))
    } else {
        Sm::F(FindNode::with_config(par, nres, Duration::from_nanos(pt), tkey, initial.iter().map(|(k, _)| Key::from(nid(k))).collect()))
    };
    hist.add(if predicate { "case:predicate_query" } else { "case:findnode_query" });
    let mut mon = Mon::new(predicate, par, nres, target, &initial);
    let mut d = sm.dump();
    let init_hash = hash_dump(base, &d);
    let mut now: u64 = 1;
    mon.observe(&d, now);
    let nev = if thorough { rng.range(60, 260) } else { rng.range(30, 140) } as usize;
    // a lookup without parallelism never starts a request: it can only be ended by the pool
    let drain = rng.chance(1, 2) && par > 0;
    let mut steps: Vec<String> = vec![];
    let mut failures: Vec<(String, String, usize)> = vec![];
    let mut emitted: Vec<K32> = vec![]; // outstanding from the driver's point of view
    let mut done: Vec<K32> = vec![]; // answered or failed
    let mut h: u64 = 1469598103934665603;
    let mut saw_stalled = false;
    let mut saw_late = false;
    let mut saw_timeout = false;
    let mut panicked = false;
    let mut finished_seen = false;
    let mut n = 0usize;
    let mut drain_left: Option<usize> = None;
    let mut last_next_out: Option<u8> = None;
    let mut after_finish = 0u64;
    let after_finish_max = rng.below(7);
    loop {
        // choose the next call
        enum Call {
            Next,
            Success(K32, Vec<(K32, bool)>),
            Failure(K32),
        }
        if finished_seen {
            // a few more calls on the finished lookup (they must have no effect), then stop
            after_finish += 1;
            if after_finish > after_finish_max {
                break;
            }
        }
        let draining = n >= nev;
        if draining {
            if !drain || finished_seen {
                break;
            }
            if drain_left.is_none() {
                drain_left = Some(6 * (g.known.len() + 8));
                hist.add("case:drained_to_completion");
            }
            if drain_left == Some(0) {
                failures.push(("C09".into(), "the lookup does not finish although every request is answered, fails or times out".into(), n));
                break;
            }
            drain_left = drain_left.map(|x| x - 1);
        }
        let call = if draining {
            // an orderly driver: ask for work; when there is none, resolve an outstanding request
            let last_was_idle = matches!(last_next_out, Some(0) | Some(2));
            if last_was_idle {
                if emitted.is_empty() || rng.chance(1, 4) {
                    now += pt;
                    Call::Next
                } else {
                    let i = rng.below(emitted.len() as u64) as usize;
                    let p = emitted[i];
                    if rng.chance(2, 3) {
                        Call::Success(g.rekey(&p), vec![])
                    } else {
                        Call::Failure(g.rekey(&p))
                    }
                }
            } else {
                Call::Next
            }
        } else {
            match rng.weighted(&[40, 26, 8, 9, 5]) {
                0 => Call::Next,
                3 => {
                    now += rng.range(1, pt.max(2) - 1).min(pt / 3 + 1);
                    hist.add("time:advance_within_peer_timeout");
                    Call::Next
                }
                4 => {
                    now += pt + rng.below(3) * (pt / 2);
                    hist.add("time:advance_beyond_peer_timeout");
                    Call::Next
                }
                _ if emitted.is_empty() && rng.chance(3, 4) => Call::Next,
                c => {
                    // which peer answers / fails
                    let p = match rng.weighted(&[70, 10, 10, 6]) {
                        0 if !emitted.is_empty() => *rng.pick(&emitted),
                        1 if !done.is_empty() => *rng.pick(&done),
                        2 if !g.known.is_empty() => rng.pick(&g.known).0,
                        3 => g.unknown(rng),
                        _ if !emitted.is_empty() => *rng.pick(&emitted),
                        _ => g.unknown(rng),
                    };
                    let p = g.rekey(&p);
                    if c == 1 {
                        let reps = g.reports(rng, &p, hist);
                        Call::Success(p, reps)
                    } else {
                        Call::Failure(p)
                    }
                }
            }
        };
        let before = d.clone();
        let mut e = Enc::new();
        let coq_ev;
        let res = match &call {
            Call::Next => {
                coq_ev = format!("ENext {}", now);
                let t = base + Duration::from_nanos(now);
                catch(AssertUnwindSafe(|| Some(sm.next(t))))
            }
            Call::Success(p, reps) => {
                coq_ev = format!("ESuccess {} {}", coq_hex(p), coq_reps(reps));
                hist.add(&format!("success:{}", state_name(&before, p)));
                if state_name(&before, p) == "unresponsive_late" {
                    saw_late = true;
                }
                catch(AssertUnwindSafe(|| {
                    sm.on_success(p, reps);
                    None
                }))
            }
            Call::Failure(p) => {
                coq_ev = format!("EFailure {}", coq_hex(p));
                hist.add(&format!("failure:{}", state_name(&before, p)));
                catch(AssertUnwindSafe(|| {
                    sm.on_failure(p);
                    None
                }))
            }
        };
        n += 1;
        let out = match res {
            Ok(o) => o,
            Err(m) => {
                failures.push(("C09".into(), format!("panic: {}", m), n));
                steps.push(format!("({}, [999])", coq_ev));
                panicked = true;
                break;
            }
        };
        d = sm.dump();
        last_next_out = match &out {
            Some(QueryState::Waiting(None)) => Some(0),
            Some(QueryState::Waiting(Some(_))) => Some(1),
            Some(QueryState::WaitingAtCapacity) => Some(2),
            Some(QueryState::Finished) => Some(3),
            None => None,
        };
        match &out {
            Some(s) => {
                e.n(1);
                enc_qstate(&mut e, s);
                hist.add(match s {
                    QueryState::Waiting(Some(_)) => "next:Waiting(Some)",
                    QueryState::Waiting(None) => "next:Waiting(None)",
                    QueryState::WaitingAtCapacity => "next:WaitingAtCapacity",
                    QueryState::Finished => "next:Finished",
                });
                mon.after_next(&before, s, now, pt);
                if let QueryState::Waiting(Some(p)) = s {
                    emitted.push(p.raw());
                }
                if let QueryState::Finished = s {
                    if !finished_seen {
                        let succ = d.peers.iter().filter(|p| p.state == PeerStateDump::Succeeded && p.predicate_match).count();
                        hist.add(if succ >= nres { "finish:enough_results" } else { "finish:candidates_exhausted" });
                    }
                    finished_seen = true;
                }
                let unresp_b = before.peers.iter().filter(|p| p.state == PeerStateDump::Unresponsive).count();
                let unresp_a = d.peers.iter().filter(|p| p.state == PeerStateDump::Unresponsive).count();
                if unresp_a > unresp_b {
                    saw_timeout = true;
                    hist.addn("peer_timeouts", (unresp_a - unresp_b) as u64);
                }
                fnv(&mut h, 1 + e.0[1].parse::<u64>().unwrap_or(9));
            }
            None => {
                e.n(0);
                match &call {
                    Call::Success(p, reps) => {
                        if mon.note_answer(p, reps, &before) {
                            mon.learned_are_held(reps, &d);
                        }
                        mon.on_success(p, reps);
                        emitted.retain(|x| x != p);
                        done.push(*p);
                        fnv(&mut h, 20 + reps.len() as u64);
                    }
                    Call::Failure(p) => {
                        mon.on_failure(p);
                        emitted.retain(|x| x != p);
                        done.push(*p);
                        fnv(&mut h, 30);
                    }
                    _ => {}
                }
            }
        }
        if d.progress == ProgressDump::Stalled {
            if !saw_stalled {
                hist.add("case:stalled_seen");
            }
            saw_stalled = true;
        }
        if matches!(before.progress, ProgressDump::Stalled) && matches!(d.progress, ProgressDump::Iterating(_)) {
            hist.add("progress:stalled_to_iterating");
        }
        mon.observe(&d, now);
        fnv(&mut h, d.num_waiting as u64 * 7 + d.peers.len() as u64);
        e.n(hash_dump(base, &d));
        steps.push(format!("({}, {})", coq_ev, e.coq()));
        if !mon.fails.is_empty() {
            break;
        }
    }
    // the result
    let result_enc;
    if panicked {
        result_enc = "[999]".to_string();
    } else {
        let last = d.clone();
        match catch(AssertUnwindSafe(move || sm.into_result())) {
            Ok(r) => {
                let r: Vec<K32> = r.iter().map(|x| x.raw()).collect();
                mon.check_result(&r, &last, false, hist);
                let mut e = Enc::new();
                e.n(r.len() as u64);
                for k in &r {
                    e.big(k);
                }
                hist.add(&format!("result_len:{}", if r.is_empty() { "0".to_string() } else if r.len() == nres { "k".to_string() } else { "between".to_string() }));
                fnv(&mut h, 100 + r.len() as u64);
                result_enc = e.coq();
            }
            Err(m) => {
                failures.push(("C10".into(), format!("panic in into_result: {}", m), n));
                result_enc = "[999]".to_string();
            }
        }
    }
    for (p, w) in mon.fails.drain(..) {
        failures.push((p, w, n));
    }
    for w in mon.notes.drain(..) {
        failures.push(("note-C10".into(), w, n));
    }
    let known_coq = coq_reps(&initial);
    let table = intern_end();
    let coq = format!(
        "(let T := {} in let K := fun i : N => nth (N.to_nat i) {} 0 in\n CSm {} {} ({}, {}, {}) T {} {}\n [{}]\n {})",
        coq_hex_raw(&target),
        table,
        id,
        if predicate { "KPredicate" } else { "KFindNode" },
        par,
        nres,
        pt,
        known_coq,
        init_hash,
        steps.join(";\n  "),
        result_enc
    );
    let desc = J::obj(vec![
        ("case", J::I(id as i64)),
        ("kind", J::s(if predicate { "predicate state machine" } else { "findnode state machine" })),
        ("parallelism", J::I(par as i64)),
        ("num_results", J::I(nres as i64)),
        ("peer_timeout_ns", J::I(pt as i64)),
        ("initial_candidates", J::I(initial.len() as i64)),
        ("first_events", J::A(steps.iter().take(5).map(|s| J::s(s.chars().take(160).collect::<String>())).collect())),
    ]);
    CaseResult { coq, failures, nontrivial: saw_stalled || saw_late || saw_timeout, canon: h, steps: steps.len(), desc }
}

// --------------------------------------------------------------------------------------------
// Pool cases (real time: QueryPool::poll reads the clock itself)

type Pool = QueryPool<Tgt, NodeId, Rep>;

struct PQ {
    mon: Mon,
    gen: QGen,
    emitted: Vec<K32>,
    done: Vec<K32>,
    pt: u64,
    returned: bool,
}

fn pool_dumps(pool: &Pool) -> BTreeMap<usize, (Option<Instant>, QueryDump<NodeId>)> {
    pool.iter().map(|q| (*q.id(), (q.verif_started(), q.verif_dump()))).collect()
}
fn hash_pquery(e: &mut HashEnc, base: Instant, started: Option<Instant>, d: &QueryDump<NodeId>) {
    match started {
        Some(s) => e.n(1).n(ns(base, s)),
        None => e.n(0),
    };
    hash_dump_into(e, base, d);
}
fn hash_pool(base: Instant, pool: &Pool, dumps: &BTreeMap<usize, (Option<Instant>, QueryDump<NodeId>)>) -> u64 {
    let mut e = HashEnc::new();
    e.n(pool.verif_next_id() as u64);
    e.n(dumps.len() as u64);
    for (id, (st, d)) in dumps {
        e.n(*id as u64);
        hash_pquery(&mut e, base, *st, d);
    }
    e.value()
}

const QUERY_TIMEOUT_MS: u64 = 70;

pub fn run_pool_case(id: u64, rng: &mut Rng, _thorough: bool, hist: &mut Hist) -> CaseResult {
    intern_begin();
    let tnames = ["T", "T1", "T2"];
    let mut targets: Vec<K32> = vec![];
    for _ in 0..3 {
        let mut t = [0u8; 32];
        t.copy_from_slice(&rng.bytes(32));
        targets.push(t);
    }
    let qt = Duration::from_millis(QUERY_TIMEOUT_MS);
    let mut pool: Pool = QueryPool::new(qt);
    let base = Instant::now();
    let mut qs: BTreeMap<usize, PQ> = BTreeMap::new();
    let mut retired: Vec<usize> = vec![];
    let mut steps: Vec<String> = vec![];
    let mut failures: Vec<(String, String, usize)> = vec![];
    let mut h: u64 = 1469598103934665603;
    let mut saw = (false, false, false); // timeout result, finished result, peer timeout
    let mut added = 0usize;
    let nev = rng.range(25, 70) as usize;
    let mut n = 0usize;
    let mut ambiguous = false;
    let wrap = rng.chance(1, 6);
    if wrap {
        let v = usize::MAX - rng.below(2) as usize;
        pool.verif_set_next_id(v);
        let dumps = pool_dumps(&pool);
        steps.push(format!("(RSetNextId {}, [0; {}])", v, hash_pool(base, &pool, &dumps)));
        hist.add("pool:id_counter_wraps");
    }
    let hard_stop = Duration::from_millis(QUERY_TIMEOUT_MS * 6);
    loop {
        let draining = n >= nev;
        if base.elapsed() > hard_stop {
            if !qs.values().all(|q| q.returned) {
                failures.push(("C09".into(), "a lookup is still in the pool long after the query timeout although the pool is polled".into(), n));
            }
            break;
        }
        // what to do
        let c = if draining {
            if pool.iter().next().is_none() {
                // one last poll must say Idle
                if steps.last().map(|s| s.contains("[2; 0;")).unwrap_or(false) {
                    break;
                }
            }
            5
        } else if added == 0 {
            0
        } else if pool.iter().next().is_none() && rng.chance(2, 3) {
            // nothing left in the pool: add another query or go on to the final polls
            if added < 3 {
                0
            } else {
                n = nev;
                5
            }
        } else {
            rng.weighted(&[if added < 3 { 6 } else { 0 }, 14, 4, 10, 0, 40])
        };
        n += 1;
        match c {
            0 => {
                // add a query
                let ti = added % 3;
                let target = targets[ti];
                let predicate = rng.chance(1, 2);
                let par = rng.range(1, 4) as usize;
                let nres = if rng.chance(1, 3) { rng.range(1, 3) } else { rng.range(1, 16) } as usize;
                let pt: u64 = *rng.pick(&[12_000_000u64, 30_000_000, 2_000_000_000]);
                let mut g = QGen::new(tnames[ti], target);
                let initial = g.initial(rng, hist);
                let initial = if initial.is_empty() && rng.chance(2, 3) { vec![(g.mk(rand_dist(rng)), true)] } else { initial };
                let r = catch(AssertUnwindSafe(|| {
                    if predicate {
                        add_predicate_query(
                            &mut pool,
                            par,
                            nres,
                            Duration::from_nanos(pt),
                            Tgt(nid(&target)),
                            initial.iter().map(|(k, f)| PredicateKey { key: Key::from(nid(k)), predicate_match: *f }).collect(),
                            |r: &Rep| r.flag,
                        )
                    } else {
                        pool.add_findnode_query(
                            findnode_config(par, nres, Duration::from_nanos(pt)),
                            Tgt(nid(&target)),
                            initial.iter().map(|(k, _)| Key::from(nid(k))).collect::<Vec<_>>(),
                        )
                    }
                }));
                let qid = match r {
                    Ok(q) => *q,
                    Err(m) => {
                        failures.push(("C09".into(), format!("panic: {}", m), n));
                        break;
                    }
                };
                added += 1;
                hist.add(if predicate { "pool:add_predicate_query" } else { "pool:add_findnode_query" });
                if let Some(old) = qs.get(&qid) {
                    if !old.returned {
                        hist.add("pool:live_query_overwritten_after_id_wrap");
                        // (a wrapping counter gives a handful of lookups distinct ids wherever it starts)
                        failures.push(("C09".into(), "a new lookup was given the id of a lookup that is still running: the running lookup is dropped without ever handing its result to the caller".into(), n));
                    }
                }
                qs.insert(qid, PQ { mon: Mon::new(predicate, par, nres, target, &initial), gen: g, emitted: vec![], done: vec![], pt, returned: false });
                retired.retain(|x| *x != qid);
                let dumps = pool_dumps(&pool);
                if let Some((_, d)) = dumps.get(&qid) {
                    qs.get_mut(&qid).unwrap().mon.observe(d, ns(base, Instant::now()));
                }
                steps.push(format!(
                    "(REv (PAdd {} (C {} {} {}) {} {}), [1; {}; {}])",
                    if predicate { "KPredicate" } else { "KFindNode" },
                    par,
                    nres,
                    pt,
                    tnames[ti],
                    coq_reps(&initial),
                    qid,
                    hash_pool(base, &pool, &dumps)
                ));
                fnv(&mut h, 3);
            }
            1 | 2 => {
                // a response / failure for some query
                let live: Vec<usize> = qs.keys().cloned().collect();
                let qid = if rng.chance(1, 12) || live.is_empty() { 77 + rng.below(3) as usize } else { *rng.pick(&live) };
                let (p, reps) = match qs.get_mut(&qid) {
                    Some(q) => {
                        let p = match rng.weighted(&[70, 10, 10, 6]) {
                            0 if !q.emitted.is_empty() => *rng.pick(&q.emitted),
                            1 if !q.done.is_empty() => *rng.pick(&q.done),
                            2 if !q.gen.known.is_empty() => rng.pick(&q.gen.known).0,
                            3 => q.gen.unknown(rng),
                            _ if !q.emitted.is_empty() => *rng.pick(&q.emitted),
                            _ => q.gen.unknown(rng),
                        };
                        let p = q.gen.rekey(&p);
                        let reps = if c == 1 { q.gen.reports(rng, &p, hist) } else { vec![] };
                        (p, reps)
                    }
                    None => (key_at("T", &targets[0], 12345, 7), vec![]),
                };
                let before = pool_dumps(&pool);
                let present = before.contains_key(&qid);
                if let Some((_, d)) = before.get(&qid) {
                    hist.add(&format!("{}:{}", if c == 1 { "success" } else { "failure" }, state_name(d, &p)));
                } else {
                    hist.add("pool:event_for_absent_query");
                }
                let r = catch(AssertUnwindSafe(|| {
                    if let Some(q) = pool.get_mut(discv5::verif::query::QueryId(qid)) {
                        if c == 1 {
                            let v: Vec<Rep> = reps.iter().map(|(k, f)| Rep { id: nid(k), flag: *f }).collect();
                            q.on_success(&nid(&p), &v);
                        } else {
                            q.on_failure(&nid(&p));
                        }
                    }
                }));
                if let Err(m) = r {
                    failures.push(("C09".into(), format!("panic: {}", m), n));
                    break;
                }
                if present {
                    if let Some(q) = qs.get_mut(&qid) {
                        if c == 1 {
                            if let Some((_, bd)) = before.get(&qid) {
                                if q.mon.note_answer(&p, &reps, bd) {
                                    let after = pool_dumps(&pool);
                                    if let Some((_, ad)) = after.get(&qid) {
                                        q.mon.learned_are_held(&reps, ad);
                                    }
                                }
                            }
                            q.mon.on_success(&p, &reps);
                        } else {
                            q.mon.on_failure(&p);
                        }
                        q.emitted.retain(|x| *x != p);
                        q.done.push(p);
                    }
                }
                let dumps = pool_dumps(&pool);
                let tnow = ns(base, Instant::now());
                if let (Some((_, d)), Some(q)) = (dumps.get(&qid), qs.get_mut(&qid)) {
                    q.mon.observe(d, tnow);
                }
                steps.push(if c == 1 {
                    format!("(REv (PSuccess {} {} {}), [0; {}])", qid, coq_hex(&p), coq_reps(&reps), hash_pool(base, &pool, &dumps))
                } else {
                    format!("(REv (PFailure {} {}), [0; {}])", qid, coq_hex(&p), hash_pool(base, &pool, &dumps))
                });
                fnv(&mut h, 5 + c as u64);
            }
            3 => {
                let ms = *rng.pick(&[1u64, 2, 5, 9, 14, 22]);
                std::thread::sleep(Duration::from_millis(ms));
                hist.add("pool:sleep");
                n -= 1;
            }
            _ => {
                // poll
                if draining {
                    // no new work arrives; wait a little so that deadlines pass
                    std::thread::sleep(Duration::from_millis(3));
                }
                let before = pool_dumps(&pool);
                // deadlines that a poll would compare the clock with
                let mut deadlines: Vec<u64> = vec![];
                for (_, (st, d)) in &before {
                    if let Some(s) = st {
                        deadlines.push(ns(base, *s) + qt.as_nanos() as u64);
                    }
                    for p in &d.peers {
                        if let PeerStateDump::Waiting(t) = p.state {
                            deadlines.push(ns(base, t));
                        }
                    }
                }
                // keep clear of a deadline that is about to pass
                let t = ns(base, Instant::now());
                if let Some(dl) = deadlines.iter().filter(|dl| **dl + 200_000 > t && **dl < t + 1_500_000).max() {
                    std::thread::sleep(Duration::from_nanos(dl + 600_000 - t.min(dl + 600_000)));
                }
                let order: Vec<usize> = pool.iter().map(|q| *q.id()).collect();
                let t0 = ns(base, Instant::now());
                let r = catch(AssertUnwindSafe(|| match pool.poll() {
                    QueryPoolState::Idle => (0u8, None, None),
                    QueryPoolState::Waiting(None) => (1, None, None),
                    QueryPoolState::Waiting(Some((q, p))) => (2, Some((*q.id(), p.raw())), None),
                    QueryPoolState::Finished(q) => (3, None, Some(q)),
                    QueryPoolState::Timeout(q) => (4, None, Some(q)),
                }));
                let t1 = ns(base, Instant::now()) + 1;
                let (code, emit, ret) = match r {
                    Ok(x) => x,
                    Err(m) => {
                        failures.push(("C09".into(), format!("panic: {}", m), n));
                        break;
                    }
                };
                let after = pool_dumps(&pool);
                // the instant the poll read: stored in `started` of a query it started or in the
                // deadline of the request it handed out
                let mut exact: Option<u64> = None;
                for (qid, (st, _)) in &after {
                    if let (Some(s), Some((None, _))) = (st, before.get(qid)) {
                        exact = Some(ns(base, *s));
                    }
                }
                let ret_info = ret.as_ref().map(|q| (*q.id(), q.verif_started(), q.verif_dump()));
                if let Some((qid, st, _)) = &ret_info {
                    if let (Some(s), Some((None, _))) = (st, before.get(qid)) {
                        exact = Some(ns(base, *s));
                    }
                }
                if let Some((qid, p)) = &emit {
                    if let Some((_, d)) = after.get(qid) {
                        if let Some(PeerStateDump::Waiting(t)) = d.peers.iter().find(|x| x.id.raw() == *p).map(|x| x.state) {
                            exact = Some(ns(base, t) - d.peer_timeout.as_nanos() as u64);
                        }
                    }
                }
                let now = match exact {
                    Some(x) => x,
                    None => {
                        if deadlines.iter().any(|dl| *dl > t0.saturating_sub(1) && *dl <= t1) {
                            // the clock value the poll used cannot be told from the outside
                            ambiguous = true;
                            hist.add("pool:time_ambiguous_poll(case truncated)");
                            break;
                        }
                        t0
                    }
                };
                let mut e = Enc::new();
                e.n(2).n(code as u64);
                hist.add(match code {
                    0 => "poll:Idle",
                    1 => "poll:Waiting(None)",
                    2 => "poll:Waiting(Some)",
                    3 => "poll:Finished",
                    _ => "poll:Timeout",
                });
                fnv(&mut h, 40 + code as u64);
                // monitors on every query the poll touched
                for (qid, (_, d)) in &after {
                    if let Some(q) = qs.get_mut(qid) {
                        if let Some((_, b)) = before.get(qid) {
                            let ub = b.peers.iter().filter(|p| p.state == PeerStateDump::Unresponsive).count();
                            let ua = d.peers.iter().filter(|p| p.state == PeerStateDump::Unresponsive).count();
                            if ua > ub {
                                saw.2 = true;
                                hist.addn("peer_timeouts", (ua - ub) as u64);
                            }
                            if let Some((eq, p)) = &emit {
                                if eq == qid {
                                    q.mon.after_next(b, &QueryState::Waiting(Some(nid(p))), now, q.pt);
                                    q.emitted.push(*p);
                                }
                            }
                        }
                        q.mon.observe(d, now);
                        if d.progress == ProgressDump::Stalled {
                            hist.add("pool:stalled_state_observed");
                        }
                    }
                }
                if let Some((qid, p)) = &emit {
                    e.n(*qid as u64).big(p);
                }
                if let Some(q) = ret {
                    let (qid, st, d) = ret_info.clone().unwrap();
                    e.n(qid as u64);
                    let mut he = HashEnc::new();
                    hash_pquery(&mut he, base, st, &d);
                    e.n(he.value());
                    let timed_out = code == 4;
                    // C09: the result of a lookup is handed out once
                    if retired.contains(&qid) {
                        failures.push(("C09".into(), "the pool handed out the result of the same lookup twice".into(), n));
                    }
                    retired.push(qid);
                    if pool.get_mut(discv5::verif::query::QueryId(qid)).is_some() {
                        failures.push(("C09".into(), "a lookup is still in the pool after its result was handed out".into(), n));
                    }
                    if !timed_out {
                        if d.progress != ProgressDump::Finished {
                            failures.push(("C09".into(), "the pool reported Finished for a lookup that is not finished".into(), n));
                        }
                        saw.1 = true;
                    } else {
                        saw.0 = true;
                        let st_ns = st.map(|s| ns(base, s)).unwrap_or(now);
                        if now.saturating_sub(st_ns) < qt.as_nanos() as u64 {
                            failures.push(("C09".into(), "the pool reported Timeout before the query timeout".into(), n));
                        }
                    }
                    let res: Vec<K32> = q.into_result().closest_peers.map(|x| x.raw()).collect();
                    e.n(res.len() as u64);
                    for k in &res {
                        e.big(k);
                    }
                    if let Some(pq) = qs.get_mut(&qid) {
                        if !timed_out {
                            pq.mon.finished_by_itself = true;
                        }
                        pq.mon.check_result(&res, &d, timed_out, hist);
                        pq.returned = true;
                    }
                    fnv(&mut h, 200 + res.len() as u64);
                }
                let ord = coq_list(&order.iter().map(|x| x.to_string()).collect::<Vec<_>>());
                e.n(hash_pool(base, &pool, &after));
                steps.push(format!("(REv (PPoll {} {}), {})", now, ord, e.coq()));
            }
        }
        let mut stop = false;
        for q in qs.values_mut() {
            for (p, w) in q.mon.fails.drain(..) {
                failures.push((p, w, n));
                stop = true;
            }
        }
        if stop || !failures.is_empty() {
            break;
        }
    }
    // C09: every lookup hands its result to the caller: a lookup that is no longer in the pool
    // must have been handed out
    if !ambiguous {
        for (qid, q) in qs.iter() {
            if !q.returned && pool.get_mut(discv5::verif::query::QueryId(*qid)).is_none() {
                failures.push(("C09".into(), "a lookup left the pool without its result being handed out".into(), n));
            }
        }
    }
    for q in qs.values_mut() {
        for w in q.mon.notes.drain(..) {
            failures.push(("note-C10".into(), w, n));
        }
    }
    let table = intern_end();
    let coq = format!(
        "(let T := {} in let T1 := {} in let T2 := {} in let K := fun i : N => nth (N.to_nat i) {} 0 in\n CPool {} {}\n [{}])",
        coq_hex_raw(&targets[0]),
        coq_hex_raw(&targets[1]),
        coq_hex_raw(&targets[2]),
        table,
        id,
        qt.as_nanos(),
        steps.join(";\n  ")
    );
    let desc = J::obj(vec![
        ("case", J::I(id as i64)),
        ("kind", J::s("query pool in real time")),
        ("query_timeout_ms", J::I(QUERY_TIMEOUT_MS as i64)),
        ("queries_added", J::I(added as i64)),
        ("first_events", J::A(steps.iter().take(5).map(|s| J::s(s.chars().take(160).collect::<String>())).collect())),
    ]);
    CaseResult { coq, failures, nontrivial: saw.0 || saw.1 || saw.2, canon: h, steps: steps.len(), desc }
}

pub const HEADER: &str = "From Coq Require Import List NArith.\nImport ListNotations.\nFrom Discv5V Require Import Model.Query Run.Common Run.QueryRun.\nOpen Scope N_scope.";

pub fn case_rng(seed: u64, idx: u64) -> Rng {
    Rng::new(seed.wrapping_mul(0x9E3779B97F4A7C15).wrapping_add(idx.wrapping_mul(0xD1B54A32D192ED03)).wrapping_add(0x51))
}

fn is_pool_case(idx: u64) -> bool {
    idx % 3 == 2
}

/// `harness query --seed S --cases N --out DIR [--only I]`
pub fn main(args: &[String]) {
    let o = parse_opts(args);
    let mut only: Option<u64> = None;
    let mut i = 0;
    while i < o.rest.len() {
        if o.rest[i] == "--only" {
            only = Some(o.rest[i + 1].parse().unwrap());
            i += 1;
        }
        i += 1;
    }
    let mut sum = Summary::new("query");
    let mut w = CaseWriter::new(&o.out, "query_cases", HEADER, "qcase", "check_all", 8);
    let range: Vec<u64> = match only {
        Some(x) => vec![x],
        None => (0..o.cases).collect(),
    };
    // the pool cases sleep (real time): run them on a few threads; every case has its own PRNG
    let thorough = o.thorough;
    let seed = o.seed;
    let mut results: BTreeMap<u64, (CaseResult, Hist)> = BTreeMap::new();
    let pool_idx: Vec<u64> = range.iter().cloned().filter(|i| is_pool_case(*i)).collect();
    let nthreads = 6usize;
    let chunks: Vec<Vec<u64>> = (0..nthreads).map(|t| pool_idx.iter().cloned().skip(t).step_by(nthreads).collect()).collect();
    std::thread::scope(|s| {
        let handles: Vec<_> = chunks
            .iter()
            .map(|chunk| {
                s.spawn(move || {
                    let mut v = vec![];
                    for &idx in chunk {
                        let mut rng = case_rng(seed, idx);
                        let mut hist = Hist::default();
                        let r = run_pool_case(idx, &mut rng, thorough, &mut hist);
                        v.push((idx, r, hist));
                    }
                    v
                })
            })
            .collect();
        for idx in range.iter().cloned().filter(|i| !is_pool_case(*i)) {
            let mut rng = case_rng(seed, idx);
            let mut hist = Hist::default();
            let r = run_sm_case(idx, &mut rng, thorough, &mut hist);
            results.insert(idx, (r, hist));
        }
        for hnd in handles {
            for (idx, r, hist) in hnd.join().expect("pool thread") {
                results.insert(idx, (r, hist));
            }
        }
    });
    let mut canon: BTreeSet<u64> = BTreeSet::new();
    let mut seen_sig: BTreeSet<String> = BTreeSet::new();
    for (idx, (r, hist)) in results {
        for (k, v) in hist.0 {
            sum.hist.addn(&k, v);
        }
        sum.evaluations += 1;
        sum.steps += r.steps as u64;
        if r.nontrivial && canon.insert(r.canon) {
            sum.distinct_nontrivial += 1;
        }
        if sum.samples.len() < 3 && (sum.samples.len() < 2 || is_pool_case(idx)) {
            sum.samples.push(r.desc.clone());
        }
        for (prop, desc, step) in &r.failures {
            let sig: String = desc.chars().map(|c| if c.is_ascii_digit() { '#' } else { c }).collect();
            let sig = format!("{}:{}", prop, sig);
            if seen_sig.insert(sig.clone()) || only.is_some() {
                let file = o.out.join(format!("failure_{}_{}.json", prop, idx));
                let j = J::obj(vec![
                    ("component", J::s("query")),
                    ("property", J::s(prop.clone())),
                    ("seed", J::I(o.seed as i64)),
                    ("case", J::I(idx as i64)),
                    ("thorough", J::B(o.thorough)),
                    ("step", J::I(*step as i64)),
                    ("what", J::s(desc.clone())),
                    ("case_description", r.desc.clone()),
                ]);
                std::fs::write(&file, j.render()).unwrap();
                sum.monitor_failures.push((sig, desc.clone(), file.to_string_lossy().to_string()));
            }
        }
        w.push(r.coq);
    }
    w.flush();
    sum.case_files = w.files.clone();
    sum.rule = "two thirds of the cases drive a real FindNodeQuery / PredicateQuery with fabricated Instants (0-30 initial candidates incl. duplicates and the target, parallelism 0-5, num_results 0-20, 30-140 calls of next / on_success (0-6 reported peers: closer than all, farther than all, anywhere, duplicates, the target, the reporter) / on_failure for in-flight, answered, never-contacted and unknown peers, time steps within and beyond the peer timeout; half of them are then driven to completion); one third drive a real QueryPool with 1-3 queries in real time (query timeout 70 ms, peer timeouts 12 ms / 30 ms / 2 s) until it is idle; a case is non-trivial if a stall, a peer timeout, a late answer or a pool result occurred, and distinct if the hash of its output trace is new in this run".into();
    sum.write(&o.out);
    println!(
        "query: {} cases, {} steps, {} distinct non-trivial, {} monitor failure signatures",
        sum.evaluations,
        sum.steps,
        sum.distinct_nontrivial,
        sum.monitor_failures.len()
    );
}
